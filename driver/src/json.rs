//! Minimal JSON value + writer (the driver has no Cargo dependencies).
use std::fmt::Write;

#[derive(Clone, Debug)]
pub enum J {
    Null,
    Bool(bool),
    Int(i128),
    Str(String),
    Arr(Vec<J>),
    Obj(Vec<(String, J)>),
}

impl J {
    pub fn s<T: Into<String>>(t: T) -> J {
        J::Str(t.into())
    }
    pub fn obj() -> J {
        J::Obj(Vec::new())
    }
    pub fn set<T: Into<String>>(mut self, k: T, v: J) -> J {
        if let J::Obj(ref mut m) = self {
            m.push((k.into(), v));
        }
        self
    }
    pub fn put<T: Into<String>>(&mut self, k: T, v: J) {
        if let J::Obj(ref mut m) = self {
            m.push((k.into(), v));
        }
    }
    pub fn write(&self, out: &mut String) {
        match self {
            J::Null => out.push_str("null"),
            J::Bool(b) => out.push_str(if *b { "true" } else { "false" }),
            J::Int(i) => {
                let _ = write!(out, "{}", i);
            }
            J::Str(s) => esc(s, out),
            J::Arr(a) => {
                out.push('[');
                for (i, x) in a.iter().enumerate() {
                    if i > 0 {
                        out.push(',');
                    }
                    x.write(out);
                }
                out.push(']');
            }
            J::Obj(m) => {
                out.push('{');
                for (i, (k, v)) in m.iter().enumerate() {
                    if i > 0 {
                        out.push(',');
                    }
                    esc(k, out);
                    out.push(':');
                    v.write(out);
                }
                out.push('}');
            }
        }
    }
}

fn esc(s: &str, out: &mut String) {
    out.push('"');
    for c in s.chars() {
        match c {
            '"' => out.push_str("\\\""),
            '\\' => out.push_str("\\\\"),
            '\n' => out.push_str("\\n"),
            '\r' => out.push_str("\\r"),
            '\t' => out.push_str("\\t"),
            c if (c as u32) < 0x20 => {
                let _ = write!(out, "\\u{:04x}", c as u32);
            }
            c => out.push(c),
        }
    }
    out.push('"');
}
