//! ctapfacts — a "dumb, complete" fact extractor for trussed-dev/ctap-types.
//!
//! Injected with RUSTC_WORKSPACE_WRAPPER under `cargo +nightly check`.  For the crate
//! `ctap_types` it serialises what the compiler knows (ADTs with evaluated field types
//! and discriminants, evaluated constants, impls, the typed HIR of every body with
//! resolved callees, and the monomorphic call graph from a set of roots with the MIR
//! events of the local instances) to one JSON file.  It contains no rule: all judgement
//! is in /verif/rules (python).
#![feature(rustc_private)]
extern crate rustc_abi;
extern crate rustc_ast;
extern crate rustc_driver;
extern crate rustc_hir;
extern crate rustc_interface;
extern crate rustc_middle;
extern crate rustc_span;

mod json;
mod mono;

use json::J;
use rustc_driver::{Callbacks, Compilation};
use rustc_hir as hir;
use rustc_hir::def::{CtorKind, DefKind, Res};
use rustc_hir::def_id::{DefId, LocalDefId, LOCAL_CRATE};
use rustc_middle::ty::print::{with_no_trimmed_paths, with_no_visible_paths};
use rustc_middle::ty::{self, Ty, TyCtxt, TypeckResults};
use rustc_span::Span;
use std::collections::{BTreeMap, BTreeSet};

pub fn ty_str<'tcx>(t: Ty<'tcx>) -> String {
    with_no_visible_paths!(with_no_trimmed_paths!(format!("{}", t)))
}

pub fn path_str(tcx: TyCtxt<'_>, did: DefId) -> String {
    with_no_visible_paths!(with_no_trimmed_paths!(tcx.def_path_str(did)))
}

pub fn span_str(tcx: TyCtxt<'_>, span: Span) -> String {
    let sm = tcx.sess.source_map();
    let lo = sm.lookup_char_pos(span.lo());
    let hi = sm.lookup_char_pos(span.hi());
    let name = format!("{}", lo.file.name.prefer_local_unconditionally());
    format!("{}:{}:{}-{}:{}", name, lo.line, lo.col.0 + 1, hi.line, hi.col.0 + 1)
}

/// Expansion provenance: macro expansions enclosing the span, innermost first.
pub fn prov(span: Span) -> J {
    if !span.from_expansion() {
        return J::s("user");
    }
    let mut v = Vec::new();
    let mut sp = span;
    let mut guard = 0;
    while sp.from_expansion() && guard < 32 {
        let ed = sp.ctxt().outer_expn_data();
        match ed.kind {
            rustc_span::ExpnKind::Macro(kind, name) => {
                // a `macro_rules!` written by hand in this crate is the crate's own code: what it expands to is read like
                // any other hand-written item (macros that are themselves generated, e.g. delog's log macros, are not)
                if matches!(kind, rustc_span::MacroKind::Bang) {
                    if let Some(did) = ed.macro_def_id {
                        if did.is_local() && ty::tls::with(|tcx| !tcx.def_span(did).from_expansion()) {
                            sp = ed.call_site;
                            guard += 1;
                            continue;
                        }
                    }
                }
                let k = match kind {
                    rustc_span::MacroKind::Bang => "bang",
                    rustc_span::MacroKind::Attr => "attr",
                    rustc_span::MacroKind::Derive => "derive",
                };
                v.push(format!("{}:{}", k, name));
            }
            rustc_span::ExpnKind::Desugaring(d) => v.push(format!("desugar:{:?}", d)),
            rustc_span::ExpnKind::AstPass(p) => v.push(format!("astpass:{:?}", p)),
            rustc_span::ExpnKind::Root => {}
        }
        sp = ed.call_site;
        guard += 1;
    }
    if v.iter().all(|s| s.starts_with("desugar:")) {
        // only language desugarings (`?`, `for`, `while let`) around user code
        return J::s("user");
    }
    J::s(v.join(">"))
}

/// Structured type.
pub fn ty_json<'tcx>(tcx: TyCtxt<'tcx>, t: Ty<'tcx>) -> J {
    let mut o = J::obj().set("s", J::s(ty_str(t)));
    match *t.kind() {
        ty::Bool | ty::Char | ty::Int(_) | ty::Uint(_) | ty::Float(_) | ty::Str | ty::Never => {
            o.put("k", J::s("prim"));
        }
        ty::Adt(def, args) => {
            o.put("k", J::s("adt"));
            o.put("path", J::s(path_str(tcx, def.did())));
            o.put("krate", J::s(tcx.crate_name(def.did().krate).to_string()));
            let mut a = Vec::new();
            for g in args.iter() {
                match g.kind() {
                    ty::GenericArgKind::Type(t2) => a.push(ty_json(tcx, t2)),
                    ty::GenericArgKind::Const(c) => {
                        let mut co = J::obj().set("k", J::s("const")).set("s", J::s(format!("{}", c)));
                        if let Some(v) = c.try_to_target_usize(tcx) {
                            co.put("v", J::Int(v as i128));
                        }
                        a.push(co);
                    }
                    ty::GenericArgKind::Lifetime(_) => {}
                }
            }
            o.put("args", J::Arr(a));
        }
        ty::Ref(_, inner, m) => {
            o.put("k", J::s("ref"));
            o.put("mut", J::Bool(m.is_mut()));
            o.put("inner", ty_json(tcx, inner));
        }
        ty::RawPtr(inner, m) => {
            o.put("k", J::s("ptr"));
            o.put("mut", J::Bool(m.is_mut()));
            o.put("inner", ty_json(tcx, inner));
        }
        ty::Array(elem, n) => {
            o.put("k", J::s("array"));
            o.put("elem", ty_json(tcx, elem));
            if let Some(v) = n.try_to_target_usize(tcx) {
                o.put("len", J::Int(v as i128));
            } else {
                o.put("len_s", J::s(format!("{}", n)));
            }
        }
        ty::Slice(elem) => {
            o.put("k", J::s("slice"));
            o.put("elem", ty_json(tcx, elem));
        }
        ty::Tuple(ts) => {
            o.put("k", J::s("tuple"));
            o.put("elems", J::Arr(ts.iter().map(|x| ty_json(tcx, x)).collect()));
        }
        ty::Param(p) => {
            o.put("k", J::s("param"));
            o.put("name", J::s(p.name.to_string()));
        }
        _ => {
            o.put("k", J::s("other"));
        }
    }
    o
}

struct Conv<'tcx> {
    tcx: TyCtxt<'tcx>,
    tr: &'tcx TypeckResults<'tcx>,
    owner: LocalDefId,
}

impl<'tcx> Conv<'tcx> {
    fn res(&self, qp: &hir::QPath<'tcx>, id: hir::HirId) -> J {
        match self.tr.qpath_res(qp, id) {
            Res::Def(k, did) => {
                let mut o = J::obj()
                    .set("rk", J::s(format!("{:?}", k)))
                    .set("path", J::s(path_str(self.tcx, did)))
                    .set("krate", J::s(self.tcx.crate_name(did.krate).to_string()));
                if let DefKind::Ctor(..) = k {
                    // path of the variant / struct the ctor belongs to
                    let parent = self.tcx.parent(did);
                    o.put("ctor_of", J::s(path_str(self.tcx, parent)));
                }
                o
            }
            Res::Local(hid) => J::obj()
                .set("rk", J::s("Local"))
                .set("name", J::s(self.tcx.hir_name(hid).to_string()))
                .set("id", J::Int(hid.local_id.as_u32() as i128)),
            Res::SelfCtor(did) => J::obj().set("rk", J::s("SelfCtor")).set("path", J::s(path_str(self.tcx, did))),
            Res::SelfTyAlias { alias_to, .. } => {
                J::obj().set("rk", J::s("SelfTyAlias")).set("path", J::s(path_str(self.tcx, alias_to)))
            }
            Res::SelfTyParam { .. } => J::obj().set("rk", J::s("SelfTyParam")),
            Res::PrimTy(p) => J::obj().set("rk", J::s("PrimTy")).set("path", J::s(format!("{:?}", p))),
            o => J::obj().set("rk", J::s(format!("{:?}", o))),
        }
    }

    fn lit(&self, l: &hir::Lit, negated: bool) -> J {
        use rustc_ast::LitKind;
        let mut o = J::obj().set("k", J::s("lit"));
        match l.node {
            LitKind::Str(s, _) => {
                o.put("lk", J::s("str"));
                o.put("v", J::s(s.as_str()));
            }
            LitKind::ByteStr(ref b, _) | LitKind::CStr(ref b, _) => {
                o.put("lk", J::s("bytes"));
                o.put("v", J::Arr(b.as_byte_str().iter().map(|x| J::Int(*x as i128)).collect()));
            }
            LitKind::Byte(b) => {
                o.put("lk", J::s("int"));
                o.put("v", J::Int(b as i128));
            }
            LitKind::Char(c) => {
                o.put("lk", J::s("char"));
                o.put("v", J::s(c.to_string()));
            }
            LitKind::Int(v, _) => {
                o.put("lk", J::s("int"));
                let v = v.get() as i128;
                o.put("v", J::Int(if negated { -v } else { v }));
            }
            LitKind::Float(s, _) => {
                o.put("lk", J::s("float"));
                o.put("v", J::s(s.as_str()));
            }
            LitKind::Bool(b) => {
                o.put("lk", J::s("bool"));
                o.put("v", J::Bool(b));
            }
            LitKind::Err(_) => {
                o.put("lk", J::s("err"));
            }
        }
        o
    }

    fn patexpr(&self, pe: &'tcx hir::PatExpr<'tcx>) -> J {
        match pe.kind {
            hir::PatExprKind::Lit { ref lit, negated } => self.lit(lit, negated),
            hir::PatExprKind::Path(ref qp) => J::obj().set("k", J::s("path")).set("res", self.res(qp, pe.hir_id)),
        }
    }

    fn pat(&self, p: &'tcx hir::Pat<'tcx>) -> J {
        let mut o = J::obj();
        match p.kind {
            hir::PatKind::Wild => o.put("k", J::s("wild")),
            hir::PatKind::Missing => o.put("k", J::s("missing")),
            hir::PatKind::Never => o.put("k", J::s("never")),
            hir::PatKind::Binding(mode, hid, ident, sub) => {
                o.put("k", J::s("bind"));
                o.put("name", J::s(ident.name.as_str()));
                o.put("id", J::Int(hid.local_id.as_u32() as i128));
                o.put("mode", J::s(format!("{:?}", mode)));
                if let Some(s) = sub {
                    o.put("sub", self.pat(s));
                }
            }
            hir::PatKind::TupleStruct(ref qp, pats, ddpos) => {
                o.put("k", J::s("tuplestruct"));
                o.put("res", self.res(qp, p.hir_id));
                o.put("pats", J::Arr(pats.iter().map(|x| self.pat(x)).collect()));
                if ddpos.as_opt_usize().is_some() {
                    o.put("dotdot", J::Bool(true));
                }
            }
            hir::PatKind::Struct(ref qp, fields, rest) => {
                o.put("k", J::s("struct"));
                o.put("res", self.res(qp, p.hir_id));
                o.put(
                    "fields",
                    J::Arr(
                        fields
                            .iter()
                            .map(|f| J::obj().set("name", J::s(f.ident.name.as_str())).set("pat", self.pat(f.pat)))
                            .collect(),
                    ),
                );
                o.put("rest", J::Bool(rest.is_some()));
            }
            hir::PatKind::Or(pats) => {
                o.put("k", J::s("or"));
                o.put("pats", J::Arr(pats.iter().map(|x| self.pat(x)).collect()));
            }
            hir::PatKind::Tuple(pats, _) => {
                o.put("k", J::s("tuple"));
                o.put("pats", J::Arr(pats.iter().map(|x| self.pat(x)).collect()));
            }
            hir::PatKind::Box(inner) | hir::PatKind::Deref(inner) => {
                o.put("k", J::s("deref"));
                o.put("pat", self.pat(inner));
            }
            hir::PatKind::Ref(inner, _, _) => {
                o.put("k", J::s("ref"));
                o.put("pat", self.pat(inner));
            }
            hir::PatKind::Expr(pe) => {
                o.put("k", J::s("expr"));
                o.put("e", self.patexpr(pe));
            }
            hir::PatKind::Guard(inner, g) => {
                o.put("k", J::s("guard"));
                o.put("pat", self.pat(inner));
                o.put("cond", self.expr(g));
            }
            hir::PatKind::Range(lo, hi, end) => {
                o.put("k", J::s("range"));
                if let Some(l) = lo {
                    o.put("lo", self.patexpr(l));
                }
                if let Some(h) = hi {
                    o.put("hi", self.patexpr(h));
                }
                o.put("inclusive", J::Bool(matches!(end, hir::RangeEnd::Included)));
            }
            hir::PatKind::Slice(a, mid, b) => {
                o.put("k", J::s("slice"));
                o.put("before", J::Arr(a.iter().map(|x| self.pat(x)).collect()));
                if let Some(m) = mid {
                    o.put("mid", self.pat(m));
                }
                o.put("after", J::Arr(b.iter().map(|x| self.pat(x)).collect()));
            }
            hir::PatKind::Err(_) => o.put("k", J::s("err")),
        }
        o.put("ty", J::s(ty_str(self.tr.pat_ty(p))));
        o
    }

    fn block(&self, b: &'tcx hir::Block<'tcx>) -> J {
        let mut o = J::obj().set("k", J::s("block"));
        if let hir::BlockCheckMode::UnsafeBlock(src) = b.rules {
            o.put("unsafe", J::s(format!("{:?}", src)));
        }
        let mut stmts = Vec::new();
        for s in b.stmts {
            match s.kind {
                hir::StmtKind::Let(l) => {
                    let mut so = J::obj().set("k", J::s("let")).set("pat", self.pat(l.pat));
                    if let Some(i) = l.init {
                        so.put("init", self.expr(i));
                    }
                    if let Some(e) = l.els {
                        so.put("els", self.block(e));
                    }
                    so.put("sp", J::s(span_str(self.tcx, s.span)));
                    so.put("pv", prov(s.span));
                    stmts.push(so);
                }
                hir::StmtKind::Item(_) => {}
                hir::StmtKind::Expr(e) => stmts.push(J::obj().set("k", J::s("expr")).set("e", self.expr(e))),
                hir::StmtKind::Semi(e) => stmts.push(J::obj().set("k", J::s("semi")).set("e", self.expr(e))),
            }
        }
        o.put("stmts", J::Arr(stmts));
        if let Some(e) = b.expr {
            o.put("expr", self.expr(e));
        }
        o.put("sp", J::s(span_str(self.tcx, b.span)));
        o
    }

    fn callee_info(&self, o: &mut J, did: DefId, args: ty::GenericArgsRef<'tcx>) {
        let tcx = self.tcx;
        o.put("callee", J::s(path_str(tcx, did)));
        o.put("callee_krate", J::s(tcx.crate_name(did.krate).to_string()));
        let targs: Vec<J> = args
            .iter()
            .filter_map(|g| match g.kind() {
                ty::GenericArgKind::Type(t) => Some(J::s(ty_str(t))),
                ty::GenericArgKind::Const(c) => Some(J::s(format!("{}", c))),
                ty::GenericArgKind::Lifetime(_) => None,
            })
            .collect();
        o.put("targs", J::Arr(targs));
        if matches!(tcx.def_kind(did), DefKind::Fn | DefKind::AssocFn) {
            if tcx.fn_sig(did).skip_binder().safety().is_unsafe() {
                o.put("unsafe_fn", J::Bool(true));
            }
            // static resolution of trait methods where possible
            let env = ty::TypingEnv::post_analysis(tcx, self.owner.to_def_id());
            if args.len() != tcx.generics_of(did).count() {
                o.put("args_mismatch", J::Bool(true));
                return;
            }
            let args = tcx.erase_and_anonymize_regions(args);
            if let Ok(norm) = tcx.try_normalize_erasing_regions(env, ty::Unnormalized::new_wip(args)) {
                if let Ok(Some(inst)) = ty::Instance::try_resolve(tcx, env, did, norm) {
                    let rd = inst.def_id();
                    if rd != did {
                        o.put("resolved", J::s(path_str(tcx, rd)));
                        o.put("resolved_krate", J::s(tcx.crate_name(rd.krate).to_string()));
                    }
                    if let ty::InstanceKind::Virtual(..) = inst.def {
                        o.put("virtual", J::Bool(true));
                    }
                }
            }
        }
    }

    fn expr(&self, e: &'tcx hir::Expr<'tcx>) -> J {
        let tcx = self.tcx;
        let mut o = J::obj();
        match e.kind {
            hir::ExprKind::DropTemps(inner) | hir::ExprKind::Use(inner, _) => return self.expr(inner),
            hir::ExprKind::Type(inner, _) => return self.expr(inner),
            hir::ExprKind::ConstBlock(ref cb) => {
                o.put("k", J::s("constblock"));
                let body = tcx.hir_body(cb.body);
                o.put("body", self.expr(body.value));
            }
            hir::ExprKind::Array(es) => {
                o.put("k", J::s("array"));
                o.put("elems", J::Arr(es.iter().map(|x| self.expr(x)).collect()));
            }
            hir::ExprKind::Tup(es) => {
                o.put("k", J::s("tup"));
                o.put("elems", J::Arr(es.iter().map(|x| self.expr(x)).collect()));
            }
            hir::ExprKind::Repeat(v, _) => {
                o.put("k", J::s("repeat"));
                o.put("e", self.expr(v));
            }
            hir::ExprKind::Call(f, args) => {
                o.put("k", J::s("call"));
                if let hir::ExprKind::Path(ref qp) = f.kind {
                    let r = self.tr.qpath_res(qp, f.hir_id);
                    match r {
                        Res::Def(DefKind::Fn | DefKind::AssocFn, did) => {
                            self.callee_info(&mut o, did, self.tr.node_args(f.hir_id));
                        }
                        Res::Def(DefKind::Ctor(..), did) => {
                            o.put("ctor", J::s(path_str(tcx, tcx.parent(did))));
                        }
                        Res::SelfCtor(did) => {
                            o.put("ctor", J::s(format!("Self:{}", path_str(tcx, did))));
                        }
                        _ => {}
                    }
                }
                o.put("f", self.expr(f));
                o.put("args", J::Arr(args.iter().map(|x| self.expr(x)).collect()));
            }
            hir::ExprKind::MethodCall(seg, recv, args, _) => {
                o.put("k", J::s("mcall"));
                o.put("method", J::s(seg.ident.name.as_str()));
                if let Some(did) = self.tr.type_dependent_def_id(e.hir_id) {
                    self.callee_info(&mut o, did, self.tr.node_args(e.hir_id));
                }
                o.put("recv", self.expr(recv));
                o.put("recv_ty", J::s(ty_str(self.tr.expr_ty_adjusted(recv))));
                o.put("args", J::Arr(args.iter().map(|x| self.expr(x)).collect()));
            }
            hir::ExprKind::Binary(op, l, r) => {
                o.put("k", J::s("binary"));
                o.put("op", J::s(op.node.as_str()));
                if let Some(did) = self.tr.type_dependent_def_id(e.hir_id) {
                    // overloaded operator
                    o.put("callee", J::s(path_str(tcx, did)));
                }
                o.put("l", self.expr(l));
                o.put("r", self.expr(r));
            }
            hir::ExprKind::Unary(op, inner) => {
                o.put("k", J::s("unary"));
                o.put(
                    "op",
                    J::s(match op {
                        hir::UnOp::Deref => "deref",
                        hir::UnOp::Not => "not",
                        hir::UnOp::Neg => "neg",
                    }),
                );
                if let Some(did) = self.tr.type_dependent_def_id(e.hir_id) {
                    o.put("callee", J::s(path_str(tcx, did)));
                }
                o.put("e", self.expr(inner));
            }
            hir::ExprKind::Lit(ref l) => {
                o = self.lit(l, false);
            }
            hir::ExprKind::Cast(inner, _) => {
                o.put("k", J::s("cast"));
                o.put("e", self.expr(inner));
                o.put("from", J::s(ty_str(self.tr.expr_ty(inner))));
            }
            hir::ExprKind::Let(l) => {
                o.put("k", J::s("letexpr"));
                o.put("pat", self.pat(l.pat));
                o.put("init", self.expr(l.init));
            }
            hir::ExprKind::If(c, t, el) => {
                o.put("k", J::s("if"));
                o.put("cond", self.expr(c));
                o.put("then", self.expr(t));
                if let Some(x) = el {
                    o.put("else", self.expr(x));
                }
            }
            hir::ExprKind::Loop(b, _, src, _) => {
                o.put("k", J::s("loop"));
                o.put("hid", J::Int(e.hir_id.local_id.as_u32() as i128));
                o.put(
                    "src",
                    J::s(match src {
                        hir::LoopSource::Loop => "loop",
                        hir::LoopSource::While => "while",
                        hir::LoopSource::ForLoop => "for",
                    }),
                );
                o.put("body", self.block(b));
            }
            hir::ExprKind::Match(scrut, arms, src) => {
                if let hir::MatchSource::TryDesugar(_) = src {
                    // `e?`  ==  match Try::branch(e) { Continue(v) => v, Break(r) => return FromResidual::from_residual(r) }
                    o.put("k", J::s("try"));
                    let inner = match scrut.kind {
                        hir::ExprKind::Call(_, a) if a.len() == 1 => &a[0],
                        _ => scrut,
                    };
                    o.put("e", self.expr(inner));
                } else {
                    o.put("k", J::s("match"));
                    o.put(
                        "src",
                        J::s(match src {
                            hir::MatchSource::Normal => "normal",
                            hir::MatchSource::Postfix => "postfix",
                            hir::MatchSource::ForLoopDesugar => "for",
                            hir::MatchSource::AwaitDesugar => "await",
                            hir::MatchSource::FormatArgs => "format_args",
                            hir::MatchSource::TryDesugar(_) => "try",
                        }),
                    );
                    o.put("scrut", self.expr(scrut));
                    o.put("scrut_ty", J::s(ty_str(self.tr.expr_ty(scrut))));
                    let mut av = Vec::new();
                    for arm in arms {
                        let mut ao = J::obj().set("pat", self.pat(arm.pat));
                        if let Some(g) = arm.guard {
                            ao.put("guard", self.expr(g));
                        }
                        ao.put("body", self.expr(arm.body));
                        ao.put("sp", J::s(span_str(tcx, arm.span)));
                        av.push(ao);
                    }
                    o.put("arms", J::Arr(av));
                }
            }
            hir::ExprKind::Closure(c) => {
                o.put("k", J::s("closure"));
                let body = tcx.hir_body(c.body);
                o.put("params", J::Arr(body.params.iter().map(|p| self.pat(p.pat)).collect()));
                o.put("body", self.expr(body.value));
            }
            hir::ExprKind::Block(b, label) => {
                o = self.block(b);
                if label.is_some() {
                    o.put("hid", J::Int(e.hir_id.local_id.as_u32() as i128));
                }
            }
            hir::ExprKind::Assign(l, r, _) => {
                o.put("k", J::s("assign"));
                o.put("l", self.expr(l));
                o.put("r", self.expr(r));
            }
            hir::ExprKind::AssignOp(op, l, r) => {
                o.put("k", J::s("assignop"));
                o.put("op", J::s(op.node.as_str()));
                o.put("l", self.expr(l));
                o.put("r", self.expr(r));
            }
            hir::ExprKind::Field(base, ident) => {
                o.put("k", J::s("field"));
                o.put("name", J::s(ident.name.as_str()));
                o.put("base", self.expr(base));
                o.put("base_ty", J::s(ty_str(self.tr.expr_ty_adjusted(base))));
            }
            hir::ExprKind::Index(base, idx, _) => {
                o.put("k", J::s("index"));
                if let Some(did) = self.tr.type_dependent_def_id(e.hir_id) {
                    o.put("callee", J::s(path_str(tcx, did)));
                }
                o.put("base", self.expr(base));
                o.put("base_ty", J::s(ty_str(self.tr.expr_ty_adjusted(base))));
                o.put("idx", self.expr(idx));
                o.put("idx_ty", J::s(ty_str(self.tr.expr_ty(idx))));
            }
            hir::ExprKind::Path(ref qp) => {
                o.put("k", J::s("path"));
                o.put("res", self.res(qp, e.hir_id));
            }
            hir::ExprKind::AddrOf(kind, m, inner) => {
                o.put("k", J::s("addrof"));
                o.put("mut", J::Bool(m.is_mut()));
                if matches!(kind, hir::BorrowKind::Raw) {
                    o.put("raw", J::Bool(true));
                }
                o.put("e", self.expr(inner));
            }
            hir::ExprKind::Break(dest, v) => {
                o.put("k", J::s("break"));
                if let Ok(t) = dest.target_id {
                    o.put("target", J::Int(t.local_id.as_u32() as i128));
                }
                if let Some(x) = v {
                    o.put("e", self.expr(x));
                }
            }
            hir::ExprKind::Continue(dest) => {
                o.put("k", J::s("continue"));
                if let Ok(t) = dest.target_id {
                    o.put("target", J::Int(t.local_id.as_u32() as i128));
                }
            }
            hir::ExprKind::Ret(v) => {
                o.put("k", J::s("ret"));
                if let Some(x) = v {
                    o.put("e", self.expr(x));
                }
            }
            hir::ExprKind::Become(x) => {
                o.put("k", J::s("become"));
                o.put("e", self.expr(x));
            }
            hir::ExprKind::Struct(qp, fields, tail) => {
                o.put("k", J::s("struct"));
                o.put("res", self.res(qp, e.hir_id));
                o.put(
                    "fields",
                    J::Arr(
                        fields
                            .iter()
                            .map(|f| J::obj().set("name", J::s(f.ident.name.as_str())).set("e", self.expr(f.expr)))
                            .collect(),
                    ),
                );
                match tail {
                    hir::StructTailExpr::Base(b) => o.put("base", self.expr(b)),
                    hir::StructTailExpr::DefaultFields(_) => o.put("default_fields", J::Bool(true)),
                    _ => {}
                }
            }
            hir::ExprKind::InlineAsm(_) => o.put("k", J::s("asm")),
            hir::ExprKind::OffsetOf(..) => o.put("k", J::s("offsetof")),
            hir::ExprKind::Yield(x, _) => {
                o.put("k", J::s("yield"));
                o.put("e", self.expr(x));
            }
            hir::ExprKind::UnsafeBinderCast(_, x, _) => {
                o.put("k", J::s("unsafe_binder_cast"));
                o.put("e", self.expr(x));
            }
            hir::ExprKind::Err(_) => o.put("k", J::s("err")),
        }
        o.put("ty", J::s(ty_str(self.tr.expr_ty(e))));
        let adj = self.tr.expr_adjustments(e);
        if !adj.is_empty() {
            o.put("ty_adj", J::s(ty_str(self.tr.expr_ty_adjusted(e))));
            // overloaded deref adjustments are calls to user code
            let mut derefs = Vec::new();
            for a in adj {
                if let ty::adjustment::Adjust::Deref(ty::adjustment::DerefAdjustKind::Overloaded(_)) = a.kind {
                    derefs.push(J::s(ty_str(a.target)));
                }
            }
            if !derefs.is_empty() {
                o.put("overloaded_deref", J::Arr(derefs));
            }
        }
        o.put("sp", J::s(span_str(tcx, e.span)));
        o.put("pv", prov(e.span));
        o
    }
}

fn vis_str(tcx: TyCtxt<'_>, v: ty::Visibility<DefId>) -> String {
    match v {
        ty::Visibility::Public => "pub".into(),
        ty::Visibility::Restricted(d) => {
            if d.is_crate_root() {
                "crate".into()
            } else {
                format!("in:{}", path_str(tcx, d))
            }
        }
    }
}

fn adt_json<'tcx>(tcx: TyCtxt<'tcx>, did: DefId, work: &mut Vec<DefId>) -> J {
    let adt = tcx.adt_def(did);
    let mut o = J::obj()
        .set("path", J::s(path_str(tcx, did)))
        .set("krate", J::s(tcx.crate_name(did.krate).to_string()))
        .set("local", J::Bool(did.is_local()))
        .set(
            "kind",
            J::s(if adt.is_enum() {
                "enum"
            } else if adt.is_union() {
                "union"
            } else {
                "struct"
            }),
        );
    let repr = adt.repr();
    let mut r = J::obj().set("transparent", J::Bool(repr.transparent())).set("c", J::Bool(repr.c()));
    if let Some(i) = repr.int {
        r.put("int", J::s(format!("{:?}", i)));
    }
    o.put("repr", r);
    o.put("non_exhaustive", J::Bool(adt.is_variant_list_non_exhaustive() || (adt.is_struct() && adt.non_enum_variant().is_field_list_non_exhaustive())));
    o.put("sp", J::s(span_str(tcx, tcx.def_span(did))));
    o.put("pv", prov(tcx.def_span(did)));
    let g = tcx.generics_of(did);
    o.put(
        "generics",
        J::Arr(
            g.own_params
                .iter()
                .map(|p| {
                    J::obj().set("name", J::s(p.name.as_str())).set(
                        "kind",
                        J::s(match p.kind {
                            ty::GenericParamDefKind::Lifetime => "lifetime",
                            ty::GenericParamDefKind::Type { .. } => "type",
                            ty::GenericParamDefKind::Const { .. } => "const",
                        }),
                    )
                })
                .collect(),
        ),
    );
    let discrs: BTreeMap<u32, i128> = if adt.is_enum() {
        adt.discriminants(tcx)
            .map(|(idx, d)| {
                let signed = d.ty.is_signed();
                let v = if signed {
                    let size = rustc_abi::Integer::from_attr(&tcx, adt.repr().discr_type()).size();
                    size.sign_extend(d.val) as i128
                } else {
                    d.val as i128
                };
                (idx.as_u32(), v)
            })
            .collect()
    } else {
        BTreeMap::new()
    };
    let mut vs = Vec::new();
    for (idx, v) in adt.variants().iter_enumerated() {
        let mut vo = J::obj().set("name", J::s(v.name.as_str()));
        if let Some(d) = discrs.get(&idx.as_u32()) {
            vo.put("discr", J::Int(*d));
        }
        vo.put(
            "explicit_discr",
            J::Bool(matches!(v.discr, ty::VariantDiscr::Explicit(_))),
        );
        vo.put(
            "ctor",
            J::s(match v.ctor_kind() {
                Some(CtorKind::Fn) => "fn",
                Some(CtorKind::Const) => "const",
                None => "struct",
            }),
        );
        let mut fs = Vec::new();
        for f in v.fields.iter() {
            let fty = tcx.type_of(f.did).instantiate_identity().skip_norm_wip();
            // evaluate constants hidden behind type aliases (`Vec<_, MAX_CREDENTIAL_COUNT_IN_LIST>`)
            let env = ty::TypingEnv::post_analysis(tcx, did);
            let fty = match tcx.try_normalize_erasing_regions(env, ty::Unnormalized::new_wip(fty)) {
                Ok(t) => t,
                Err(_) => fty,
            };
            collect_adts(tcx, fty, work);
            fs.push(
                J::obj()
                    .set("name", J::s(f.name.as_str()))
                    .set("vis", J::s(vis_str(tcx, f.vis)))
                    .set("ty", ty_json(tcx, fty)),
            );
        }
        vo.put("fields", J::Arr(fs));
        vs.push(vo);
    }
    o.put("variants", J::Arr(vs));
    o
}

fn collect_adts<'tcx>(_tcx: TyCtxt<'tcx>, t: Ty<'tcx>, work: &mut Vec<DefId>) {
    for g in t.walk() {
        if let ty::GenericArgKind::Type(t2) = g.kind() {
            if let ty::Adt(def, _) = *t2.kind() {
                work.push(def.did());
            }
        }
    }
}

const FOREIGN_ADT_CRATES: &[&str] =
    &["cosey", "serde_bytes", "heapless", "heapless_bytes", "iso7816", "cbor_smol", "arbitrary", "hash32"];

fn const_json<'tcx>(tcx: TyCtxt<'tcx>, did: DefId) -> Option<J> {
    let generics = tcx.generics_of(did);
    if generics.requires_monomorphization(tcx) {
        return None;
    }
    let ty = tcx.type_of(did).instantiate_identity().skip_norm_wip();
    let ty = match tcx.try_normalize_erasing_regions(ty::TypingEnv::post_analysis(tcx, did), ty::Unnormalized::new_wip(ty)) {
        Ok(t) => t,
        Err(_) => ty,
    };
    let mut o = J::obj()
        .set("path", J::s(path_str(tcx, did)))
        .set("ty", J::s(ty_str(ty)))
        .set("vis", J::s(vis_str(tcx, tcx.visibility(did))))
        .set("sp", J::s(span_str(tcx, tcx.def_span(did))))
        .set("pv", prov(tcx.def_span(did)));
    match tcx.const_eval_poly(did) {
        Ok(val) => {
            let c = rustc_middle::mir::Const::Val(val, ty);
            o.put("val", J::s(with_no_visible_paths!(with_no_trimmed_paths!(format!("{}", c)))));
        }
        Err(_) => {
            o.put("val_err", J::Bool(true));
        }
    }
    Some(o)
}

fn impl_info<'tcx>(tcx: TyCtxt<'tcx>, did: DefId) -> Option<J> {
    // for an associated item: the impl (or trait) it belongs to
    let parent = tcx.opt_parent(did)?;
    match tcx.def_kind(parent) {
        DefKind::Impl { of_trait } => {
            let self_ty = tcx.type_of(parent).instantiate_identity().skip_norm_wip();
            let mut o = J::obj().set("self_ty", ty_json(tcx, self_ty));
            if of_trait {
                let tr = tcx.impl_trait_ref(parent).instantiate_identity().skip_norm_wip();
                o.put("trait", J::s(path_str(tcx, tr.def_id)));
                o.put("trait_ref", J::s(with_no_visible_paths!(with_no_trimmed_paths!(format!("{}", tr)))));
            }
            o.put("impl_sp", J::s(span_str(tcx, tcx.def_span(parent))));
            o.put("impl_pv", prov(tcx.def_span(parent)));
            Some(o)
        }
        DefKind::Trait => Some(J::obj().set("in_trait", J::s(path_str(tcx, parent)))),
        _ => None,
    }
}

fn enclosing_body_owner(tcx: TyCtxt<'_>, did: LocalDefId) -> Option<LocalDefId> {
    let mut cur = did.to_def_id();
    loop {
        cur = tcx.opt_parent(cur)?;
        match tcx.def_kind(cur) {
            DefKind::Fn | DefKind::AssocFn | DefKind::Closure | DefKind::Const { .. } | DefKind::AssocConst { .. } | DefKind::Static { .. } => {
                return cur.as_local();
            }
            _ => {}
        }
    }
}

struct Cb;

impl Callbacks for Cb {
    fn after_analysis<'tcx>(&mut self, _c: &rustc_interface::interface::Compiler, tcx: TyCtxt<'tcx>) -> Compilation {
        if tcx.crate_name(LOCAL_CRATE).as_str() != "ctap_types" {
            return Compilation::Continue;
        }
        // only the library target (not test harness / build script)
        if tcx.sess.opts.test {
            return Compilation::Continue;
        }
        let out_path = match std::env::var("CTAPFACTS_OUT") {
            Ok(p) => p,
            Err(_) => return Compilation::Continue,
        };
        let nonce = std::env::var("CTAPFACTS_NONCE").unwrap_or_default();
        let mut root = J::obj()
            .set("format", J::Int(1))
            .set("nonce", J::s(nonce))
            .set("crate", J::s("ctap_types"))
            .set("rustc", J::s(option_env!("CFG_VERSION").unwrap_or("nightly").to_string()));
        // cfg features actually seen by the compiler
        let mut feats = Vec::new();
        for (name, val) in tcx.sess.config.iter() {
            if name.as_str() == "feature" {
                if let Some(v) = val {
                    feats.push(v.as_str().to_string());
                }
            }
        }
        feats.sort();
        root.put("features", J::Arr(feats.into_iter().map(J::s).collect()));

        // ---- ADTs
        let mut work: Vec<DefId> = Vec::new();
        for ldid in tcx.hir_crate_items(()).definitions() {
            if matches!(tcx.def_kind(ldid), DefKind::Struct | DefKind::Enum | DefKind::Union) {
                work.push(ldid.to_def_id());
            }
        }
        let mut seen = BTreeSet::new();
        let mut adts = Vec::new();
        while let Some(d) = work.pop() {
            if !seen.insert((d.krate.as_u32(), d.index.as_u32())) {
                continue;
            }
            let kn = tcx.crate_name(d.krate);
            if !d.is_local() && !FOREIGN_ADT_CRATES.contains(&kn.as_str()) {
                continue;
            }
            adts.push(adt_json(tcx, d, &mut work));
        }
        root.put("adts", J::Arr(adts));

        // ---- type aliases
        let mut aliases = Vec::new();
        for ldid in tcx.hir_crate_items(()).definitions() {
            if matches!(tcx.def_kind(ldid), DefKind::TyAlias) {
                let t = tcx.type_of(ldid).instantiate_identity().skip_norm_wip();
                aliases.push(J::obj().set("path", J::s(path_str(tcx, ldid.to_def_id()))).set("ty", ty_json(tcx, t)));
            }
        }
        root.put("aliases", J::Arr(aliases));

        // ---- re-exports (`pub use inner::Item;`): the path an item is reachable under, next to the path it is defined at
        let mut reexports = Vec::new();
        for ldid in tcx.hir_crate_items(()).definitions() {
            if !matches!(tcx.def_kind(ldid), DefKind::Mod) {
                continue;
            }
            let modpath = path_str(tcx, ldid.to_def_id());
            for child in tcx.module_children_local(ldid) {
                if child.reexport_chain.is_empty() {
                    continue;
                }
                if let Some(did) = child.res.opt_def_id() {
                    if !did.is_local() {
                        continue;
                    }
                    if !matches!(tcx.def_kind(did), DefKind::Struct | DefKind::Enum | DefKind::Union | DefKind::Fn | DefKind::Const { .. } | DefKind::TyAlias | DefKind::Trait | DefKind::Static { .. }) {
                        continue;
                    }
                    let public = if modpath.is_empty() { child.ident.name.to_string() } else { format!("{}::{}", modpath, child.ident.name) };
                    reexports.push(J::obj().set("path", J::s(public)).set("target", J::s(path_str(tcx, did))).set("vis", J::s(format!("{:?}", child.vis))));
                }
            }
        }
        root.put("reexports", J::Arr(reexports));

        // ---- consts and statics
        let mut consts = Vec::new();
        let mut statics = Vec::new();
        for ldid in tcx.hir_crate_items(()).definitions() {
            let did = ldid.to_def_id();
            match tcx.def_kind(did) {
                DefKind::Const { .. } | DefKind::AssocConst { .. } => {
                    // skip trait-declared assoc consts without value
                    if let Some(parent) = tcx.opt_parent(did) {
                        if matches!(tcx.def_kind(parent), DefKind::Trait) {
                            continue;
                        }
                    }
                    if let Some(c) = const_json(tcx, did) {
                        consts.push(c);
                    }
                }
                DefKind::Static { .. } => {
                    let ty = tcx.type_of(did).instantiate_identity().skip_norm_wip();
                    statics.push(
                        J::obj()
                            .set("path", J::s(path_str(tcx, did)))
                            .set("ty", J::s(ty_str(ty)))
                            .set("sp", J::s(span_str(tcx, tcx.def_span(did))))
                            .set("pv", prov(tcx.def_span(did))),
                    );
                }
                _ => {}
            }
        }
        root.put("consts", J::Arr(consts));
        root.put("statics", J::Arr(statics));

        // ---- impls
        let mut impls = Vec::new();
        for ldid in tcx.hir_crate_items(()).definitions() {
            let did = ldid.to_def_id();
            if let DefKind::Impl { of_trait } = tcx.def_kind(did) {
                let self_ty = tcx.type_of(did).instantiate_identity().skip_norm_wip();
                let mut o = J::obj().set("self_ty", ty_json(tcx, self_ty));
                if of_trait {
                    let tr = tcx.impl_trait_ref(did).instantiate_identity().skip_norm_wip();
                    o.put("trait", J::s(path_str(tcx, tr.def_id)));
                    o.put("trait_ref", J::s(with_no_visible_paths!(with_no_trimmed_paths!(format!("{}", tr)))));
                    o.put("trait_krate", J::s(tcx.crate_name(tr.def_id.krate).to_string()));
                    if tcx.trait_def(tr.def_id).safety.is_unsafe() {
                        o.put("unsafe_trait", J::Bool(true));
                    }
                }
                o.put(
                    "items",
                    J::Arr(
                        tcx.associated_items(did)
                            .in_definition_order()
                            .map(|it| J::s(it.name().as_str()))
                            .collect(),
                    ),
                );
                o.put("sp", J::s(span_str(tcx, tcx.def_span(did))));
                o.put("pv", prov(tcx.def_span(did)));
                impls.push(o);
            }
        }
        root.put("impls", J::Arr(impls));

        // ---- function bodies (typed HIR)
        let mut fns = Vec::new();
        for ldid in tcx.hir_body_owners() {
            let did = ldid.to_def_id();
            let kind = tcx.def_kind(did);
            if matches!(kind, DefKind::Closure | DefKind::InlineConst | DefKind::AnonConst) {
                continue; // emitted inline in their parent
            }
            let mut o = J::obj()
                .set("id", J::Int(ldid.local_def_index.as_u32() as i128))
                .set("path", J::s(path_str(tcx, did)))
                .set("name", J::s(tcx.item_name(did).as_str()))
                .set("kind", J::s(format!("{:?}", kind)))
                .set("sp", J::s(span_str(tcx, tcx.def_span(did))))
                .set("pv", prov(tcx.def_span(did)));
            if let Some(p) = enclosing_body_owner(tcx, ldid) {
                o.put("parent_fn", J::Int(p.local_def_index.as_u32() as i128));
            }
            if let Some(i) = impl_info(tcx, did) {
                o.put("impl", i);
            }
            if matches!(kind, DefKind::Fn | DefKind::AssocFn) {
                o.put("vis", J::s(vis_str(tcx, tcx.visibility(did))));
                let sig = tcx.fn_sig(did).instantiate_identity().skip_norm_wip().skip_binder();
                o.put("inputs", J::Arr(sig.inputs().iter().map(|t| J::s(ty_str(*t))).collect()));
                o.put("output", J::s(ty_str(sig.output())));
                o.put("unsafe_fn", J::Bool(sig.safety().is_unsafe()));
                let g = tcx.generics_of(did);
                let mut gp = Vec::new();
                let mut chain = Vec::new();
                let mut gcur = Some(g);
                while let Some(gg) = gcur {
                    chain.push(gg);
                    gcur = gg.parent.map(|p| tcx.generics_of(p));
                }
                chain.reverse();
                for gg in chain {
                    for p in gg.own_params.iter() {
                        let k = match p.kind {
                            ty::GenericParamDefKind::Lifetime => "lifetime",
                            ty::GenericParamDefKind::Type { .. } => "type",
                            ty::GenericParamDefKind::Const { .. } => "const",
                        };
                        gp.push(J::obj().set("name", J::s(p.name.as_str())).set("kind", J::s(k)));
                    }
                }
                o.put("generics", J::Arr(gp));
            }
            let body = tcx.hir_body_owned_by(ldid);
            let tr = tcx.typeck(ldid);
            let cv = Conv { tcx, tr, owner: ldid };
            o.put("params", J::Arr(body.params.iter().map(|p| cv.pat(p.pat)).collect()));
            o.put("body", cv.expr(body.value));
            fns.push(o);
        }
        root.put("fns", J::Arr(fns));

        // trait-declared methods without a body (signatures only)
        let mut decls = Vec::new();
        for ldid in tcx.hir_crate_items(()).definitions() {
            let did = ldid.to_def_id();
            if matches!(tcx.def_kind(did), DefKind::AssocFn) {
                if let Some(parent) = tcx.opt_parent(did) {
                    if matches!(tcx.def_kind(parent), DefKind::Trait) {
                        let sig = tcx.fn_sig(did).instantiate_identity().skip_norm_wip().skip_binder();
                        decls.push(
                            J::obj()
                                .set("path", J::s(path_str(tcx, did)))
                                .set("trait", J::s(path_str(tcx, parent)))
                                .set("name", J::s(tcx.item_name(did).as_str()))
                                .set("has_default", J::Bool(tcx.defaultness(did).has_value()))
                                .set("inputs", J::Arr(sig.inputs().iter().map(|t| J::s(ty_str(*t))).collect()))
                                .set("output", J::s(ty_str(sig.output()))),
                        );
                    }
                }
            }
        }
        root.put("trait_methods", J::Arr(decls));

        // ---- monomorphic call graph
        let roots = std::env::var("CTAPFACTS_ROOTS").unwrap_or_default();
        root.put("mono", mono::mono_graphs(tcx, &roots));

        let mut s = String::new();
        root.write(&mut s);
        let tmp = format!("{}.tmp.{}", out_path, std::process::id());
        std::fs::write(&tmp, s).expect("write facts");
        std::fs::rename(&tmp, &out_path).expect("rename facts");
        Compilation::Continue
    }
}

fn main() {
    let mut args: Vec<String> = std::env::args().collect();
    // RUSTC_WORKSPACE_WRAPPER passes the real rustc path as argv[1]
    if args.len() > 1 && (args[1].ends_with("rustc") || args[1].contains("/rustc")) {
        args.remove(1);
    }
    rustc_driver::run_compiler(&args, &mut Cb);
}
