//! Monomorphic call graph from a set of roots; MIR events of local instances.
use crate::json::J;
use crate::{path_str, span_str, ty_str};
use rustc_hir::def::DefKind;
use rustc_hir::def_id::DefId;
use rustc_middle::mir::{self, Operand, Rvalue, StatementKind, TerminatorKind};
use rustc_middle::ty::adjustment::PointerCoercion;
use rustc_middle::ty::print::{with_no_trimmed_paths, with_no_visible_paths};
use rustc_middle::ty::{self, EarlyBinder, Instance, InstanceKind, Ty, TyCtxt, TypingEnv};
use std::collections::HashMap;

struct Walker<'tcx> {
    tcx: TyCtxt<'tcx>,
    index: HashMap<Instance<'tcx>, usize>,
    insts: Vec<Instance<'tcx>>,
    edges: Vec<Vec<(usize, &'static str)>>,
    events: Vec<Vec<J>>,
    notes: Vec<Vec<String>>,
    /// per instance: callee def paths of direct calls into the panic machinery / unwrap family, and number of Assert terminators
    panics: Vec<Vec<String>>,
    asserts: Vec<usize>,
    work: Vec<usize>,
}

impl<'tcx> Walker<'tcx> {
    fn intern(&mut self, i: Instance<'tcx>) -> usize {
        if let Some(&k) = self.index.get(&i) {
            return k;
        }
        let k = self.insts.len();
        self.index.insert(i, k);
        self.insts.push(i);
        self.edges.push(Vec::new());
        self.events.push(Vec::new());
        self.notes.push(Vec::new());
        self.panics.push(Vec::new());
        self.asserts.push(0);
        self.work.push(k);
        k
    }

    fn mono<T: ty::TypeFoldable<TyCtxt<'tcx>>>(&self, inst: Instance<'tcx>, v: T) -> T {
        inst.instantiate_mir_and_normalize_erasing_regions(self.tcx, TypingEnv::fully_monomorphized(), EarlyBinder::bind(v))
    }

    fn has_body(&self, inst: Instance<'tcx>) -> bool {
        let tcx = self.tcx;
        match inst.def {
            InstanceKind::Item(did) => {
                if tcx.is_foreign_item(did) {
                    return false;
                }
                if !matches!(tcx.def_kind(did), DefKind::Fn | DefKind::AssocFn | DefKind::Closure | DefKind::Ctor(..) | DefKind::SyntheticCoroutineBody) {
                    return false;
                }
                tcx.is_mir_available(did)
            }
            InstanceKind::Intrinsic(_) | InstanceKind::Virtual(..) => false,
            _ => true,
        }
    }

    fn fn_use(&mut self, from: usize, caller: Instance<'tcx>, fty: Ty<'tcx>, how: &'static str) -> Option<usize> {
        let tcx = self.tcx;
        match *fty.kind() {
            ty::FnDef(def, args) => {
                match Instance::try_resolve(tcx, TypingEnv::fully_monomorphized(), def, args) {
                    Ok(Some(inst)) => {
                        let k = self.intern(inst);
                        self.edges[from].push((k, how));
                        Some(k)
                    }
                    _ => {
                        self.notes[from].push(format!("unresolved:{}", with_no_visible_paths!(with_no_trimmed_paths!(format!("{}", fty)))));
                        None
                    }
                }
            }
            ty::Closure(def, args) => {
                let inst = Instance::resolve_closure(tcx, def, args, ty::ClosureKind::FnOnce);
                let k = self.intern(inst);
                self.edges[from].push((k, how));
                Some(k)
            }
            _ => {
                let _ = caller;
                None
            }
        }
    }

    fn process(&mut self, k: usize) {
        let tcx = self.tcx;
        let inst = self.insts[k];
        if !self.has_body(inst) {
            return;
        }
        let local = inst.def_id().is_local();
        let body = tcx.instance_mir(inst.def);
        for (_bb, data) in body.basic_blocks.iter_enumerated() {
            for st in &data.statements {
                let sp = st.source_info.span;
                if let StatementKind::Assign(b) = &st.kind {
                    let (place, rv) = &**b;
                    if local {
                        self.place_events(k, body, place, sp, "store");
                        self.rvalue_place_events(k, body, rv, sp);
                    }
                    match rv {
                        Rvalue::Cast(mir::CastKind::PointerCoercion(PointerCoercion::Unsize, _), op, target) => {
                            let src = self.mono(inst, op.ty(body, tcx));
                            let tgt = self.mono(inst, *target);
                            self.unsize(k, src, tgt);
                        }
                        Rvalue::Cast(mir::CastKind::PointerCoercion(PointerCoercion::ReifyFnPointer(_), _), op, _) => {
                            let fty = self.mono(inst, op.ty(body, tcx));
                            self.fn_use(k, inst, fty, "reify");
                        }
                        Rvalue::Cast(mir::CastKind::PointerCoercion(PointerCoercion::ClosureFnPointer(_), _), op, _) => {
                            let fty = self.mono(inst, op.ty(body, tcx));
                            self.fn_use(k, inst, fty, "closure_ptr");
                        }
                        Rvalue::ThreadLocalRef(did) => {
                            if local {
                                self.events[k].push(J::obj().set("e", J::s("thread_local")).set("path", J::s(path_str(tcx, *did))).set("sp", J::s(span_str(tcx, sp))));
                            }
                        }
                        Rvalue::Cast(kind, op, target) if local => {
                            let from = self.mono(inst, op.ty(body, tcx));
                            let to = self.mono(inst, *target);
                            let interesting = matches!(kind, mir::CastKind::PtrToPtr | mir::CastKind::Transmute | mir::CastKind::PointerExposeProvenance | mir::CastKind::PointerWithExposedProvenance | mir::CastKind::FnPtrToPtr);
                            if interesting {
                                self.events[k].push(
                                    J::obj()
                                        .set("e", J::s("cast"))
                                        .set("kind", J::s(format!("{:?}", kind)))
                                        .set("from", crate::ty_json(tcx, from))
                                        .set("to", crate::ty_json(tcx, to))
                                        .set("sp", J::s(span_str(tcx, sp)))
                                        .set("pv", crate::prov(sp)),
                                );
                            }
                        }
                        _ => {}
                    }
                }
            }
            let Some(term) = &data.terminator else { continue };
            let sp = term.source_info.span;
            match &term.kind {
                TerminatorKind::Call { func, args, .. } | TerminatorKind::TailCall { func, args, .. } => {
                    let fty = self.mono(inst, func.ty(body, tcx));
                    let callee = self.fn_use(k, inst, fty, "call");
                    if let ty::FnDef(def, _) = *fty.kind() {
                        let p = path_str(tcx, def);
                        if is_panic_entry(&p) && !self.panics[k].contains(&p) {
                            self.panics[k].push(p);
                        }
                    }
                    if local {
                        let mut ev = J::obj().set("e", J::s("call")).set("sp", J::s(span_str(tcx, sp))).set("pv", crate::prov(sp));
                        match *fty.kind() {
                            ty::FnDef(def, _) => {
                                ev.put("callee", J::s(path_str(tcx, def)));
                                ev.put("callee_krate", J::s(tcx.crate_name(def.krate).to_string()));
                                if tcx.fn_sig(def).skip_binder().safety().is_unsafe() {
                                    ev.put("unsafe_fn", J::Bool(true));
                                }
                                if tcx.intrinsic(def).is_some() {
                                    ev.put("intrinsic", J::Bool(true));
                                }
                            }
                            _ => {
                                ev.put("indirect", J::s(ty_str(fty)));
                            }
                        }
                        if let Some(c) = callee {
                            ev.put("inst", J::Int(c as i128));
                            let ci = self.insts[c];
                            if let InstanceKind::Virtual(..) = ci.def {
                                ev.put("virtual", J::Bool(true));
                            }
                        }
                        let atys: Vec<J> = args.iter().map(|a| J::s(ty_str(self.mono(inst, a.node.ty(body, tcx))))).collect();
                        ev.put("arg_tys", J::Arr(atys));
                        self.events[k].push(ev);
                    } else if let ty::FnPtr(..) = fty.kind() {
                        self.notes[k].push("indirect_call".into());
                    }
                }
                TerminatorKind::Drop { place, .. } => {
                    let t = self.mono(inst, place.ty(body, tcx).ty);
                    let di = Instance::resolve_drop_in_place(tcx, t);
                    if let InstanceKind::DropGlue(_, None) = di.def {
                        // no-op drop
                    } else {
                        let c = self.intern(di);
                        self.edges[k].push((c, "drop"));
                    }
                }
                TerminatorKind::Assert { msg, expected, .. } => {
                    self.asserts[k] += 1;
                    if local {
                        let kind = match &**msg {
                            mir::AssertKind::BoundsCheck { .. } => "bounds".to_string(),
                            mir::AssertKind::Overflow(op, ..) => format!("overflow:{:?}", op),
                            mir::AssertKind::OverflowNeg(_) => "overflow:Neg".to_string(),
                            mir::AssertKind::DivisionByZero(_) => "div_zero".to_string(),
                            mir::AssertKind::RemainderByZero(_) => "rem_zero".to_string(),
                            mir::AssertKind::MisalignedPointerDereference { .. } => "misaligned".to_string(),
                            mir::AssertKind::NullPointerDereference => "null_deref".to_string(),
                            mir::AssertKind::InvalidEnumConstruction(_) => "invalid_enum".to_string(),
                            _ => "other".to_string(),
                        };
                        self.events[k].push(
                            J::obj()
                                .set("e", J::s("assert"))
                                .set("kind", J::s(kind))
                                .set("expected", J::Bool(*expected))
                                .set("sp", J::s(span_str(tcx, sp)))
                                .set("pv", crate::prov(sp)),
                        );
                    }
                }
                TerminatorKind::InlineAsm { .. } => {
                    if local {
                        self.events[k].push(J::obj().set("e", J::s("asm")).set("sp", J::s(span_str(tcx, sp))));
                    } else {
                        self.notes[k].push("asm".into());
                    }
                }
                _ => {}
            }
            // constants mentioning statics / fn items
            if local {
                // operands of the terminator
                if let TerminatorKind::Call { func, args, .. } = &term.kind {
                    self.operand_static(k, func, sp);
                    for a in args.iter() {
                        self.operand_static(k, &a.node, sp);
                    }
                }
            }
        }
        if local {
            for st in body.basic_blocks.iter().flat_map(|d| d.statements.iter()) {
                if let StatementKind::Assign(b) = &st.kind {
                    let (_, rv) = &**b;
                    let sp = st.source_info.span;
                    match rv {
                        Rvalue::Use(op, ..) | Rvalue::Cast(_, op, _) | Rvalue::UnaryOp(_, op) | Rvalue::Repeat(op, _) => self.operand_static(k, op, sp),
                        Rvalue::BinaryOp(_, ops) => {
                            self.operand_static(k, &ops.0, sp);
                            self.operand_static(k, &ops.1, sp);
                        }
                        Rvalue::Aggregate(_, ops) => {
                            for op in ops.iter() {
                                self.operand_static(k, op, sp);
                            }
                        }
                        _ => {}
                    }
                }
            }
        }
    }

    fn operand_static(&mut self, k: usize, op: &Operand<'tcx>, sp: rustc_span::Span) {
        let tcx = self.tcx;
        if let Operand::Constant(c) = op {
            if let Some(did) = c.check_static_ptr(tcx) {
                self.events[k].push(
                    J::obj()
                        .set("e", J::s("static"))
                        .set("path", J::s(path_str(tcx, did)))
                        .set("mutable", J::Bool(tcx.is_mutable_static(did)))
                        .set("sp", J::s(span_str(tcx, sp)))
                        .set("pv", crate::prov(sp)),
                );
            }
        }
    }

    fn place_events(&mut self, k: usize, body: &mir::Body<'tcx>, place: &mir::Place<'tcx>, sp: rustc_span::Span, how: &str) {
        let tcx = self.tcx;
        for (base, elem) in place.iter_projections() {
            if matches!(elem, mir::ProjectionElem::Deref) && base.ty(&body.local_decls, tcx).ty.is_raw_ptr() {
                self.events[k].push(
                    J::obj().set("e", J::s("rawderef")).set("how", J::s(how)).set("sp", J::s(span_str(tcx, sp))).set("pv", crate::prov(sp)),
                );
            }
        }
    }

    fn rvalue_place_events(&mut self, k: usize, body: &mir::Body<'tcx>, rv: &Rvalue<'tcx>, sp: rustc_span::Span) {
        match rv {
            Rvalue::Ref(_, _, p) | Rvalue::RawPtr(_, p) | Rvalue::CopyForDeref(p) | Rvalue::Discriminant(p) => self.place_events(k, body, p, sp, "ref"),
            Rvalue::Use(Operand::Copy(p) | Operand::Move(p), ..) => self.place_events(k, body, p, sp, "load"),
            Rvalue::Cast(_, Operand::Copy(p) | Operand::Move(p), _) => self.place_events(k, body, p, sp, "load"),
            _ => {}
        }
    }

    fn unsize(&mut self, k: usize, src: Ty<'tcx>, tgt: Ty<'tcx>) {
        let tcx = self.tcx;
        let (sp, tp) = match (src.kind(), tgt.kind()) {
            (&ty::Ref(_, a, _), &ty::Ref(_, b, _) | &ty::RawPtr(b, _)) | (&ty::RawPtr(a, _), &ty::RawPtr(b, _)) => (a, b),
            _ => {
                if let (Some(a), Some(b)) = (src.boxed_ty(), tgt.boxed_ty()) {
                    (a, b)
                } else {
                    self.notes[k].push(format!("unsize_adt:{}", ty_str(src)));
                    return;
                }
            }
        };
        let (s, t) = tcx.struct_lockstep_tails_for_codegen(sp, tp, TypingEnv::fully_monomorphized());
        if let ty::Dynamic(preds, ..) = t.kind() {
            if s.is_trait() {
                return;
            }
            if let Some(principal) = preds.principal() {
                let trait_ref = tcx.instantiate_bound_regions_with_erased(principal.with_self_ty(tcx, s));
                for entry in tcx.vtable_entries(trait_ref) {
                    if let ty::VtblEntry::Method(inst) = entry {
                        let c = self.intern(*inst);
                        self.edges[k].push((c, "vtable"));
                    }
                }
            }
            if s.needs_drop(tcx, TypingEnv::fully_monomorphized()) {
                let di = Instance::resolve_drop_in_place(tcx, s);
                let c = self.intern(di);
                self.edges[k].push((c, "drop"));
            }
        }
    }
}

/// direct entries into the panic machinery (used to recognise contract-panicking dependency APIs)
fn is_panic_entry(p: &str) -> bool {
    const EXACT: &[&str] = &[
        "core::option::Option::<T>::unwrap",
        "core::option::Option::<T>::expect",
        "core::option::Option::<T>::unwrap_unchecked",
        "core::result::Result::<T, E>::unwrap",
        "core::result::Result::<T, E>::expect",
        "core::result::Result::<T, E>::unwrap_err",
        "core::result::Result::<T, E>::expect_err",
        "core::result::Result::<T, E>::unwrap_unchecked",
        "core::hint::unreachable_unchecked",
        "core::str::slice_error_fail",
    ];
    p.starts_with("core::panicking::") || p.starts_with("std::panicking::") || p.starts_with("core::slice::index::slice_") || EXACT.contains(&p)
}

fn usize_const<'tcx>(tcx: TyCtxt<'tcx>, v: u64) -> ty::GenericArg<'tcx> {
    ty::Const::from_target_usize(tcx, v).into()
}

/// roots spec: entries separated by ';'.  Each entry: `<def path>` optionally followed by
/// `@usize:<n>[,<n>..]` (const generic arguments, in order) or `@alias:<type alias path>`
/// (generic arguments taken from the ADT the alias resolves to).  The special entry
/// `*nongeneric` seeds every local fn without type/const parameters.
/// (definition path, re-exported path) of the crate's items that are reachable under another path through `pub use`
fn reexport_pairs<'tcx>(tcx: TyCtxt<'tcx>) -> Vec<(String, String)> {
    let mut out = Vec::new();
    for ldid in tcx.hir_crate_items(()).definitions() {
        if !matches!(tcx.def_kind(ldid), DefKind::Mod) {
            continue;
        }
        let modpath = path_str(tcx, ldid.to_def_id());
        for child in tcx.module_children_local(ldid) {
            if child.reexport_chain.is_empty() {
                continue;
            }
            if let Some(did) = child.res.opt_def_id() {
                if !did.is_local() || !matches!(tcx.def_kind(did), DefKind::Struct | DefKind::Enum | DefKind::Union | DefKind::Trait) {
                    continue;
                }
                let public = if modpath.is_empty() { child.ident.name.to_string() } else { format!("{}::{}", modpath, child.ident.name) };
                let target = path_str(tcx, did);
                if public != target {
                    out.push((target, public));
                }
            }
        }
    }
    out
}

pub fn mono_graphs<'tcx>(tcx: TyCtxt<'tcx>, spec: &str) -> J {
    let mut w = Walker { tcx, index: HashMap::new(), insts: Vec::new(), edges: Vec::new(), events: Vec::new(), notes: Vec::new(), panics: Vec::new(), asserts: Vec::new(), work: Vec::new() };
    let mut roots_out = Vec::new();
    let mut by_path: HashMap<String, DefId> = HashMap::new();
    let mut nongeneric: Vec<DefId> = Vec::new();
    for ldid in tcx.hir_body_owners() {
        let did = ldid.to_def_id();
        if !matches!(tcx.def_kind(did), DefKind::Fn | DefKind::AssocFn) {
            continue;
        }
        by_path.insert(path_str(tcx, did), did);
        if !tcx.generics_of(did).requires_monomorphization(tcx) {
            nongeneric.push(did);
        }
    }
    let mut aliases: HashMap<String, DefId> = HashMap::new();
    for ldid in tcx.hir_crate_items(()).definitions() {
        if matches!(tcx.def_kind(ldid), DefKind::TyAlias) {
            aliases.insert(path_str(tcx, ldid.to_def_id()), ldid.to_def_id());
        }
    }
    for entry in spec.split(';').map(|s| s.trim()).filter(|s| !s.is_empty()) {
        if entry == "*nongeneric" {
            for did in &nongeneric {
                let inst = Instance::mono(tcx, *did);
                let k = w.intern(inst);
                roots_out.push(J::obj().set("spec", J::s(path_str(tcx, *did))).set("inst", J::Int(k as i128)).set("auto", J::Bool(true)));
            }
            continue;
        }
        let (path, inst_spec) = match entry.split_once('@') {
            Some((p, s)) => (p, Some(s)),
            None => (entry, None),
        };
        // an item that moved into another module and is re-exported under the requested path is still that root
        let found = by_path.get(path).copied().or_else(|| {
            let rex = reexport_pairs(tcx);
            by_path.iter().find(|(k, _)| rex.iter().any(|(tgt, public)| k.starts_with(tgt.as_str()) && k[tgt.len()..].starts_with("::") && format!("{}{}", public, &k[tgt.len()..]) == path)).map(|(_, d)| *d)
        });
        let Some(did) = found else {
            roots_out.push(J::obj().set("spec", J::s(entry)).set("error", J::s("root not found")));
            continue;
        };
        let inst = match inst_spec {
            None => {
                if tcx.generics_of(did).requires_monomorphization(tcx) {
                    roots_out.push(J::obj().set("spec", J::s(entry)).set("error", J::s("root is generic")));
                    continue;
                }
                Instance::mono(tcx, did)
            }
            Some(s) if s.starts_with("usize:") => {
                let vals: Vec<u64> = s[6..].split(',').filter_map(|x| x.parse().ok()).collect();
                let mut it = vals.into_iter();
                let args = ty::GenericArgs::for_item(tcx, did, |p, _| match p.kind {
                    ty::GenericParamDefKind::Lifetime => tcx.lifetimes.re_erased.into(),
                    ty::GenericParamDefKind::Const { .. } => usize_const(tcx, it.next().unwrap_or(0)),
                    ty::GenericParamDefKind::Type { .. } => tcx.types.unit.into(),
                });
                Instance::new_raw(did, args)
            }
            Some(s) if s.starts_with("alias:") => {
                let Some(&adid) = aliases.get(&s[6..]) else {
                    roots_out.push(J::obj().set("spec", J::s(entry)).set("error", J::s("alias not found")));
                    continue;
                };
                let aty = tcx.type_of(adid).instantiate_identity().skip_norm_wip();
                let aty = tcx.erase_and_anonymize_regions(aty);
                let ty::Adt(_, aargs) = *aty.kind() else {
                    roots_out.push(J::obj().set("spec", J::s(entry)).set("error", J::s("alias is not an ADT")));
                    continue;
                };
                // the method's parent impl generics are the ADT's generics, in order
                let args = ty::GenericArgs::for_item(tcx, did, |p, _| {
                    let idx = p.index as usize;
                    if idx < aargs.len() {
                        aargs[idx]
                    } else {
                        match p.kind {
                            ty::GenericParamDefKind::Lifetime => tcx.lifetimes.re_erased.into(),
                            ty::GenericParamDefKind::Const { .. } => usize_const(tcx, 0),
                            ty::GenericParamDefKind::Type { .. } => tcx.types.unit.into(),
                        }
                    }
                });
                Instance::new_raw(did, args)
            }
            Some(_) => {
                roots_out.push(J::obj().set("spec", J::s(entry)).set("error", J::s("bad instantiation spec")));
                continue;
            }
        };
        let k = w.intern(inst);
        roots_out.push(J::obj().set("spec", J::s(entry)).set("inst", J::Int(k as i128)));
    }
    while let Some(k) = w.work.pop() {
        w.process(k);
    }
    let mut insts = Vec::new();
    for (k, inst) in w.insts.iter().enumerate() {
        let did = inst.def_id();
        let mut o = J::obj()
            .set("i", J::Int(k as i128))
            .set("name", J::s(with_no_visible_paths!(with_no_trimmed_paths!(format!("{}", inst)))))
            .set("def", J::s(path_str(tcx, did)))
            .set("krate", J::s(tcx.crate_name(did.krate).to_string()))
            .set("local", J::Bool(did.is_local()))
            .set("has_body", J::Bool(w.has_body(*inst)));
        let kind = match inst.def {
            InstanceKind::Item(_) => "item",
            InstanceKind::Intrinsic(_) => "intrinsic",
            InstanceKind::Virtual(..) => "virtual",
            InstanceKind::DropGlue(..) => "drop_glue",
            InstanceKind::ClosureOnceShim { .. } => "closure_once_shim",
            InstanceKind::FnPtrShim(..) => "fn_ptr_shim",
            InstanceKind::ReifyShim(..) => "reify_shim",
            InstanceKind::VTableShim(..) => "vtable_shim",
            InstanceKind::CloneShim(..) => "clone_shim",
            _ => "other_shim",
        };
        o.put("kind", J::s(kind));
        if did.is_local() {
            o.put("sp", J::s(span_str(tcx, tcx.def_span(did))));
            o.put("pv", crate::prov(tcx.def_span(did)));
            o.put("events", J::Arr(std::mem::take(&mut w.events[k])));
        }
        if !w.panics[k].is_empty() {
            o.put("panic_calls", J::Arr(w.panics[k].iter().map(|s| J::s(s.clone())).collect()));
        }
        if w.asserts[k] > 0 {
            o.put("asserts", J::Int(w.asserts[k] as i128));
        }
        if !w.notes[k].is_empty() {
            o.put("notes", J::Arr(w.notes[k].iter().map(|s| J::s(s.clone())).collect()));
        }
        o.put(
            "out",
            J::Arr(w.edges[k].iter().map(|(c, how)| J::Arr(vec![J::Int(*c as i128), J::s(*how)])).collect()),
        );
        insts.push(o);
    }
    J::obj().set("roots", J::Arr(roots_out)).set("instances", J::Arr(insts))
}
