"""C18 — protocol identifier tables are exact: every listed name/number, nothing else.

Decides (T, S): string tables of the four string enums in both directions (evaluated
associated constants, first-match pattern semantics, rejecting catch-all), their wiring into
the serde impls; discriminants of the numeric enums, their serde_repr impls and TryFrom<u8>
tables; bitflag constants; all compared row by row with spec/identifiers.json.
"""
import json
import os

from . import hirq as H
from . import tables as T
from .engine import VERIF
from .facts import SER, DE

LEVEL = "proof"
OK = "core::result::Result::Ok"
ERR = "core::result::Result::Err"


def string_enum(ctx, F, cfg, path, oracle):
    short = path.split("::")[-1]
    adt = F.adt(path)
    if not ctx.oblige("C18|str|%s|adt" % short, adt is not None and adt["kind"] == "enum", "anchor missing: enum " + path, cfg=cfg):
        return 0
    variants = [v["name"] for v in adt["variants"]]
    ctx.oblige("C18|str|%s|variants" % short, sorted(variants) == sorted(oracle),
               "%s has variants %s, specification lists %s" % (path, sorted(variants), sorted(oracle)), cfg=cfg, where=adt["sp"])
    fwd_fn = F.trait_impl_fn("<&str as core::convert::From<%s>>" % path, "from")
    bwd_fn = F.trait_impl_fn("<%s as core::convert::TryFrom<&str>>" % path, "try_from")
    if not ctx.oblige("C18|str|%s|impls" % short, fwd_fn is not None and bwd_fn is not None,
                      "anchor missing: From<%s> for &str / TryFrom<&str> for %s" % (short, short), cfg=cfg):
        return 0
    rows = 0
    from . import ftable as FT
    OTHER = "\x00<any other string>"
    try:
        ftab = FT.variant_table(F, fwd_fn, path)
        fwd = {name: (r[1] if r is not None and r[0] == "lit" and isinstance(r[1], str) else None) for name, r in ftab.items()}
        btab = FT.value_table(F, bwd_fn, list(oracle.values()) + [OTHER], add_literals=True)
    except FT.Unreadable as e:
        ctx.violation("C18|str|%s|unreadable" % short, "UNREADABLE-IMPL: %s" % e, cfg=cfg)
        return 0
    for name, spelling in sorted(oracle.items()):
        rows += 1
        ctx.oblige("C18|str|%s|encode|%s" % (short, name), fwd.get(name) == spelling,
                   "%s::%s is spelled %r, specification says %r" % (short, name, fwd.get(name), spelling), cfg=cfg, where=fwd_fn["sp"])
        kind, pay = FT.classify(btab.get(spelling))
        got = FT.ctor_name(pay) if kind == "ok" else None
        ctx.oblige("C18|str|%s|decode|%s" % (short, name), got == name,
                   "%r decodes to %s::%s, specification says %s" % (spelling, short, got, name), cfg=cfg, where=bwd_fn["sp"])
    # nothing else accepted: every other literal the code compares with, and the probe that equals none of them, is rejected
    spellings = set(oracle.values())
    for v, r in sorted(btab.items(), key=lambda kv: repr(kv[0])):
        if v in spellings:
            continue
        kind, pay = FT.classify(r)
        if v == OTHER:
            ctx.oblige("C18|str|%s|catch-all" % short, kind == "err", "a string that is none of the identifiers is accepted by TryFrom<&str> for %s (as %s)" % (short, S_show(pay)), cfg=cfg, where=bwd_fn["sp"])
        else:
            ctx.oblige("C18|str|%s|extra|%s" % (short, v), kind == "err", "TryFrom<&str> for %s also accepts %r" % (short, v), cfg=cfg, where=bwd_fn["sp"])
    ctx.oblige("C18|str|%s|total" % short, OTHER in btab, "no rejecting catch-all in TryFrom<&str> for " + short, cfg=cfg)
    brows = [[repr(v)[:40], FT.classify(r)[0]] for v, r in btab.items()]
    ctx.oblige("C18|str|%s|distinct" % short, len(set(fwd.values())) == len(fwd), "two %s variants share a spelling" % short, cfg=cfg)
    # serde wiring: Serialize goes through From<E> for &str, Deserialize through TryFrom<&str> for E
    ser = F.impl_fn(SER, path, "serialize")
    de = F.impl_fn(DE, path, "deserialize")
    okser = okde = False
    if len(ser) == 1:
        okser = any(H.conversion_impl(n) == "<&str as core::convert::From<%s>>" % path for n in H.walk(ser[0]["body"]))
    if len(de) == 1:
        has_str = any(n.get("k") == "call" and n.get("callee") == "serde_core::de::Deserialize::deserialize" and (n.get("targs") or [""])[0] == "&str" for n in H.walk(de[0]["body"]))
        has_conv = any(H.conversion_impl(n) == "<%s as core::convert::TryFrom<&str>>" % path for n in H.walk(de[0]["body"]))
        okde = has_str and has_conv
    ctx.oblige("C18|str|%s|serde-ser" % short, okser, "%s is not serialised through its From<%s> for &str table" % (short, short), cfg=cfg)
    ctx.oblige("C18|str|%s|serde-de" % short, okde, "%s is not deserialised through its TryFrom<&str> table" % short, cfg=cfg)
    ctx.sample({"cfg": cfg, "enum": path, "encode": fwd, "decode_arms": brows}, limit=12)
    return rows


def S_show(t):
    from . import sym as S
    return S.show(t)[:60]


def repr_int(s):
    """'Fixed(I8, false)' -> 'u8'"""
    import re
    m = re.match(r"Fixed\(I(\d+), (true|false)\)", s)
    if not m:
        return s
    return ("i" if m.group(2) == "true" else "u") + m.group(1)


def repr_enum(ctx, F, cfg, path, spec):
    short = path.split("::")[-1]
    adt = F.adt(path)
    if not ctx.oblige("C18|num|%s|adt" % short, adt is not None and adt["kind"] == "enum", "anchor missing: enum " + path, cfg=cfg):
        return 0
    discr = {v["name"]: v.get("discr") for v in adt["variants"]}
    want = spec["values"]
    rows = 0
    for name, val in sorted(want.items()):
        rows += 1
        ctx.oblige("C18|num|%s|%s" % (short, name), discr.get(name) == val,
                   "%s::%s = %s, specification says %s" % (short, name, discr.get(name), val), cfg=cfg, where=adt["sp"])
    extra = sorted(set(discr) - set(want))
    ctx.oblige("C18|num|%s|extra" % short, not extra, "%s has variants the specification table does not list: %s" % (short, extra), cfg=cfg, where=adt["sp"])
    vals = list(discr.values())
    ctx.oblige("C18|num|%s|distinct" % short, len(set(vals)) == len(vals), "two %s variants share a number" % short, cfg=cfg)
    if spec.get("repr"):
        got = repr_int(adt["repr"].get("int") or "")
        ctx.oblige("C18|num|%s|repr" % short, spec["repr"] == got, "%s is not #[repr(%s)] (got %r)" % (short, spec["repr"], got), cfg=cfg)
    if spec.get("serde"):
        ser = F.impl_fn(SER, path, "serialize")
        de = F.impl_fn(DE, path, "deserialize")
        good = len(ser) == 1 and len(de) == 1
        if ctx.oblige("C18|num|%s|serde-impls" % short, good, "%s lacks exactly one Serialize and one Deserialize impl" % short, cfg=cfg):
            # Serialize: value = match *self { V => V as u8 }, then the u8 is serialised
            okser = False
            try:
                body = ser[0]["body"]
                lets = [s for s in body.get("stmts", []) if s["k"] == "let"]
                if len(lets) == 1 and lets[0]["pat"].get("ty") == "u8":
                    m = H.strip_block(lets[0]["init"])
                    ident = m.get("k") == "match"
                    for a in (m.get("arms") or []):
                        v = H.pat_ctor(a["pat"])
                        b = H.strip_block(a["body"])
                        if not (b.get("k") == "cast" and b.get("ty") == "u8" and H.ctor(b["e"]) == v):
                            ident = False
                    tail = H.strip_block(body.get("expr", {}))
                    okser = ident and tail.get("callee") == "serde_core::ser::Serialize::serialize" and (tail.get("targs") or [""])[0] == "u8" \
                        and H.local_id(tail["args"][0]) == lets[0]["pat"]["id"]
            except (KeyError, IndexError):
                okser = False
            ctx.oblige("C18|num|%s|serde-ser" % short, okser, "%s is not serialised as its own discriminant (u8)" % short, cfg=cfg, where=ser[0]["sp"])
            # Deserialize: match <u8>::deserialize(d)? { const => Ok(V) .. other => Err }
            okde = True
            msg = ""
            try:
                m, rows_ = T.conversion_table(de[0], F)
                sc = H.strip_block(m["scrut"])
                if not (sc.get("k") == "try" and H.strip_block(sc["e"]).get("callee") == "serde_core::de::Deserialize::deserialize"
                        and (H.strip_block(sc["e"]).get("targs") or [""])[0] == "u8"):
                    okde, msg = False, "does not decode a u8"
                accepted = {}
                for r in rows_:
                    if r["catchall"]:
                        if r["kind"] != "err":
                            okde, msg = False, "catch-all accepts"
                        break
                    k, c = T.result_value(r["res"], F)
                    name = c.split("::")[-1] if k == "ctor" and c else None
                    for v in r["vals"]:
                        accepted.setdefault(v, name)
                else:
                    okde, msg = False, "no rejecting catch-all"
                if okde and accepted != {v: n for n, v in discr.items()}:
                    okde, msg = False, "accepts %s, discriminants are %s" % (accepted, discr)
            except T.Unreadable as e:
                okde, msg = False, "UNREADABLE-IMPL: %s" % e
            ctx.oblige("C18|num|%s|serde-de" % short, okde, "%s deserialisation table: %s" % (short, msg), cfg=cfg, where=de[0]["sp"])
    if spec.get("try_from_u8"):
        fn = F.trait_impl_fn("<%s as core::convert::TryFrom<u8>>" % path, "try_from")
        if ctx.oblige("C18|num|%s|try_from|impl" % short, fn is not None, "anchor missing: TryFrom<u8> for " + short, cfg=cfg):
            from . import ftable as FT
            try:
                tab = FT.value_table(F, fn, range(256))
                for b in range(256):
                    kind, pay = FT.classify(tab[b])
                    wantname = next((n for n, v in want.items() if v == b), None)
                    if kind == "ok":
                        got = FT.ctor_name(pay) or "?"
                    else:
                        got = None
                        if wantname is None:
                            c = pay[1] if pay is not None and pay[0] == "ctor" else None
                            ctx.oblige("C18|num|%s|try_from|err|%d" % (short, b), kind == "err" and c == spec["try_from_u8"],
                                       "%s::try_from(%d) fails with %s, expected %s" % (short, b, c, spec["try_from_u8"]), cfg=cfg, where=fn["sp"], nontrivial=False)
                    ctx.oblige("C18|num|%s|try_from|%d" % (short, b), got == wantname,
                               "%s::try_from(%d) gives %s, specification says %s" % (short, b, got, wantname), cfg=cfg, where=fn["sp"])
            except FT.Unreadable as e:
                ctx.violation("C18|num|%s|try_from|unreadable" % short, "UNREADABLE-IMPL: %s" % e, cfg=cfg)
    if cfg == "k0":
        ctx.sample({"enum": path, "discriminants": discr if len(discr) < 12 else dict(list(discr.items())[:12])}, limit=30)
    return rows


def run(ctx):
    spec = json.load(open(os.path.join(VERIF, "spec", "identifiers.json")))
    ctx.explanation = ("Finite tables compared row by row: string tables from the two hand-written matches of each string enum "
                       "(associated constants evaluated by rustc, first-match semantics, rejecting catch-all => every other string is rejected), "
                       "their wiring into the derive(Serialize/Deserialize) impls (`into`/`try_from` = \"&str\"), enum discriminants from the ADT "
                       "table, the serde_repr impls' match tables, TryFrom<u8> tables over all 256 bytes, bitflag constants; oracle = spec/identifiers.json.")
    ctx.rule = "one obligation per table row / byte / wiring fact per configuration"
    ctx.trusted = ["rustc 1.97 nightly (const evaluation, discriminants, match semantics)", "serde_repr 0.1.21 / serde_derive 1.0.229 expansion shapes (read, not assumed)",
                   "cbor-smol 0.5.1 integer range checks when decoding a u8"]
    ctx.assumptions = ["string comparison in `match s { CONST => .. }` is exact byte equality (language semantics)"]
    ctx.extra["exhaustive"] = True
    for cfg, F in ctx.facts.items():
        srows = nrows = frows = 0
        for path, oracle in spec["string_enums"].items():
            srows += string_enum(ctx, F, cfg, path, oracle)
        for path, s in spec["repr_enums"].items():
            nrows += repr_enum(ctx, F, cfg, path, s)
        for path, consts in spec["bitflags"].items():
            short = path.split("::")[-1]
            for name, val in consts.items():
                frows += 1
                got = F.const_value(path + "::" + name)
                ctx.oblige("C18|flag|%s|%s" % (short, name), got == val, "%s::%s = %s, specification says %s" % (short, name, got, val), cfg=cfg)
            have = sorted(c.split("::")[-1] for c in F.consts if c.startswith(path + "::") and c.split("::")[-1].isupper())
            ctx.oblige("C18|flag|%s|extra" % short, have == sorted(consts), "%s defines flags %s, specification lists %s" % (short, have, sorted(consts)), cfg=cfg)
            fields = F.struct_fields(path)
            ctx.oblige("C18|flag|%s|width" % short, fields is not None and len(fields) == 1 and fields[0]["ty"]["s"] == "u8", "%s is not a u8 bit set" % short, cfg=cfg)
        ctx.floor("string rows", srows, 12, cfg=cfg)
        ctx.floor("numeric rows", nrows, 76, cfg=cfg)
        ctx.floor("flag constants", frows, 10, cfg=cfg)
