"""C18 — protocol identifier tables are exact: every listed name/number, nothing else.

Decides (T, S): string tables of the four string enums in both directions (evaluated
associated constants, first-match pattern semantics, rejecting catch-all), their wiring into
the serde impls; discriminants of the numeric enums, their serde_repr impls and TryFrom<u8>
tables; bitflag constants; all compared row by row with spec/identifiers.json.
"""
import json
import os

from . import hirq as H
from . import tables as T
from .engine import VERIF
from .facts import SER, DE

LEVEL = "proof"
OK = "core::result::Result::Ok"
ERR = "core::result::Result::Err"


def string_enum(ctx, F, cfg, path, oracle):
    short = path.split("::")[-1]
    adt = F.adt(path)
    if not ctx.oblige("C18|str|%s|adt" % short, adt is not None and adt["kind"] == "enum", "anchor missing: enum " + path, cfg=cfg):
        return 0
    variants = [v["name"] for v in adt["variants"]]
    ctx.oblige("C18|str|%s|variants" % short, sorted(variants) == sorted(oracle),
               "%s has variants %s, specification lists %s" % (path, sorted(variants), sorted(oracle)), cfg=cfg, where=adt["sp"])
    fwd_fn = F.trait_impl_fn("<&str as core::convert::From<%s>>" % path, "from")
    bwd_fn = F.trait_impl_fn("<%s as core::convert::TryFrom<&str>>" % path, "try_from")
    if not ctx.oblige("C18|str|%s|impls" % short, fwd_fn is not None and bwd_fn is not None,
                      "anchor missing: From<%s> for &str / TryFrom<&str> for %s" % (short, short), cfg=cfg):
        return 0
    rows = 0
    from . import ftable as FT
    OTHER = "\x00<any other string>"
    try:
        ftab = FT.variant_table(F, fwd_fn, path)
        fwd = {name: (r[1] if r is not None and r[0] == "lit" and isinstance(r[1], str) else None) for name, r in ftab.items()}
        btab = FT.value_table(F, bwd_fn, list(oracle.values()) + [OTHER], add_literals=True)
    except FT.Unreadable as e:
        ctx.violation("C18|str|%s|unreadable" % short, "UNREADABLE-IMPL: %s" % e, cfg=cfg)
        return 0
    for name, spelling in sorted(oracle.items()):
        rows += 1
        ctx.oblige("C18|str|%s|encode|%s" % (short, name), fwd.get(name) == spelling,
                   "%s::%s is spelled %r, specification says %r" % (short, name, fwd.get(name), spelling), cfg=cfg, where=fwd_fn["sp"])
        kind, pay = FT.classify(btab.get(spelling))
        got = FT.ctor_name(pay) if kind == "ok" else None
        ctx.oblige("C18|str|%s|decode|%s" % (short, name), got == name,
                   "%r decodes to %s::%s, specification says %s" % (spelling, short, got, name), cfg=cfg, where=bwd_fn["sp"])
    # nothing else accepted: every other literal the code compares with, and the probe that equals none of them, is rejected
    spellings = set(oracle.values())
    for v, r in sorted(btab.items(), key=lambda kv: repr(kv[0])):
        if v in spellings:
            continue
        kind, pay = FT.classify(r)
        if v == OTHER:
            ctx.oblige("C18|str|%s|catch-all" % short, kind == "err", "a string that is none of the identifiers is accepted by TryFrom<&str> for %s (as %s)" % (short, S_show(pay)), cfg=cfg, where=bwd_fn["sp"])
        else:
            ctx.oblige("C18|str|%s|extra|%s" % (short, v), kind == "err", "TryFrom<&str> for %s also accepts %r" % (short, v), cfg=cfg, where=bwd_fn["sp"])
    ctx.oblige("C18|str|%s|total" % short, OTHER in btab, "no rejecting catch-all in TryFrom<&str> for " + short, cfg=cfg)
    brows = [[repr(v)[:40], FT.classify(r)[0]] for v, r in btab.items()]
    ctx.oblige("C18|str|%s|distinct" % short, len(set(fwd.values())) == len(fwd), "two %s variants share a spelling" % short, cfg=cfg)
    # serde wiring: what Serialize emits for each variant is the From<E> for &str table; what Deserialize accepts is the
    # TryFrom<&str> table (derived through into/try_from = "&str" or written by hand, read from the path summaries alike)
    try:
        ty, enc, _ = FT.enum_encode(F, path)
        okser, why = (ty == "str" and enc == fwd), "emits %s %s" % (ty, enc)
    except FT.Unreadable as e:
        okser, why = False, "UNREADABLE-IMPL: %s" % e
    ctx.oblige("C18|str|%s|serde-ser" % short, okser, "%s is not serialised as the text string of its From<%s> for &str table (%s)" % (short, short, why), cfg=cfg)
    try:
        ty, dec, _ = FT.enum_decode(F, path, list(oracle.values()) + [OTHER], add_literals=True)
        wantdec = {v: (FT.ctor_name(FT.classify(r)[1]) if FT.classify(r)[0] == "ok" else None) for v, r in btab.items()}
        okde = ty == "str" and all(dec.get(v) == wantdec.get(v) for v in set(dec) | set(wantdec))
        why = "reads %s, accepts %s" % (ty, {k: v for k, v in dec.items() if v})
    except FT.Unreadable as e:
        okde, why = False, "UNREADABLE-IMPL: %s" % e
    ctx.oblige("C18|str|%s|serde-de" % short, okde, "%s is not deserialised as a text string through its TryFrom<&str> table (%s)" % (short, why), cfg=cfg)
    ctx.sample({"cfg": cfg, "enum": path, "encode": fwd, "decode_arms": brows}, limit=12)
    return rows


def S_show(t):
    from . import sym as S
    return S.show(t)[:60]


def repr_int(s):
    """'Fixed(I8, false)' -> 'u8'"""
    import re
    m = re.match(r"Fixed\(I(\d+), (true|false)\)", s)
    if not m:
        return s
    return ("i" if m.group(2) == "true" else "u") + m.group(1)


def repr_enum(ctx, F, cfg, path, spec):
    from . import ftable as FT
    short = path.split("::")[-1]
    adt = F.adt(path)
    if not ctx.oblige("C18|num|%s|adt" % short, adt is not None and adt["kind"] == "enum", "anchor missing: enum " + path, cfg=cfg):
        return 0
    discr = {v["name"]: v.get("discr") for v in adt["variants"]}
    want = spec["values"]
    rows = 0
    for name, val in sorted(want.items()):
        rows += 1
        ctx.oblige("C18|num|%s|%s" % (short, name), discr.get(name) == val,
                   "%s::%s = %s, specification says %s" % (short, name, discr.get(name), val), cfg=cfg, where=adt["sp"])
    extra = sorted(set(discr) - set(want))
    ctx.oblige("C18|num|%s|extra" % short, not extra, "%s has variants the specification table does not list: %s" % (short, extra), cfg=cfg, where=adt["sp"])
    vals = list(discr.values())
    ctx.oblige("C18|num|%s|distinct" % short, len(set(vals)) == len(vals), "two %s variants share a number" % short, cfg=cfg)
    if spec.get("repr"):
        got = repr_int(adt["repr"].get("int") or "")
        ctx.oblige("C18|num|%s|repr" % short, spec["repr"] == got, "%s is not #[repr(%s)] (got %r)" % (short, spec["repr"], got), cfg=cfg)
    if spec.get("serde"):
        ser = F.impl_fn(SER, path, "serialize")
        de = F.impl_fn(DE, path, "deserialize")
        good = len(ser) == 1 and len(de) == 1
        if ctx.oblige("C18|num|%s|serde-impls" % short, good, "%s lacks exactly one Serialize and one Deserialize impl" % short, cfg=cfg):
            # Serialize emits the variant's own discriminant as the repr integer; Deserialize reads that integer type and accepts
            # exactly the discriminants (serde_repr or hand-written, read from the path summaries alike)
            want_ty = spec.get("repr") or "u8"
            try:
                ty, enc, _ = FT.enum_encode(F, path)
                okser, why = (ty == want_ty and enc == discr), "emits %s %s" % (ty, enc)
            except FT.Unreadable as e:
                okser, why = False, "UNREADABLE-IMPL: %s" % e
            ctx.oblige("C18|num|%s|serde-ser" % short, okser, "%s is not serialised as its own discriminant (%s): %s" % (short, want_ty, why), cfg=cfg, where=ser[0]["sp"])
            try:
                ty, dec, _ = FT.enum_decode(F, path, range(256))
                acc = {v: n for v, n in dec.items() if n is not None}
                okde = ty == want_ty and acc == {v: n for n, v in discr.items()}
                msg = "reads %s, accepts %s, discriminants are %s" % (ty, acc, discr)
            except FT.Unreadable as e:
                okde, msg = False, "UNREADABLE-IMPL: %s" % e
            ctx.oblige("C18|num|%s|serde-de" % short, okde, "%s deserialisation table: %s" % (short, msg), cfg=cfg, where=de[0]["sp"])
    if spec.get("try_from_u8"):
        fn = F.trait_impl_fn("<%s as core::convert::TryFrom<u8>>" % path, "try_from")
        if ctx.oblige("C18|num|%s|try_from|impl" % short, fn is not None, "anchor missing: TryFrom<u8> for " + short, cfg=cfg):
            from . import ftable as FT
            try:
                tab = FT.value_table(F, fn, range(256))
                for b in range(256):
                    kind, pay = FT.classify(tab[b])
                    wantname = next((n for n, v in want.items() if v == b), None)
                    if kind == "ok":
                        got = FT.ctor_name(pay) or "?"
                    else:
                        got = None
                        if wantname is None:
                            c = pay[1] if pay is not None and pay[0] == "ctor" else None
                            ctx.oblige("C18|num|%s|try_from|err|%d" % (short, b), kind == "err" and c == spec["try_from_u8"],
                                       "%s::try_from(%d) fails with %s, expected %s" % (short, b, c, spec["try_from_u8"]), cfg=cfg, where=fn["sp"], nontrivial=False)
                    ctx.oblige("C18|num|%s|try_from|%d" % (short, b), got == wantname,
                               "%s::try_from(%d) gives %s, specification says %s" % (short, b, got, wantname), cfg=cfg, where=fn["sp"])
            except FT.Unreadable as e:
                ctx.violation("C18|num|%s|try_from|unreadable" % short, "UNREADABLE-IMPL: %s" % e, cfg=cfg)
    if cfg == "k0":
        ctx.sample({"enum": path, "discriminants": discr if len(discr) < 12 else dict(list(discr.items())[:12])}, limit=30)
    return rows


def run(ctx):
    spec = json.load(open(os.path.join(VERIF, "spec", "identifiers.json")))
    ctx.explanation = ("Finite tables compared row by row: string tables from the two hand-written matches of each string enum "
                       "(associated constants evaluated by rustc, first-match semantics, rejecting catch-all => every other string is rejected), "
                       "their wiring into the derive(Serialize/Deserialize) impls (`into`/`try_from` = \"&str\"), enum discriminants from the ADT "
                       "table, the serde_repr impls' match tables, TryFrom<u8> tables over all 256 bytes, bitflag constants; oracle = spec/identifiers.json.")
    ctx.rule = "one obligation per table row / byte / wiring fact per configuration"
    ctx.trusted = ["rustc 1.97 nightly (const evaluation, discriminants, match semantics)", "serde_repr 0.1.21 / serde_derive 1.0.229 expansion shapes (read, not assumed)",
                   "cbor-smol 0.5.1 integer range checks when decoding a u8"]
    ctx.assumptions = ["string comparison in `match s { CONST => .. }` is exact byte equality (language semantics)"]
    ctx.extra["exhaustive"] = True
    for cfg, F in ctx.facts.items():
        srows = nrows = frows = 0
        for path, oracle in spec["string_enums"].items():
            srows += string_enum(ctx, F, cfg, path, oracle)
        for path, s in spec["repr_enums"].items():
            nrows += repr_enum(ctx, F, cfg, path, s)
        for path, consts in spec["bitflags"].items():
            short = path.split("::")[-1]
            for name, val in consts.items():
                frows += 1
                got = F.const_value(path + "::" + name)
                ctx.oblige("C18|flag|%s|%s" % (short, name), got == val, "%s::%s = %s, specification says %s" % (short, name, got, val), cfg=cfg)
            have = sorted(c.split("::")[-1] for c in F.consts if c.startswith(path + "::") and c.split("::")[-1].isupper())
            ctx.oblige("C18|flag|%s|extra" % short, have == sorted(consts), "%s defines flags %s, specification lists %s" % (short, have, sorted(consts)), cfg=cfg)
            fields = F.struct_fields(path)
            ctx.oblige("C18|flag|%s|width" % short, fields is not None and len(fields) == 1 and fields[0]["ty"]["s"] == "u8", "%s is not a u8 bit set" % short, cfg=cfg)
        ctx.floor("string rows", srows, 12, cfg=cfg)
        ctx.floor("numeric rows", nrows, 76, cfg=cfg)
        ctx.floor("flag constants", frows, 10, cfg=cfg)
