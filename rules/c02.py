"""C02 — CTAP2 response encoding carries every member under its specified key, exactly.

Decides (T, W, P) in all configurations:
  * the {key -> field, emitted iff set} table of every response-side map type (indexed and
    text-keyed) against spec/ctap2_messages.json: key, field, optional vs always-present, CBOR shape;
  * the no-null rule: every Option-typed member of every map-emitting Serialize impl in the crate
    is emitted only under `!Option::is_none(&self.<same member>)` — an unset member cannot appear
    as null — and every field is emitted unless the oracle says it is never emitted (rp.icon);
  * the member counter passed to serialize_map/serialize_struct counts exactly the emitted members;
  * untagged AttestationStatement forwards to the payload; the filtered algorithm list is a
    definite-length sequence of {alg, type: "public-key"};
  * framing in Response::serialize (shared with C17): status 0 + body from cbor_serialize of the
    variant's payload into the tail; [0xA0] collapses to the status byte alone; parameter-less
    responses have an empty body; GetAssertion and GetNextAssertion share one payload type.
Not decided: byte encodings of leaf values (cbor-smol, heapless, cosey).
"""
import json
import os

from . import hirq as H
from . import tables as T
from . import wire as W
from . import respser as R
from . import c17
from .engine import VERIF

LEVEL = "other"


def header_count_ok(tab, none_aliases=()):
    """the length passed to serialize_map(Some(n)) / serialize_struct(_, _, n) is
    (#unconditional members) + sum(if P(&self.f) {0} else {1}) over exactly the guarded members"""
    if "count_ok" in tab["header"]:
        # hand-written emitter: decided per path (announced count == members emitted on that path)
        return (True, "") if tab["header"]["count_ok"] else (False, "on some path the announced member count differs from the members emitted")
    hdr = tab["header"]["node"]
    args = H.call_args(hdr)
    n = args[1] if tab["header"]["call"] == "serialize_map" else args[2]
    n = H.strip_block(n)
    if n.get("k") == "call" and n.get("ctor") == "core::option::Option::Some":
        n = H.strip_block(n["args"][0])
    # follow `let num_fields = ...`
    if n.get("k") == "path" and n["res"].get("rk") == "Local":
        lid = n["res"]["id"]
        for s in tab["fn"]["body"].get("stmts", []):
            if s["k"] == "let" and s["pat"].get("k") == "bind" and s["pat"]["id"] == lid:
                n = H.strip_block(s["init"])
    const = 0
    fields = []

    def term(t):
        nonlocal const
        t = H.strip_block(t)
        if t.get("k") == "binary" and t["op"] == "+":
            return term(t["l"]) and term(t["r"])
        if t.get("k") == "cast":
            return term(t["e"])
        v = H.lit(t)
        if isinstance(v, bool):
            const += int(v)
            return True
        if isinstance(v, int):
            const += v
            return True
        if t.get("k") == "if" and "else" in t:
            c = H.strip_block(t["cond"])
            a, b = H.lit(t["then"]), H.lit(t["else"])
            if (c.get("callee") == T.IS_NONE or c.get("callee") in none_aliases) and a == 0 and b == 1:
                f = H.self_field(H.call_args(c)[0])
                if f:
                    fields.append(f)
                    return True
        return False

    if not term(n):
        return False, "member counter of unexpected shape"
    unguarded = sum(1 for m in tab["members"] if not m["optional"])
    guarded = sorted(m["field"] for m in tab["members"] if m["optional"])
    if const != unguarded or sorted(fields) != guarded:
        return False, "member counter counts %d fixed + %s, emission has %d fixed + %s" % (const, sorted(fields), unguarded, guarded)
    return True, ""


def run(ctx):
    spec = json.load(open(os.path.join(VERIF, "spec", "ctap2_messages.json")))
    ctx.explanation = ("Table agreement between the emission tables read from the generated Serialize impls (typed HIR) and the response tables of CTAP 2.1/2.2, the "
                       "no-null / no-dropped-member rule over every map-emitting impl of the crate, the member-counter rule, and the path analysis of Response::serialize "
                       "(status byte, body wiring per variant, [0xA0] collapse), in all 9 configurations. Members are emitted by independent guarded statements, so the "
                       "per-member table decides every subset of set members.")
    ctx.rule = "obligation = (type, member, clause) | (serialize path, clause) per configuration"
    ctx.trusted = ["cbor-smol 0.5.1 (value encodings, serialize_struct == text-keyed map)", "heapless / heapless-bytes / serde_bytes / cosey Serialize impls", "serde-indexed 0.1.1, serde_derive 1.0.229 (expansions read from typed HIR)"]
    ctx.assumptions = ["public field names identify members"]
    for cfg, F in ctx.facts.items():
        n_members = 0
        for path, s in spec["responses"].items():
            if "feature" in s and s["feature"] not in F.features:
                continue
            try:
                tab = W.encode_table(F, path)
            except T.Unreadable as e:
                ctx.violation("C02|unreadable|" + path, "UNREADABLE-IMPL: Serialize for %s: %s" % (path, e), cfg=cfg)
                continue
            if not ctx.oblige("C02|anchor|" + path, tab is not None, "anchor missing: map-emitting Serialize impl for " + path, cfg=cfg):
                continue
            where = tab["fn"]["sp"]
            ctx.oblige("C02|kind|" + path, tab["kind"] == s["kind"], "%s emits a %s-keyed map, specification says %s" % (path, tab["kind"], s["kind"]), cfg=cfg, where=where)
            want = W.oracle_members(s, F.features)
            by_field = {m["field"]: m for m in tab["members"]}
            assigned = {w["key"] for w in want}
            for w in want:
                n_members += 1
                key = "C02|member|%s|%s" % (path, w["field"])
                m = by_field.get(w["field"])
                if not ctx.oblige(key + "|exists", m is not None, "%s.%s is never emitted" % (path, w["field"]), cfg=cfg, where=where):
                    continue
                ctx.oblige(key + "|key", m["key"] == w["key"], "%s.%s is emitted under key %r, specification assigns %r" % (path, w["field"], m["key"], w["key"]), cfg=cfg, where=H.line(m["node"]))
                ctx.oblige(key + "|presence", m["optional"] == (not w["required"]),
                           "%s.%s is %s, specification says %s" % (path, w["field"], "optional" if m["optional"] else "always emitted", "always present" if w["required"] else "optional"), cfg=cfg, where=H.line(m["node"]))
                ctx.oblige(key + "|shape", m["shape"] == w["shape"], "%s.%s is emitted as %s (%s), specification says %s" % (path, w["field"], m["shape"], m["field_ty"], w["shape"]), cfg=cfg, where=H.line(m["node"]))
                ctx.sample({"cfg": cfg, "type": path, "field": w["field"], "key": m["key"], "optional": m["optional"], "type_": m["field_ty"]}, limit=40)
            for m in tab["members"]:
                if m["field"] not in {w["field"] for w in want}:
                    ctx.oblige("C02|extra|%s|%s" % (path, m["field"]), m["key"] not in assigned,
                               "%s.%s (not in the specification table) is emitted under the specification-assigned key %r" % (path, m["field"], m["key"]), cfg=cfg, where=H.line(m["node"]), nontrivial=False)
            never = set(s.get("never_emitted", []))
            ctx.oblige("C02|dropped|" + path, set(tab["never"]) <= never, "%s never emits its field(s) %s" % (path, sorted(set(tab["never"]) - never)), cfg=cfg, where=where)
        ctx.floor("response members compared", n_members, 69, cfg=cfg)
        # no-null / no-drop / counter rules over every map-emitting impl of the crate
        n_opt = n_maps = 0
        documented_never = {(p, f) for p, s in spec["responses"].items() for f in s.get("never_emitted", [])}
        for a in sorted(F.adts.values(), key=lambda a: a["path"]):
            if not a["local"] or a["kind"] != "struct":
                continue
            try:
                tab = W.encode_table(F, a["path"])
            except T.Unreadable as e:
                ctx.violation("C02|unreadable|" + a["path"], "UNREADABLE-IMPL: Serialize for %s: %s" % (a["path"], e), cfg=cfg)
                continue
            if tab is None:
                continue
            n_maps += 1
            path = a["path"]
            for m in tab["members"]:
                if m["is_option"]:
                    n_opt += 1
                    ctx.oblige("C02|no-null|%s|%s" % (path, m["field"]), W.guard_ok(m),
                               "%s.%s is an Option emitted without `skip if None` on the same member: an unset member is encoded as null" % (path, m["field"]) if m["guard"] is None else
                               "%s.%s is guarded by %s on %s: set members can be dropped / unset ones emitted" % (path, m["field"], m["guard"]["pred"], m["guard"]["field"]),
                               cfg=cfg, where=H.line(m["node"]))
                else:
                    ctx.oblige("C02|always|%s|%s" % (path, m["field"]), m["guard"] is None,
                               "%s.%s is not an Option but is emitted conditionally (%s): a set member can be dropped" % (path, m["field"], m["guard"] and m["guard"]["pred"]), cfg=cfg, where=H.line(m["node"]), nontrivial=False)
            for f in tab["never"]:
                ctx.oblige("C02|dropped-field|%s|%s" % (path, f), (path, f) in documented_never, "%s.%s is never emitted" % (path, f), cfg=cfg, where=tab["fn"]["sp"], nontrivial=False)
            ok, msg = header_count_ok(tab, W.is_none_aliases(F))
            ctx.oblige("C02|count|" + path, ok, "%s: %s — the map header would announce the wrong number of members" % (path, msg), cfg=cfg, where=tab["fn"]["sp"])
            ctx.oblige("C02|ended|" + path, tab["ended"], "%s does not finish its map" % path, cfg=cfg, nontrivial=False)
            keys = [m["key"] for m in tab["members"]]
            ctx.oblige("C02|once|" + path, len(set(keys)) == len(keys), "%s emits a key twice: %s" % (path, keys), cfg=cfg, nontrivial=False)
        ctx.floor("map-emitting impls", n_maps, 25, cfg=cfg)
        ctx.floor("Option members under the no-null rule", n_opt, 77, cfg=cfg)
        # untagged attestation statement
        fn = T.ser_impl(F, "ctap2::AttestationStatement")
        good = False
        if fn is not None:
            b = H.strip_block(fn["body"])
            if b.get("k") == "match":
                good = True
                pn = [n for p in fn["params"] for n, _ in H.pat_bindings(p)]
                for a in b["arms"]:
                    body = H.strip_block(a["body"])
                    binds = [i for _, i in H.pat_bindings(a["pat"])]
                    args = H.call_args(body) if body.get("k") in ("call", "mcall") else []
                    if not (body.get("callee") == "serde_core::ser::Serialize::serialize" and len(args) == 2 and H.local_id(args[0]) in binds and H.local_name(args[1]) in pn):
                        good = False
        ctx.oblige("C02|untagged|AttestationStatement", good, "AttestationStatement no longer forwards to its payload's own encoding without a tag", cfg=cfg)
        # filtered parameter list: a definite-length sequence with one {alg: <same alg>, type: "public-key"} map per kept entry
        fn = T.ser_impl(F, "webauthn::FilteredPublicKeyCredentialParameters")
        good, why = False, "anchor missing"
        if fn is not None:
            se = W.seq_emitter(F, fn)
            good, why = se["ok"], se.get("why", "")
            if good:
                me = ("param", "self")
                good = se["collection"] == ("field", me, "0")
                why = "the sequence is built from %s, not from the filtered list" % se["collection"][0:2].__repr__()
            if good:
                probe = ("unk", -1, "elem")
                el = se["elem"]
                f = dict(el[2]) if el[0] == "struct" and el[1] == "webauthn::PublicKeyCredentialParameters" else {}
                kt = f.get("key_type")
                lit = kt[2][0][1] if kt and kt[0] == "call" and len(kt[2]) == 1 and kt[2][0][0] == "lit" and "heapless::string::String<" in kt[1] else None
                good = f.get("alg") == ("field", probe, "alg") and lit == "public-key" and set(f) == {"alg", "key_type"}
                why = "an entry is emitted as %s" % __import__("rules.sym", fromlist=["x"]).show(el)[:120]
        ctx.oblige("C02|filtered-seq", good, "FilteredPublicKeyCredentialParameters is no longer emitted as a definite sequence of {alg, type: \"public-key\"} maps, one per entry: %s" % why, cfg=cfg)
        okf, lit_f, detail = W.reemitted_entry(F)
        ctx.oblige("C02|filtered-elem", okf and lit_f == "public-key", "a known algorithm is no longer re-emitted as {alg: <same alg>, type: \"public-key\"} (%s)" % detail, cfg=cfg)
        # framing
        c17.check(ctx, F, cfg, P="C02")
        c17.payload(ctx, F, cfg, spec, P="C02")
