"""C19 — generated fuzzing inputs are always memory-safe, valid request values.

Configuration: all features + `arbitrary` (+std).  Roots: the three derived
`Arbitrary::arbitrary` impls for ctap1::Request, ctap2::Request and authenticator::Request.
Decides (B): every panic-capable / unsafe MIR construct in the /repo instances reachable from
the roots (monomorphic call graph) is an obligation; each is discharged by a typed template whose
slots are extracted from typed HIR:
  bytes-K       `u.bytes(K)?.try_into().unwrap()` into `&[u8; K']` with K = K';
  min-cap       `Bytes::<N>::from_slice(u.bytes(n)?).unwrap()` with n = usize::arbitrary(u)?.min(N);
  str-cap       `s.try_into::<String<N>>().unwrap()` with s a prefix of at most n <= N bytes;
  utf8-prefix   `from_utf8_unchecked(u.bytes(e.valid_up_to())?)` where e is the error of
                from_utf8 over `u.peek_bytes(n)` of the *same* u with no consumption in between;
  loop-cap      `vec.push(..).unwrap()` in the closure of `u.arbitrary_loop(_, Some(N as u32), ..)`
                on a fresh Vec<_, N>; `N.try_into::<u32>().unwrap()` for the instantiated N;
  count-cap     `for _ in 0..len { vec.push(..).unwrap(); }` with `len = u.int_in_range(0..=N as u32)?` an immutable
                binding, the push the only write to a fresh Vec<_, N> and not inside a further loop;
  transparent   `&*(bytes as *const [u8; N] as *const ByteArray<N>)`: ByteArray is
                repr(transparent) over [u8; N] (cross-crate ADT table), the pointer comes from a
                reference (non-null, align 1); the only reference to the private, lifetime-
                unconstrained arbitrary_byte_array is the audited one in SubcommandParameters;
  enum-select   derive(Arbitrary): `match (u64::from(u32) * N) >> 32 { 0..N-1 => .., _ => unreachable!() }`
                with exactly the arms 0..N-1 (no overflow in u64, result < N).
Text validity and capacity bounds of the produced values are type invariants of
&str / String<N> / Bytes<N> / Vec<_, N> once these obligations hold.
Not decided: arbitrary 1.4.2's contracts (bytes(n) returns exactly n bytes, arbitrary_loop
honours its maximum, peek_bytes does not consume); formatting/cloning/dispatching a valid value.
"""
import re

from . import hirq as H
from .oblig_mono import Reach, hir_fn_for, node_at
from .pathcond import Analysis
from .respser import parent_map

LEVEL = "other"
CONFIGS = ["k8", "k9"]

UNWRAP = "core::result::Result::<T, E>::unwrap"
TRY_INTO = "core::convert::TryInto::try_into"
BYTES = "arbitrary::unstructured::Unstructured::<'a>::bytes"
PEEK = "arbitrary::unstructured::Unstructured::<'a>::peek_bytes"
ARB = "arbitrary::Arbitrary::arbitrary"
LOOP = "arbitrary::unstructured::Unstructured::<'a>::arbitrary_loop"
ROOT_TYPES = ["ctap1::Request<", "ctap2::Request<", "authenticator::Request<"]


def const_or_lit(A, n, F=None):
    """('lit', v) | ('param', path) | None for an expression that is a literal, a named integer constant or a const generic parameter"""
    n = A.subst(n)
    v = H.lit(n)
    if isinstance(v, int) and not isinstance(v, bool):
        return ("lit", v)
    if F is not None and n.get("k") == "path" and (n["res"].get("rk") or "").startswith(("Const", "AssocConst")) and "ConstParam" not in n["res"].get("rk", ""):
        cv = F.const_value(n["res"].get("path") or "")
        if isinstance(cv, int) and not isinstance(cv, bool):
            return ("lit", cv)
    if n.get("k") == "path" and "ConstParam" in n["res"].get("rk", ""):
        return ("param", n["res"]["path"].split("::")[-1])
    return None


def peel(n):
    """strip, also through statement-less `unsafe { e }` blocks"""
    while True:
        n = H.strip(n)
        if n.get("k") == "block" and not n.get("stmts") and "expr" in n:
            n = n["expr"]
        else:
            return n


def untry(n):
    n = H.strip(n)
    return H.strip(n["e"]) if n.get("k") == "try" else None


def array_len(ty):
    m = re.match(r"^&(?:'\w+ )?\[u8; (\w+)\]$", ty or "")
    return m.group(1) if m else None


def clamp_of(A, n, u_id):
    """N if n == <usize from u>.min(N) with N a const parameter"""
    n = A.subst(n)
    if n.get("k") == "mcall" and n.get("callee") == "core::cmp::Ord::min":
        src = untry(n["recv"])
        bound = const_or_lit(A, n["args"][0])
        if src is not None and src.get("callee") == ARB and (src.get("targs") or [""])[0] == "usize" and bound:
            return bound
    return None


def discharge_unwrap(F, fn, A, pm, node, inst):
    """returns (rule name, detail) or (None, reason)"""
    recv = H.strip(node["recv"])
    uids = [i for n, i in ((n, i) for p in fn["params"] for n, i in H.pat_bindings(p)) if n == "u"]
    # --- bytes-K
    if recv.get("k") in ("mcall", "call") and recv.get("callee") == TRY_INTO:
        src_node = H.call_args(recv)[0]
        targs = recv.get("targs") or ["", ""]
        src = untry(src_node)
        if src is not None and src.get("callee") == BYTES and array_len(targs[1]):
            k = const_or_lit(A, src["args"][0], F)
            kk = array_len(targs[1])
            same = k is not None and ((k[0] == "lit" and str(k[1]) == kk) or (k[0] == "param" and k[1] == kk))
            if same:
                return "bytes-K", "u.bytes(%s) converted to &[u8; %s]" % (k[1], kk)
            return None, "u.bytes(%s) is converted to an array of %s bytes" % (k and k[1], kk)
        # --- loop-cap bound: N.try_into::<u32>().unwrap()
        if targs[:2] == ["usize", "u32"]:
            k = const_or_lit(A, src_node)
            if k and k[0] == "param":
                m = re.findall(r", (\d+)>$", inst["name"].split("::{closure")[0])
                if m and int(m[-1]) <= 0xFFFFFFFF:
                    return "loop-cap", "loop bound %s = %s fits u32" % (k[1], m[-1])
            return None, "usize -> u32 conversion of a value that is not an instantiated capacity"
        # --- str-cap
        if targs[0] == "&str" and targs[1].startswith("heapless::string::String<"):
            cap = targs[1][len("heapless::string::String<"):-1]
            s = peel(A.subst(src_node))
            # case 1: s bound by `Ok(s)` of from_utf8(peek_bytes(n)..)   case 2: s = from_utf8_unchecked(u.bytes(i)?)
            sid = H.local_id(src_node)
            for x in H.walk(fn["body"]):
                if x.get("k") == "match":
                    sc = H.strip(x["scrut"])
                    if sc.get("callee") == "core::str::converts::from_utf8":
                        pk = untry(H.call_args(sc)[0])
                        if pk is not None and pk.get("callee") == "core::option::Option::<T>::ok_or":
                            pk = H.strip(pk["recv"])
                        if pk is None or pk.get("callee") != PEEK:
                            continue
                        n_bound = clamp_of(A, pk["args"][0], None)
                        if not (n_bound and n_bound[0] == "param" and n_bound[1] == cap):
                            return None, "the peeked length is not clamped to the string capacity %s" % cap
                        for arm in x["arms"]:
                            binds = dict((i, n) for n, i in H.pat_bindings(arm["pat"]))
                            inside = any(y is node for y in H.walk(arm["body"]))
                            if not inside:
                                continue
                            if H.pat_ctor(arm["pat"]) == "core::result::Result::Ok" and sid in binds:
                                return "str-cap", "text of exactly n = min(_, %s) bytes into String<%s>" % (cap, cap)
                            if H.pat_ctor(arm["pat"]) == "core::result::Result::Err":
                                ebind = list(binds)
                                if s.get("callee") == "core::str::converts::from_utf8_unchecked":
                                    v = untry(A.subst(H.call_args(s)[0]))
                                    if v is not None and v.get("callee") == BYTES:
                                        i_ = A.subst(v["args"][0])
                                        if i_.get("callee") == "core::str::error::Utf8Error::valid_up_to" and H.local_id(i_["recv"]) in ebind:
                                            return "str-cap", "valid_up_to() <= n = min(_, %s) bytes into String<%s>" % (cap, cap)
            return None, "string source is not bounded by the capacity"
    # --- loop-cap bound spelled u32::try_from(N).unwrap()
    if recv.get("k") in ("mcall", "call") and recv.get("callee") == "core::convert::TryFrom::try_from" and (recv.get("targs") or ["", ""])[:2] == ["u32", "usize"]:
        k = const_or_lit(A, H.call_args(recv)[0])
        if k and k[0] == "param":
            m = re.findall(r", (\d+)>$", inst["name"].split("::{closure")[0])
            if m and int(m[-1]) <= 0xFFFFFFFF:
                return "loop-cap", "loop bound %s = %s fits u32" % (k[1], m[-1])
        return None, "usize -> u32 conversion of a value that is not an instantiated capacity"
    # --- min-cap
    if recv.get("k") == "call" and (recv.get("callee") or "").endswith("Bytes::<N>::from_slice"):
        cap = (recv.get("targs") or [""])[0]
        src = untry(recv["args"][0])
        if src is not None and src.get("callee") == BYTES:
            b = clamp_of(A, src["args"][0], None)
            if b and b[0] == "param" and b[1] == cap:
                return "min-cap", "u.bytes(min(_, %s)) into Bytes<%s>" % (cap, cap)
        return None, "from_slice source is not clamped to the capacity"
    # --- loop-cap push
    if recv.get("k") == "mcall" and recv.get("callee") == "heapless::vec::Vec::<T, N>::push":
        # inside the closure of arbitrary_loop(u, Some(0), Some(N.try_into().unwrap()), |u| ..)
        cur = node
        clos = None
        for _ in range(40):
            cur = pm.get(id(cur))
            if cur is None:
                break
            if cur.get("k") == "closure":
                clos = cur
                break
        if clos is not None:
            call = pm.get(id(clos))
            while call is not None and call.get("k") not in ("mcall", "call"):
                call = pm.get(id(call))
            if call is not None and call.get("callee") == LOOP:
                mx = H.strip(call["args"][1])
                okmax = False
                if mx.get("k") == "call" and mx.get("ctor") == "core::option::Option::Some":
                    inner = H.strip(A.subst(mx["args"][0]))       # through `let max = ..;`
                    if inner.get("k") == "mcall" and inner.get("callee") == UNWRAP:
                        ti = H.strip(inner["recv"])
                        k = const_or_lit(A, H.call_args(ti)[0]) if ti.get("callee") == TRY_INTO or (ti.get("callee") == "core::convert::TryFrom::try_from" and (ti.get("targs") or [""])[0] == "u32") else None
                        okmax = k is not None and k[0] == "param"
                vec_id = H.local_id(recv["recv"])
                init = A.env.get(vec_id)
                vty = None
                for s in fn["body"].get("stmts", []):
                    if s["k"] == "let" and s["pat"].get("k") == "bind" and s["pat"]["id"] == vec_id:
                        vty = s["pat"]["ty"]
                fresh = init is not None and (H.strip_block(init).get("callee") or "").endswith("Vec::<T, N>::new")
                pushes = [x for x in H.walk(fn["body"]) if x.get("callee") == "heapless::vec::Vec::<T, N>::push"]
                if okmax and fresh and vty and vty.endswith(", %s>" % k[1]) and len(pushes) == 1:
                    return "loop-cap", "at most %s pushes into a fresh Vec<_, %s>" % (k[1], k[1])
        r = counted_push(F, fn, A, pm, node, recv)
        if r is not None:
            return r
        return None, "push is not bounded by an arbitrary_loop maximum equal to the capacity"
    return None, "unwrap of an unrecognised fallible operation"


def counted_push(F, fn, A, pm, node, recv):
    """`let len = u.int_in_range(0..=<N as u32>)?; let mut vec = Vec::<_, N>::new(); for _ in 0..len { vec.push(..).unwrap(); }`:
    a `for` over `0..len` runs its body len times, len <= N by the contract of int_in_range (the value drawn lies in the range), the
    push is the only operation on the fresh vector and runs at most once per iteration: at most N pushes into capacity N."""
    def cap_param(e):
        e = H.strip(A.subst(e))
        if e.get("k") == "mcall" and e.get("callee") == UNWRAP:
            ti = H.strip(e["recv"])
            if ti.get("callee") == TRY_INTO or (ti.get("callee") == "core::convert::TryFrom::try_from" and (ti.get("targs") or [""])[0] in ("u32", "usize", "u64")):
                return const_or_lit(A, H.call_args(ti)[0])
            return None
        if e.get("k") == "cast" and (e.get("ty") or "") in ("u32", "u64", "usize"):
            return const_or_lit(A, e["e"])
        return const_or_lit(A, e)
    loops, cur = [], node
    for _ in range(60):
        cur = pm.get(id(cur))
        if cur is None:
            break
        if cur.get("k") == "closure":
            return None
        if cur.get("k") == "loop":
            loops.append(cur)
    fl = [f for f in H.for_loops(fn["body"]) if f["loop"] is not None and loops and f["loop"] is loops[0]]
    if len(loops) != 1 or len(fl) != 1:
        return None
    it = H.strip(fl[0]["iter"])
    if not (it.get("k") == "struct" and (it.get("res") or {}).get("path") == "core::ops::range::Range"):
        return None
    fields = {f["name"]: f["e"] for f in it["fields"]}
    if H.lit(fields.get("start") or {}) != 0 or not re.match(r"^core::ops::range::Range<u(8|16|32|64|size)>$", it.get("ty") or ""):
        return None
    end = H.strip(fields["end"])
    if not (end.get("k") == "path" and end["res"].get("rk") == "Local"):
        return None
    # `len` must be an immutable binding of the value drawn
    lets = [x for x in H.walk(fn["body"]) if x.get("k") == "let" and x["pat"].get("k") == "bind" and x["pat"].get("id") == end["res"]["id"]]
    if len(lets) != 1 or "Mut" in (lets[0]["pat"].get("mode") or "").split(",")[-1] or lets[0].get("init") is None:
        return None, "the loop bound `%s` is not an immutable binding" % end["res"].get("name")
    src = untry(lets[0]["init"])
    if src is None or src.get("callee") != "arbitrary::unstructured::Unstructured::<'a>::int_in_range" or not src.get("args"):
        return None, "the loop bound is not drawn with int_in_range"
    rg = H.strip_block(src["args"][0])
    if not (rg.get("k") == "call" and rg.get("callee") == "core::ops::range::RangeInclusive::<Idx>::new" and len(rg["args"]) == 2):
        return None, "the loop bound is not drawn from an inclusive range"
    k = cap_param(rg["args"][1])
    if not (k and k[0] == "param"):
        return None, "the largest count that can be drawn is not the capacity parameter"
    vec_id = H.local_id(recv["recv"])
    vlets = [x for x in H.walk(fn["body"]) if x.get("k") == "let" and x["pat"].get("k") == "bind" and x["pat"].get("id") == vec_id]
    if len(vlets) != 1 or vlets[0].get("init") is None:
        return None
    fresh = (H.strip_block(vlets[0]["init"]).get("callee") or "").endswith("Vec::<T, N>::new")
    vty = vlets[0]["pat"].get("ty") or ""
    # every use of the vector: this push, and reads of the finished value outside the loop
    writes = [x for x in H.walk(fn["body"]) if x.get("k") == "mcall" and H.local_id(x["recv"]) == vec_id and (x.get("callee") or "").split("::")[-1] not in ("len", "is_empty", "capacity", "is_full")]
    if fresh and vty.endswith(", %s>" % k[1]) and writes == [recv]:
        return "count-cap", "for _ in 0..len with len = int_in_range(0..=%s)?: at most %s pushes into a fresh Vec<_, %s>" % (k[1], k[1], k[1])
    return None, "the counted loop pushes into a vector that is not fresh, has another capacity or is written elsewhere"


def sym_fits_rule(F, fn, node):
    """unwrap of `<fresh Bytes<N>>.extend_from_slice(u.bytes(X)?)` / `Bytes::<N>::from_slice(u.bytes(X)?)`, on the path summaries of
    the function: on every path that reaches it, X is the capacity parameter N itself, min(_, N), or a value the path has
    compared as `X <= N` (arbitrary's bytes(X) returns exactly X bytes).  (rule, detail) | (None, why) | (None, None) = not this shape"""
    from . import sym as S
    recv = H.strip(node["recv"])
    m = (recv.get("callee") or "").split("::")[-1]
    if recv.get("k") not in ("call", "mcall") or m not in ("extend_from_slice", "from_slice"):
        return None, None
    try:
        sy = S.Sym(F, fn, is_effect=lambda c, a, n, st: n is recv, inline=lambda path, n: False)
        paths = sy.run()
    except S.TooManyPaths:
        return None, "too many paths"
    evs = [(p, e) for p in paths for e in p.effects if e.node is recv]
    if not evs:
        return None, "the append is not reached on the path summaries"
    new_nodes = {x.get("sp"): x for x in H.walk(fn["body"]) if x.get("k") in ("call", "mcall")}
    caps = set()
    for p, e in evs:
        if m == "from_slice":
            ty = (recv.get("targs") or [""])[0]
            capname = ty if re.match(r"^\w+$", ty) else None
            src = e.args[0]
        else:
            dest = e.args[0]
            if not (dest[0] == "call" and not dest[2] and dest[1].split("::")[-1] == "new"):
                return None, "the destination is not a fresh container"
            if [x for x in p.effects if x is not e and x.args and x.args[0] == dest]:
                return None, "the destination is written more than once"
            dn = new_nodes.get((dest[3] if len(dest) > 3 else "").split("@")[0]) or {}
            mm = re.search(r"<(\w+)>$", dn.get("ty") or "")
            capname = mm.group(1) if mm else None
            src = e.args[1]
        if capname is None or not capname[0].isupper():
            return None, "the capacity of the destination is not a const parameter"
        cap_terms = [(k, fn["path"] + "::" + capname) for k in ("path", "const")]
        if not (src[0] == "proj" and src[2] == S.OK and src[1][0] == "call" and src[1][1] == BYTES and len(src[1][2]) == 2):
            return None, "the source is not u.bytes(X)?"
        X = src[1][2][1]
        ok = X in cap_terms or (X[0] == "call" and X[1].split("::")[-1] == "min" and len(X[2]) == 2 and (X[2][0] in cap_terms or X[2][1] in cap_terms))
        for a in p.atoms[:e.natoms]:
            if a[0] == "true" and a[1][0] == "bin":
                op, l, r, pol = a[1][1], a[1][2], a[1][3], a[2]
                if (op == "<=" and l == X and r in cap_terms and pol) or (op == "<" and l in cap_terms and r == X and not pol):
                    ok = True
        if not ok:
            return None, "u.bytes(%s) is appended to a container of capacity %s without %s <= %s being known on the path" % (S.show(X)[:40], capname, S.show(X)[:30], capname)
        caps.add(capname)
    return "fits-paths", "on all %d paths the bytes drawn number at most the capacity %s" % (len(evs), sorted(caps)[0])


def sym_bytes_k_rule(F, fn, node):
    """unwrap of `<slice>.try_into()` to `&[u8; K]`, on the path summaries: on every path that reaches it the slice is the Ok value
    of `u.bytes(K)` with the same K (a literal, a named constant or the const parameter) -- arbitrary's bytes(K) returns exactly K
    bytes.  (rule, detail) | (None, why) | (None, None) = not this shape"""
    from . import sym as S
    recv = H.strip(node["recv"])
    if recv.get("k") not in ("call", "mcall") or recv.get("callee") != TRY_INTO:
        return None, None
    kk = array_len((recv.get("targs") or ["", ""])[1])
    if not kk:
        return None, None
    try:
        sy = S.Sym(F, fn, is_effect=lambda c, a, n, st: n is recv, inline=lambda path, n: False)
        paths = sy.run()
    except S.TooManyPaths:
        return None, "too many paths"
    evs = [(p, e) for p in paths for e in p.effects if e.node is recv]
    if not evs:
        return None, "the conversion is not reached on the path summaries"
    for p, e in evs:
        src = e.args[0]
        if not (src[0] == "proj" and src[2] == S.OK and src[1][0] == "call" and src[1][1] == BYTES and len(src[1][2]) == 2):
            return None, "the converted slice is not the Ok value of u.bytes(K)"
        K = src[1][2][1]
        same = (K[0] == "lit" and str(K[1]) == kk) or (K[0] in ("path", "const") and K[1].split("::")[-1] == kk)
        if not same:
            return None, "u.bytes(%s) is converted to an array of %s bytes" % (S.show(K)[:30], kk)
    return "bytes-K-paths", "on all %d paths the slice converted to &[u8; %s] is the Ok value of u.bytes(%s)" % (len(evs), kk, kk)


def sym_prefix_rule(F, fn):
    """function-level rule for a text generator (arbitrary_str and refactorings of it), on its path summaries:
    on every path the operations on `u` are, in this order, usize::arbitrary(u), u.peek_bytes(n), [u.bytes(m)] with
    n = min(<that usize>, CAP) for CAP a const generic parameter; F = from_utf8(<the peeked bytes>);
    m = n on a path where F is Ok, m = valid_up_to(<F's error>) on a path where F is Err;
    from_utf8_unchecked is applied only to the bytes returned by that u.bytes(m) (the prefix from_utf8 accepted);
    a text converted into String<CAP> is F's Ok value or that unchecked prefix (at most n <= CAP bytes).
    Returns (cap name, reason) when it holds, (None, why) otherwise."""
    from . import sym as S
    names = [n for p in fn["params"] for n, _ in H.pat_bindings(p)]
    if "u" not in names:
        return None, "no parameter u"
    U = ("param", "u")
    sy = S.Sym(F, fn, is_effect=lambda callee, args, node, st: bool(args) and args[0] == U)
    try:
        paths = sy.run()
    except S.TooManyPaths:
        return None, "too many paths"
    cap = None
    for p in paths:
        effs = list(p.effects)
        if not effs:
            continue
        if not (effs[0].tcallee == ARB and (effs[0].node.get("targs") or [""])[0] == "usize"):
            return None, "the first use of u is not usize::arbitrary(u)"
        a0 = effs[0]
        if len(effs) == 1:
            continue
        pk = effs[1]
        if pk.callee != PEEK or len(effs) > 3:
            return None, "u is used by %s between the length draw and the peek / more than once afterwards" % [S.short_fn(e.callee) for e in effs[1:]]
        n = pk.args[1]
        if not (n[0] == "call" and n[1].endswith("::min") and "Ord" in n[1] and len(n[2]) == 2 and n[2][0] == sy.proj(a0.term, S.OK, 0) and n[2][1][0] in ("path", "const")):
            return None, "the peeked length %s is not min(<drawn usize>, CAP)" % S.show(n)[:60]
        c = n[2][1][1].split("::")[-1]
        if cap is not None and cap != c:
            return None, "two different capacities"
        cap = c
        peeked = sy.proj(pk.term, S.SOME, 0)
        # from_utf8 over the peeked bytes
        fterms = {x for a in p.atoms for x in S.subterms(a[1]) if x[0] == "call" and x[1] == "core::str::converts::from_utf8"}
        if p.result is not None:
            fterms |= {x for x in S.subterms(p.result) if x[0] == "call" and x[1] == "core::str::converts::from_utf8"}
        for ft in fterms:
            if ft[2] != (peeked,):
                return None, "from_utf8 is applied to %s, not to the peeked bytes" % S.show(ft[2][0])[:60]
        Ft = next(iter(fterms)) if len(fterms) == 1 else None
        allowed_texts = set()
        if Ft is not None and sy.lookup(p, Ft) == S.OK:
            allowed_texts.add(sy.proj(Ft, S.OK, 0))
        if len(effs) == 3:
            by = effs[2]
            if by.callee != BYTES:
                return None, "after the peek u is used by %s" % S.short_fn(by.callee)
            m = by.args[1]
            fk = sy.lookup(p, Ft) if Ft is not None else None
            ok = (fk == S.OK and m == n) or (fk == S.ERR and m == ("call", "core::str::error::Utf8Error::valid_up_to", (sy.proj(Ft, S.ERR, 0),), m[3] if len(m) > 3 else None))
            if not ok:
                return None, "u.bytes(%s) does not take exactly the well-formed prefix (from_utf8 is %s on this path)" % (S.show(m)[:60], S.short(fk) if fk else "not consulted")
            prefix = sy.proj(by.term, S.OK, 0)
            allowed_unchecked = {prefix}
        else:
            allowed_unchecked = set()
        # every from_utf8_unchecked / conversion into String<CAP> on this path
        terms = [x for a in p.atoms for x in S.subterms(a[1])] + ([x for x in S.subterms(p.result)] if p.result is not None else [])
        for x in terms:
            if x[0] == "call" and x[1] == "core::str::converts::from_utf8_unchecked":
                if x[2][0] not in allowed_unchecked:
                    return None, "from_utf8_unchecked is applied to %s, not to the prefix from_utf8 accepted" % S.show(x[2][0])[:60]
                allowed_texts.add(x)
        for x in terms:
            if x[0] == "call" and (x[1].endswith("::try_into") or x[1].endswith("::try_from") or "From<&" in x[1]) and len(x[2]) == 1:
                src = x[2][0]
                if src[0] == "call" and src[1] == "core::str::converts::from_utf8_unchecked" or src in allowed_texts or (src[0] == "proj" and src[1][0] == "call" and src[1][1] == "core::str::converts::from_utf8"):
                    if src not in allowed_texts:
                        return None, "a text that is not bounded by the capacity is converted into a String: %s" % S.show(src)[:60]
    if cap is None:
        return None, "no path peeks at u"
    return cap, "every path draws n = min(_, %s), peeks n bytes, and keeps exactly the prefix from_utf8 accepts (<= n <= %s bytes)" % (cap, cap)


def discharge_enum_select(fn):
    """derive(Arbitrary) variant selection: every `match (u64::from(<u32>) * N) >> 32` has arms 0..N-1 + `_ => unreachable!()`"""
    found = 0
    for x in H.walk(fn["body"]):
        if x.get("k") != "match":
            continue
        sc = H.strip(x["scrut"])
        if not (sc.get("k") == "binary" and sc["op"] == ">>" and H.lit(sc["r"]) == 32):
            continue
        mul = H.strip(sc["l"])
        if not (mul.get("k") == "binary" and mul["op"] == "*" and mul.get("ty") == "u64"):
            return False, "selector is not a u64 product"
        a, b = H.strip(mul["l"]), H.strip(mul["r"])
        n = H.lit(b)
        src = a
        if not (isinstance(n, int) and src.get("callee") == "core::convert::From::from" and (src.get("targs") or [])[:2] == ["u64", "u32"]):
            return False, "selector is not u64::from(u32) * N"
        lits = []
        wild = None
        for arm in x["arms"]:
            p = arm["pat"]
            if H.pat_is_catchall(p):
                wild = arm
            elif p.get("k") == "expr" and p["e"].get("k") == "lit":
                lits.append(p["e"]["v"])
        if sorted(lits) != list(range(n)) or wild is None:
            return False, "arms %s do not cover 0..%d" % (sorted(lits), n)
        found += 1
    return found > 0, "no variant selector found"


def run(ctx):
    ctx.explanation = ("Obligation list from the monomorphic call graph rooted at the three derived Arbitrary impls (all features + arbitrary): every unwrap, unsafe call, pointer cast, raw "
                       "dereference, overflow/pointer assert and panic in reachable /repo instances; each discharged by a template over typed HIR slots (lengths vs capacities, dataflow on `u`, "
                       "repr(transparent) of the cast target, who-may-call for the lifetime-unconstrained helper, arm coverage of the derived selector).")
    ctx.rule = "obligation = MIR event in a reachable /repo instance (per monomorphic instance); distinct by (function, construct)"
    ctx.trusted = ["arbitrary 1.4.2: Unstructured::bytes(n) returns exactly n bytes or Err, peek_bytes does not consume, arbitrary_loop honours max, int_in_range(a..=b) returns a value in a..=b, choose_index(len) returns an index below len (Err for len == 0), derive(Arbitrary) expansion",
                   "heapless 0.7.17 / heapless-bytes 0.3.0 capacity checks", "serde_bytes 0.11.19 ByteArray layout (repr read from its ADT)"]
    # "dispatched without fault" with logging compiled in as well: the log statements of the two dispatchers have total arguments
    from . import logargs
    logargs.check(ctx, "C19", roots=["ctap2::Authenticator::call_ctap2", "ctap1::Authenticator::call_ctap1"], min_statements=2)
    for cfg, F in ctx.facts.items():
        roots = [r for r in F.mono["roots"] if "inst" in r and r["spec"].endswith("::arbitrary") and "impl arbitrary::Arbitrary<" in r["spec"]
                 and any((" for " + t) in r["spec"] for t in ROOT_TYPES)]
        ctx.floor("arbitrary roots", len(roots), 3, cfg=cfg)
        seen_ob = set()
        ordinal = {}
        helpers = set()
        n_ob = 0
        caches = {}
        sym_cache = {}
        for r in roots:
            R = Reach(F, r["inst"])
            for inst in R.local:
                hf = hir_fn_for(F, inst)
                if hf is not None and (hf.get("sp") or "").startswith("src/arbitrary.rs"):
                    helpers.add(hf["path"])
            for inst, ev, kind in R.obligations():
                ob_id = (inst["name"], ev.get("sp"), kind, ev.get("kind"), str(ev.get("from", {}).get("s")), str(ev.get("to", {}).get("s")))
                if ob_id in seen_ob:
                    continue
                seen_ob.add(ob_id)
                n_ob += 1
                fn = hir_fn_for(F, inst)
                short = re.sub(r"<'_, ", "<", inst["name"])[:90]
                ordinal[(short, kind)] = ordinal.get((short, kind), 0) + 1
                key = "C19|obligation|%s|%s|#%d" % (short, kind, ordinal[(short, kind)])
                if fn is None:
                    ctx.oblige(key, False, "cannot locate the body of %s" % inst["name"], cfg=cfg)
                    continue
                if fn["id"] not in caches:
                    caches[fn["id"]] = (Analysis(fn), parent_map(fn["body"]))
                A, pm = caches[fn["id"]]
                rule = detail = None
                derived = "derive:arbitrary::Arbitrary" in (inst.get("pv") or "") or "derive:arbitrary::Arbitrary" in (ev.get("pv") or "")
                if derived and (kind in ("assert:overflow:Mul", "assert:overflow:Shr") or kind == "call:core::panicking::panic"):
                    ok, why = discharge_enum_select(fn)
                    rule, detail = ("enum-select", "u32 * N fits u64, shift 32 < 64, result < N, all arms present") if ok else (None, why)
                elif kind == "thread_local" and derived:
                    rule, detail = "derive-recursion-guard", "arbitrary's with_recursive_count thread-local counter"
                elif kind == "call:" + UNWRAP:
                    nodes = [x for x in node_at(fn, ev["sp"]) if x.get("k") == "mcall" and x.get("callee") == UNWRAP]
                    if len(nodes) == 1:
                        rule, detail = discharge_unwrap(F, fn, A, pm, nodes[0], inst)
                    else:
                        detail = "cannot locate the unwrap in typed HIR"
                elif kind.startswith("dep-api:") and "heapless::string::String<N> as core::convert::From<&'a str>" in kind:
                    # `s.try_into().unwrap()` lands on heapless' panicking String::from(&str): safe iff len(s) <= N (str-cap)
                    nodes = [x for x in node_at(fn, ev["sp"]) if x.get("k") in ("mcall", "call") and x.get("callee") == TRY_INTO]
                    if len(nodes) == 1:
                        par = pm.get(id(nodes[0]))
                        if par is not None and par.get("callee") == UNWRAP:
                            rule, detail = discharge_unwrap(F, fn, A, pm, par, inst)
                        else:
                            detail = "the conversion is not followed by unwrap in the recognised template"
                    else:
                        detail = "cannot locate the conversion in typed HIR"
                elif kind == "call:core::str::converts::from_utf8_unchecked":
                    nodes = [x for x in node_at(fn, ev["sp"]) if x.get("callee") == "core::str::converts::from_utf8_unchecked"]
                    if len(nodes) == 1:
                        rule, detail = utf8_prefix(fn, A, nodes[0])
                elif inst["def"] == "arbitrary::arbitrary_byte_array" and (kind.startswith("cast:") or kind in ("rawderef", "assert:misaligned", "assert:null_deref", "call:core::ptr::from_ref", "call:core::ptr::const_ptr::<impl *const T>::cast")):
                    rule, detail = transparent_cast(F, fn, A, ev, kind)
                if rule is None and kind == "call:" + UNWRAP:
                    nodes = [x for x in node_at(fn, ev["sp"]) if x.get("k") == "mcall" and x.get("callee") == UNWRAP]
                    if len(nodes) == 1:
                        for fallback in (sym_fits_rule, sym_bytes_k_rule):
                            r2, d2 = fallback(F, fn, nodes[0])
                            if r2 is not None:
                                rule, detail = r2, d2
                                break
                            elif d2 is not None:
                                detail = "%s; on the path summaries: %s" % (detail, d2)
                if rule is None and (kind == "call:" + UNWRAP or kind == "call:core::str::converts::from_utf8_unchecked" or (kind.startswith("dep-api:") and "heapless::string::String<N> as core::convert::From<&'a str>" in kind)):
                    # other spellings of the same generator: decided on the path summaries of the whole function
                    if fn["id"] not in sym_cache:
                        sym_cache[fn["id"]] = sym_prefix_rule(F, fn)
                    cap_, why_ = sym_cache[fn["id"]]
                    if cap_ is not None:
                        # the String capacity of this instance must be the clamp
                        tgt_ok = True
                        if kind != "call:core::str::converts::from_utf8_unchecked":
                            outty = fn.get("output") or ""
                            tgt_ok = ("String<%s>" % cap_) in outty
                        if tgt_ok:
                            rule, detail = "prefix-paths", why_
                    elif detail is not None:
                        detail = "%s; on the path summaries: %s" % (detail, why_)
                if rule is None and detail is None:
                    from . import oblig_rules as ORg
                    rule, detail = ORg.discharge(F, inst, ev, kind)
                ctx.oblige(key, rule is not None, "undischarged obligation in generated-input code: %s in %s (%s): %s; path %s" % (kind, inst["name"][:80], ev.get("sp"), detail, " -> ".join(R.path_to(inst["i"])[-3:])),
                           cfg=cfg, where=ev.get("sp"))
                if rule:
                    ctx.sample({"obligation": kind, "in": short, "rule": rule, "detail": detail}, limit=30)
        ctx.extra["obligations_found"] = n_ob
        if ctx.tier == "thorough":
            from .clippyxref import cross_reference
            cross_reference(ctx, [o[1] for o in seen_ob], files=["src/arbitrary.rs"])
        # "the value can be formatted, cloned, compared ... without fault": no panic-capable construct in the /repo instances
        # reachable from the derived Debug / Clone / PartialEq of the three request types (dispatching is C10)
        from . import oblig_rules as OR
        n_aux = 0
        for ty in ("ctap1::Request<'a>", "ctap2::Request<'a>", "authenticator::Request<'a>"):
            for tr, m in (("core::fmt::Debug", "fmt"), ("core::clone::Clone", "clone"), ("core::cmp::PartialEq", "eq")):
                spec = "<%s as %s>::%s" % (ty, tr, m)
                if F.mono_root(spec) is None:
                    ctx.oblige("C19|use|root|" + spec, False, "anchor missing: %s (the generated value can no longer be %s)" % (spec, m), cfg=cfg)
                    continue
                n_aux += 1
                OR.check_root(ctx, F, cfg, "C19|use", spec, what="while using a generated request")
        ctx.floor("Debug/Clone/PartialEq roots of the request types", n_aux, 9, cfg=cfg)
        # ".. dispatched without fault": no path of the two dispatchers ends in a panic (handlers are the authenticator's)
        from . import sym as S
        for dpath in ("ctap2::Authenticator::call_ctap2", "ctap1::Authenticator::call_ctap1"):
            dfn = F.fn(dpath)
            if not ctx.oblige("C19|use|dispatch|anchor|" + dpath, dfn is not None, "anchor missing: " + dpath, cfg=cfg, nontrivial=False):
                continue
            try:
                dps = S.Sym(F, dfn, inline=lambda path, node: not path.endswith(("::call_ctap2", "::call_ctap1")) and F.fn(path) is not None and (F.fn(path).get("pv") or "user") == "user" and "::Authenticator::" not in path).run()
            except S.TooManyPaths:
                dps = None
            pan = [p for p in (dps or []) if p.done and p.done[0] == "panic"]
            ctx.oblige("C19|use|dispatch|no-panic|" + dpath, dps is not None and not pan,
                       "dispatching a generated request can panic in %s: %s when %s" % (dpath, (pan[0].done[1:] if pan else "?"), [S.show_atom(a) for a in pan[0].atoms][-2:] if pan else ""), cfg=cfg, where=dfn["sp"])
        # no hand-written generator code in src/arbitrary.rs escapes the analysis: every function of the file that draws from an
        # Unstructured is reached from the three roots (size_hint and the like produce no value)
        want_helpers = {f["path"] for f in F.fns if (f.get("sp") or "").startswith("src/arbitrary.rs") and (f.get("pv") or "user") == "user" and f.get("parent_fn") is None and f.get("body") is not None
                        and any("Unstructured<" in (t or "") for t in (f.get("inputs") or []))}
        ctx.oblige("C19|helpers", want_helpers <= helpers, "functions of src/arbitrary.rs not reachable from the roots: %s" % sorted(want_helpers - helpers), cfg=cfg, nontrivial=False)
        ctx.floor("hand-written functions of src/arbitrary.rs reached from the roots", len(want_helpers & helpers), 3, cfg=cfg)
        # who-may-call for the lifetime-unconstrained helper
        refs = []
        for f in F.fns:
            for x in H.walk(f["body"]):
                if x.get("k") == "path" and x["res"].get("path") == "arbitrary::arbitrary_byte_array":
                    refs.append((f, x))
        good = len(refs) == 1 and refs[0][0]["path"].endswith("ctap2::credential_management::SubcommandParameters<'a>>::arbitrary")
        if good:
            f, x = refs[0]
            pmf = parent_map(f["body"])
            call = pmf.get(id(x))
            while call is not None and call.get("k") not in ("call", "mcall"):
                call = pmf.get(id(call))
            good = call is not None and call.get("callee") == "arbitrary::arbitrary_option" and H.local_name(call["args"][0]) == "u"
            if good:
                # the result flows (through `?`) into the field rp_id_hash of Self, whose type carries the Unstructured lifetime
                Af = Analysis(f)
                site = [s for s in Af.sites if s.wrappers == ["core::result::Result::Ok"]]
                good = len(site) == 1 and H.strip_block(site[0].node).get("k") == "struct"
                if good:
                    fl = {z["name"]: z["e"] for z in H.strip_block(site[0].node)["fields"]}
                    v = Af.subst(fl.get("rp_id_hash", {}))
                    good = v.get("k") == "try" and H.strip(v["e"]) is call and f["inputs"] == ["&mut arbitrary::unstructured::Unstructured<'a>"]
        ctx.oblige("C19|byte-array|single-audited-caller", good,
                   "arbitrary_byte_array returns a reference with an unconstrained lifetime; its only audited use is SubcommandParameters::arbitrary storing it in a field bound to the Unstructured lifetime — found %d reference(s): %s" % (len(refs), [f["path"][-60:] for f, _ in refs]), cfg=cfg)


def utf8_prefix(fn, A, node):
    """from_utf8_unchecked(valid): valid = u.bytes(i)?, i = e.valid_up_to(), e = error of from_utf8(u.peek_bytes(n)...),
    and on the path no other use of u lies between the peek and the bytes"""
    v = untry(A.subst(H.call_args(node)[0]))
    if v is None or v.get("callee") != BYTES:
        return None, "argument is not u.bytes(..)?"
    u_id = H.local_id(v["recv"])
    i_ = A.subst(v["args"][0])
    if i_.get("callee") != "core::str::error::Utf8Error::valid_up_to":
        return None, "length is not e.valid_up_to()"
    e_id = H.local_id(i_["recv"])
    for x in H.walk(fn["body"]):
        if x.get("k") != "match":
            continue
        sc = H.strip(x["scrut"])
        if sc.get("callee") != "core::str::converts::from_utf8":
            continue
        pk = untry(H.call_args(sc)[0])
        if pk is not None and pk.get("callee") == "core::option::Option::<T>::ok_or":
            pk = H.strip(pk["recv"])
        if pk is None or pk.get("callee") != PEEK or H.local_id(pk["recv"]) != u_id:
            continue
        for arm in x["arms"]:
            if H.pat_ctor(arm["pat"]) == "core::result::Result::Err" and e_id in [i for _, i in H.pat_bindings(arm["pat"])]:
                uses = [y for y in H.walk(arm["body"]) if y.get("k") in ("mcall", "call") and any(H.local_id(a) == u_id for a in H.call_args(y))]
                if len(uses) == 1 and uses[0] is v and any(y is node for y in H.walk(arm["body"])):
                    return "utf8-prefix", "the unchecked text is the valid_up_to() prefix of the bytes just validated (same Unstructured, no consumption in between)"
                return None, "the Unstructured is used %d times between the validation and the unchecked conversion" % len(uses)
    return None, "no from_utf8 over peek_bytes of the same Unstructured found"


def byte_array_source(F, fn):
    """None when, on every path of `fn` that returns Ok(r), r is (a pointer-cast view of) the bytes handed out by u.bytes(..);
    otherwise what it is instead"""
    from . import sym as S
    cache = F.__dict__.setdefault("_byte_array_source", {})
    if fn["id"] in cache:
        return cache[fn["id"]]
    why = None
    try:
        paths = S.Sym(F, fn).run(split_result=True)
    except S.TooManyPaths:
        paths = None
        why = "too many paths"
    n_ok = 0
    for p in paths or []:
        if p.done and p.done[0] == "panic":
            continue
        r = p.result
        if r is None or r[0] != "ctor" or r[1] != S.OK or len(r[2]) != 1:
            continue
        n_ok += 1
        t = r[2][0]
        for _ in range(12):
            if t[0] == "cast":
                t = t[1]
            elif t[0] == "call" and t[1] in ("core::ptr::from_ref", "core::ptr::const_ptr::<impl *const T>::cast") and t[2]:
                t = t[2][0]
            elif t[0] == "proj" and t[2] == S.OK and t[1][0] == "call" and (t[1][1] == TRY_INTO or t[1][1].endswith("::try_into") or "TryFrom<&" in t[1][1]) and len(t[1][2]) == 1:
                t = t[1][2][0]
            else:
                break
        if not (t[0] == "proj" and t[2] == S.OK and t[1][0] == "call" and t[1][1] == BYTES):
            why = "the returned reference is %s on a path, not the bytes handed out by u.bytes(..): its lifetime is not tied to the input" % S.show(t)[:80]
            break
    if why is None and n_ok == 0:
        why = "no path returns a reference"
    cache[fn["id"]] = why
    return why


def _re_ref_array(ty):
    return re.match(r"^&(?:'\w+ )?\[u8; N\]$", ty or "") is not None


def transparent_cast(F, fn, A, ev, kind):
    """&*(bytes as *const [u8; N] as *const ByteArray<N>)"""
    ba = F.adt("serde_bytes::bytearray::ByteArray")
    if ba is None:
        return None, "serde_bytes::ByteArray ADT not available"
    fields = ba["variants"][0]["fields"]
    transparent = ba["repr"].get("transparent") and len(fields) == 1 and fields[0]["ty"]["s"] == "[u8; N]"
    if not transparent:
        return None, "ByteArray<N> is not repr(transparent) over [u8; N] (repr=%s, fields=%s)" % (ba["repr"], [f["ty"]["s"] for f in fields])
    PTR_CAST = "core::ptr::const_ptr::<impl *const T>::cast"
    FROM_REF = "core::ptr::from_ref"
    steps_all = [x for x in H.walk(fn["body"]) if x.get("k") == "cast" or x.get("callee") in (PTR_CAST, FROM_REF)]
    derefs = [x for x in H.walk(fn["body"]) if x.get("k") == "unary" and x["op"] == "deref" and (x["e"].get("ty") or "").startswith("*")]
    if len(derefs) != 1:
        return None, "expected exactly one raw dereference, found %d" % len(derefs)
    # the pointer chain under the dereference, outermost first: `as` casts, ptr::from_ref(..), <*const T>::cast::<U>()
    chain = []
    cur = H.strip(A.subst(derefs[0]["e"]))
    for _ in range(6):
        if cur.get("k") == "cast":
            chain.append((cur.get("from"), cur.get("ty"), cur))
            cur = H.strip(A.subst(cur["e"]))
        elif cur.get("callee") == PTR_CAST and cur.get("k") == "mcall":
            chain.append(((cur["recv"].get("ty") or H.strip(A.subst(cur["recv"])).get("ty")), cur.get("ty"), cur))
            cur = H.strip(A.subst(cur["recv"]))
        elif cur.get("callee") == FROM_REF and H.call_args(cur):
            arg = H.strip(A.subst(H.call_args(cur)[0]))
            chain.append((H.call_args(cur)[0].get("ty") or arg.get("ty"), cur.get("ty"), cur))
            cur = arg
        else:
            break
    tys = [(f, t) for f, t, _ in reversed(chain)]
    ok = len(chain) == 2 and len(steps_all) == 2 and tys == [("&[u8; N]", "*const [u8; N]"), ("*const [u8; N]", "*const serde_bytes::bytearray::ByteArray<N>")]
    if not ok and len(chain) == 1 and len(steps_all) == 1 and tys == [("*const [u8; N]", "*const serde_bytes::bytearray::ByteArray<N>")]:
        # the reference-to-pointer step written as a coercion: `let p: *const [u8; N] = <expression of type &[u8; N]>;`
        src_ty = (cur.get("ty") or "")
        ok = _re_ref_array(src_ty) and (cur.get("ty_adj") or "") == "*const [u8; N]"
        if not ok and cur.get("k") == "try" and src_ty == "*const [u8; N]":
            # `<Result<&[u8; N], _>>?` coerced in the arms of the desugared match
            inner_ty = (cur["e"].get("ty") or "")
            m = re.match(r"^core::result::Result<(&(?:'\w+ )?\[u8; N\]), ", inner_ty)
            ok = m is not None
    if not ok:
        return None, "pointer chain is %s (and %d cast-like expressions in the function); expected &[u8; N] -> *const [u8; N] -> *const ByteArray<N>" % (tys, len(steps_all))
    # the reference that is returned carries a lifetime the signature does not tie to anything: on every path it must point into the
    # Unstructured's own data (the Ok value of u.bytes(..)), never at a local
    why = byte_array_source(F, fn)
    if why:
        return None, why
    if kind.startswith("cast:"):
        f, t = ev["from"]["s"], ev["to"]["s"]
        allowed = [("*const [u8; 32]", "*const serde_bytes::bytearray::ByteArray<32>"), ("*const serde_bytes::bytearray::ByteArray<32>", "*const ()"), ("*const ()", "usize")]
        gen = re.sub(r"\d+", "N", f), re.sub(r"\d+", "N", t)
        if gen not in [(re.sub(r"\d+", "N", a), re.sub(r"\d+", "N", b)) for a, b in allowed]:
            return None, "unexpected pointer cast %s -> %s" % (f, t)
    return "transparent", "reference to [u8; N] reinterpreted as repr(transparent) ByteArray<N>: same size, align 1, non-null"
