"""Obligation generation from the monomorphic call graph (rule kind B): every panic-capable,
unsafe or non-deterministic construct in the /repo function instances reachable from a root."""
import re

from . import hirq as H

# callee def paths (prefix match) whose contract is "panics / UB if a precondition is violated"
DENY_PREFIX = (
    "core::result::Result::<T, E>::into_ok",
    "core::ops::index::Index::index", "core::ops::index::IndexMut::index_mut",
    "core::slice::<impl [T]>::copy_from_slice", "core::slice::<impl [T]>::clone_from_slice", "core::slice::<impl [T]>::split_at",
    "core::slice::<impl [T]>::swap", "core::slice::<impl [T]>::chunks", "core::slice::<impl [T]>::windows", "core::slice::<impl [T]>::rotate",
    "core::slice::<impl [T]>::copy_within", "core::slice::<impl [T]>::first_chunk", "core::slice::<impl [T]>::as_chunks",
    "core::str::<impl str>::split_at", "core::str::<impl str>::from_utf8_unchecked", "core::str::converts::from_utf8_unchecked",
    "core::panicking::", "core::panic::", "std::panicking::", "std::rt::", "core::hint::unreachable_unchecked", "core::hint::assert_unchecked",
    "core::mem::transmute", "core::mem::zeroed", "core::mem::uninitialized", "core::ptr::", "core::slice::from_raw_parts", "core::slice::raw::",
    "core::cell::RefCell::<T>::borrow", "core::char::from_u32_unchecked", "core::num::<impl", "std::process::", "std::thread::",
    "heapless::vec::Vec::<T, N>::insert", "heapless::vec::Vec::<T, N>::remove", "heapless::vec::Vec::<T, N>::swap_remove", "heapless::vec::Vec::<T, N>::push_unchecked",
    "heapless::vec::Vec::<T, N>::pop_unchecked", "heapless::vec::Vec::<T, N>::set_len", "heapless::string::String::<N>::remove",
    "core::iter::traits::collect::Extend::extend", "core::iter::traits::collect::FromIterator::from_iter", "core::iter::traits::iterator::Iterator::collect",
    "core::iter::traits::iterator::Iterator::step_by", "core::clone::Clone::clone_from",
    "core::convert::From::from",  # narrowed below: only the panicking heapless String/Vec From impls
)
# the unwrap family, matched exactly (unwrap_or / unwrap_or_default / unwrap_or_else do not panic)
DENY_EXACT = {
    "core::option::Option::<T>::unwrap", "core::option::Option::<T>::expect", "core::option::Option::<T>::unwrap_unchecked",
    "core::result::Result::<T, E>::unwrap", "core::result::Result::<T, E>::expect", "core::result::Result::<T, E>::unwrap_err",
    "core::result::Result::<T, E>::expect_err", "core::result::Result::<T, E>::unwrap_unchecked", "core::result::Result::<T, E>::unwrap_err_unchecked",
}
# `core::num::<impl uN>::` methods that cannot panic
NUM_SAFE = re.compile(r"^core::num::<impl [iu](8|16|32|64|128|size)>::(saturating_|wrapping_|checked_|overflowing_|to_[bln]e_bytes|from_[bln]e_bytes|min|max|leading_|trailing_|count_|is_power|swap_bytes|to_be|to_le|from_be|from_le|rotate_|reverse_bits|abs_diff|signum|is_positive|is_negative)")
BENIGN = {"core::fmt::Arguments::<'a>::new"}  # compiler-generated lowering of format_args!


def is_denied(ev):
    c = ev.get("callee") or ""
    if c in BENIGN:
        return False
    if ev.get("unsafe_fn") and not ev.get("intrinsic_safe"):
        return True
    if c == "core::convert::From::from":
        # heapless String::from(&str) / Vec::from_slice-like From impls panic on overflow
        at = " ".join(ev.get("arg_tys") or [])
        inst = ev.get("inst_name") or ""
        return "heapless::string::String" in inst or "heapless::vec::Vec" in inst
    if c.startswith("core::num::<impl"):
        if NUM_SAFE.match(c):
            return False
        # pow, abs, neg, div_euclid, rem_euclid, next_power_of_two, ilog ... can overflow-panic in debug builds
        return bool(re.match(r"^core::num::<impl [iu]\w+>::(pow|abs|div_euclid|rem_euclid|next_power_of_two|ilog|isqrt|strict_|unchecked_|div_ceil|next_multiple_of)", c))
    if c in DENY_EXACT:
        return True
    return any(c.startswith(p) for p in DENY_PREFIX if p not in ("core::convert::From::from", "core::num::<impl"))


# core's blanket conversion impls only forward to the user-chosen From/TryFrom impl
FORWARDERS = ("<T as core::convert::TryFrom<U>>::try_from", "<T as core::convert::Into<U>>::into",
              "<T as core::convert::TryInto<U>>::try_into", "<T as core::convert::From<T>>::from")
STD_CRATES = ("core", "std", "alloc")
# depth-2 summaries: a dependency function whose direct same-crate callee enters the panic machinery is
# contract-panicking too, except for the pairs below, each confirmed by reading the dependency source
DEP_GUARDED = {
    ("heapless::vec::Vec::<T, N>::push", "heapless::vec::Vec::<T, N>::push_unchecked"):
        "debug_assert!(!is_full()) in push_unchecked; push calls it only under `self.len < self.capacity()`",
    ("heapless::vec::Vec::<T, N>::extend_from_slice", "heapless::vec::Vec::<T, N>::push_unchecked"):
        "debug_assert!(!is_full()) in push_unchecked; extend_from_slice returns Err first when len + other.len() > capacity",
}


class Reach:
    def __init__(self, F, root_inst):
        self.F = F
        self.I = F.mono["instances"]
        self.root = root_inst
        self.seen, self.parent = F.reachable(root_inst)
        self.local = [self.I[k] for k in sorted(self.seen) if self.I[k]["local"]]

    def final_targets(self, ci):
        todo, final, seen = [ci], [], set()
        while todo:
            t = todo.pop()
            if t in seen:
                continue
            seen.add(t)
            if self.I[t]["def"] in FORWARDERS:
                todo.extend(c for c, h in self.I[t]["out"] if h == "call")
            else:
                final.append(t)
        return final

    def path_to(self, k, limit=12):
        out = []
        while k is not None and len(out) < limit:
            out.append(self.I[k]["name"][:100])
            k = self.parent.get(k)
        return list(reversed(out))

    def obligations(self):
        """[(instance, event, kind)] kind in assert / call / unsafe-call / rawderef / cast / asm / static / thread_local / indirect"""
        out = []
        for inst in self.local:
            for ev in inst.get("events", []):
                e = ev["e"]
                if e == "assert":
                    out.append((inst, ev, "assert:" + ev.get("kind", "?")))
                elif e == "call":
                    if ev.get("indirect"):
                        out.append((inst, ev, "indirect-call"))
                        continue
                    if ev.get("virtual"):
                        out.append((inst, ev, "virtual-call"))
                        continue
                    ci = ev.get("inst")
                    if ci is not None:
                        ev = dict(ev)
                        ev["inst_name"] = self.I[ci]["name"]
                    if is_denied(ev):
                        out.append((inst, ev, "call:" + (ev.get("callee") or "?")))
                    elif ci is not None:
                        # contract-panicking dependency API, computed: the dependency function the call
                        # lands on (through core's forwarding conversion impls) directly enters the panic machinery
                        for t in self.final_targets(ci):
                            ti = self.I[t]
                            if ti["local"] or ti["krate"] in STD_CRATES:
                                continue
                            pc = list(ti.get("panic_calls") or [])
                            via = None
                            if not pc:
                                # inlining bound 2: a direct callee in the same dependency crate
                                for c, h in ti["out"]:
                                    cc = self.I[c]
                                    if h == "call" and cc["krate"] == ti["krate"] and cc.get("panic_calls") and (ti["def"], cc["def"]) not in DEP_GUARDED:
                                        pc = list(cc["panic_calls"])
                                        via = cc["def"]
                                        break
                            if pc:
                                e2 = dict(ev)
                                e2["dep_api"] = ti["name"]
                                e2["dep_panics"] = pc
                                if via:
                                    e2["dep_via"] = via
                                out.append((inst, e2, "dep-api:" + ti["def"]))
                elif e in ("rawderef", "asm", "thread_local"):
                    out.append((inst, ev, e))
                elif e == "cast":
                    out.append((inst, ev, "cast:" + ev.get("kind", "?")))
                elif e == "static":
                    out.append((inst, ev, "static" + (":mut" if ev.get("mutable") else "")))
        return out

    def cycles_through_local(self):
        """strongly connected components (size > 1 or self-loop) that contain a local instance"""
        idx = {}
        low = {}
        on = set()
        st = []
        out = []
        counter = [0]
        import sys
        sys.setrecursionlimit(100000)
        nodes = self.seen

        def strong(v):
            work = [(v, iter([c for c, _ in self.I[v]["out"] if c in nodes]))]
            idx[v] = low[v] = counter[0]
            counter[0] += 1
            st.append(v)
            on.add(v)
            while work:
                node, it = work[-1]
                advanced = False
                for w in it:
                    if w not in idx:
                        idx[w] = low[w] = counter[0]
                        counter[0] += 1
                        st.append(w)
                        on.add(w)
                        work.append((w, iter([c for c, _ in self.I[w]["out"] if c in nodes])))
                        advanced = True
                        break
                    elif w in on:
                        low[node] = min(low[node], idx[w])
                if advanced:
                    continue
                work.pop()
                if work:
                    low[work[-1][0]] = min(low[work[-1][0]], low[node])
                if low[node] == idx[node]:
                    comp = []
                    while True:
                        w = st.pop()
                        on.discard(w)
                        comp.append(w)
                        if w == node:
                            break
                    selfloop = any(c == node for c, _ in self.I[node]["out"])
                    if len(comp) > 1 or selfloop:
                        if any(self.I[w]["local"] for w in comp):
                            out.append(comp)

        for v in nodes:
            if v not in idx:
                strong(v)
        return out


def hir_fn_for(F, inst):
    """the HIR function of a local instance (closures map to their parent function)"""
    d = inst["def"]
    base = re.sub(r"(::\{closure#\d+\})+$", "", d)
    l = F.fns_by_path.get(base, [])
    return l[0] if len(l) == 1 else None


def node_at(fn, sp):
    """HIR nodes of fn whose span equals sp"""
    return [x for x in H.walk(fn["body"]) if x.get("sp") == sp]


def _sp(sp):
    m = re.match(r"^(.*):(\d+):(\d+)-(\d+):(\d+)$", sp or "")
    if not m:
        return None
    return m.group(1), (int(m.group(2)), int(m.group(3))), (int(m.group(4)), int(m.group(5)))


def nodes_covering(fn, sp, kinds):
    """HIR nodes of the given kinds whose span contains sp, innermost first"""
    want = _sp(sp)
    if want is None:
        return []
    out = []
    for x in H.walk(fn["body"]):
        if x.get("k") not in kinds:
            continue
        have = _sp(x.get("sp"))
        if have and have[0] == want[0] and have[1] <= want[1] and want[2] <= have[2]:
            out.append(((have[2][0] - have[1][0], have[2][1] - have[1][1]), x))
    out.sort(key=lambda t: t[0])
    return [x for _, x in out]
