"""Code-side wire tables of a type in one configuration: what it decodes (key -> field,
required?, decoded type) and what it emits (key -> field, present-iff predicate, type)."""
import re

from . import hirq as H
from . import tables as T

UINTS = {"u8", "u16", "u32", "u64", "usize"}
INTS = {"i8", "i16", "i32", "i64", "isize"}


def erase_lt(s):
    s = re.sub(r"<'\w+>", "", s)
    s = re.sub(r"<'\w+, ", "<", s)
    s = re.sub(r"&'\w+ ", "&", s)
    return s


def split_args(s):
    """top-level comma split of a generic argument list"""
    out, depth, cur = [], 0, ""
    for ch in s:
        if ch in "<([":
            depth += 1
        elif ch in ">)]":
            depth -= 1
        if ch == "," and depth == 0:
            out.append(cur.strip())
            cur = ""
        else:
            cur += ch
    if cur.strip():
        out.append(cur.strip())
    return out


def unoption(ty):
    ty = erase_lt(ty or "")
    if ty.startswith("core::option::Option<") and ty.endswith(">"):
        return ty[len("core::option::Option<"):-1], True
    return ty, False


def shape(ty):
    """CBOR-level shape class of a (non-Option) Rust type string, capacities and widths erased"""
    ty = erase_lt(ty or "").strip()
    if ty.startswith("&"):
        ty = ty[1:].replace("mut ", "").strip()
    if ty in UINTS:
        return "uint"
    if ty in INTS:
        return "int"
    if ty == "bool":
        return "bool"
    if ty == "()":
        return "null"
    if ty == "str" or ty.startswith("heapless::string::String<"):
        return "text"
    if ty == "serde_bytes::bytes::Bytes" or ty.startswith("heapless_bytes::Bytes<") or ty.startswith("serde_bytes::bytearray::ByteArray<"):
        return "bytes"
    if ty.startswith("heapless::vec::Vec<") and ty.endswith(">"):
        args = split_args(ty[len("heapless::vec::Vec<"):-1])
        return "array:" + shape(args[0])
    if ty.startswith("core::option::Option<"):
        return "option:" + shape(unoption(ty)[0])
    return "type:" + ty


def capacity(ty):
    """static capacity facts of a type string: dict(kind, cap) for bounded containers / integer widths"""
    ty, _ = unoption(ty)
    ty = ty.strip()
    if ty.startswith("&"):
        ty = ty[1:].strip()
    m = re.match(r"^heapless::string::String<(\d+)>$", ty)
    if m:
        return {"kind": "text", "cap": int(m.group(1))}
    m = re.match(r"^heapless_bytes::Bytes<(\d+)>$", ty)
    if m:
        return {"kind": "bytes", "cap": int(m.group(1))}
    m = re.match(r"^serde_bytes::bytearray::ByteArray<(\d+)>$", ty)
    if m:
        return {"kind": "bytes_exact", "cap": int(m.group(1))}
    m = re.match(r"^\[u8; (\d+)\]$", ty)
    if m:
        return {"kind": "bytes_exact", "cap": int(m.group(1))}
    if ty.startswith("heapless::vec::Vec<") and ty.endswith(">"):
        args = split_args(ty[len("heapless::vec::Vec<"):-1])
        if len(args) == 2 and args[1].isdigit():
            return {"kind": "list", "cap": int(args[1]), "elem": args[0]}
    if ty in UINTS or ty in INTS:
        return {"kind": "int", "width": ty}
    if ty in ("str", "serde_bytes::bytes::Bytes"):
        return {"kind": "borrowed", "cap": None}
    return {"kind": "other", "ty": ty}


def field_types(F, path):
    fs = F.struct_fields(path)
    if fs is None:
        return None
    return {f["name"]: f["ty"]["s"] for f in fs}


def decode_table(F, path):
    """None if the type has no derive-generated map decoder; raises T.Unreadable on unknown shapes"""
    fn = T.de_impl(F, path)
    if fn is None:
        return None
    kind = T.impl_kind(fn)
    ftys = field_types(F, path) or {}
    if kind == "DeserializeIndexed":
        t = T.indexed_de_table(F, fn)
        members = []
        for e in t["entries"]:
            members.append({"field": e["field"], "key": e["key"], "aliases": [], "required": e["field"] in t["required"], "ty": erase_lt(e["ty"] or ""),
                            "shape": shape(e["ty"]), "with": None, "dup": e["dup"], "field_ty": erase_lt(ftys.get(e["field"], ""))})
        unbuilt = sorted(set(ftys) - set(t["fields_built"]))
        return {"kind": "indexed", "members": members, "unknown": "error" if t["catchall"] == "err" else t["catchall"], "fn": fn, "unbuilt": unbuilt,
                "entry": [x.get("callee") for x in H.walk(fn["body"]) if (x.get("callee") or "").startswith("serde_core::de::Deserializer::deserialize_")],
                "visit_map": t["visit_map"]}
    if kind == "Deserialize":
        try:
            t = T.text_de_table(F, fn)
        except T.Unreadable as e:
            if "not a derive(Deserialize) struct impl" in str(e):
                return None
            raise
        members = []
        for ident, mem in t["members"].items():
            keys = [k for k, v in t["names"].items() if v == ident]
            inner, is_opt = unoption(mem["ty"] or "")
            members.append({"field": mem["field"], "key": keys[0] if keys else None, "aliases": keys[1:], "required": T.member_required(mem),
                            "ty": erase_lt(mem["ty"] or ""), "shape": shape(inner), "with": mem["with"], "dup": mem["dup"], "missing": mem.get("missing"),
                            "field_ty": erase_lt(ftys.get(mem["field"], ""))})
        orphan_names = [k for k, v in t["names"].items() if v not in t["members"]]
        return {"kind": "text", "members": members, "unknown": t["unknown"], "ignore_consumes": t["ignore_consumes"], "entry": t["entry"], "fn": fn,
                "orphan_names": orphan_names, "unbuilt": sorted(set(ftys) - set(t["fields_built"])), "visit_map": t["visit_map"], "visit_str": t["visit_str"]}
    return None


def encode_table(F, path):
    fn = T.ser_impl(F, path)
    if fn is None:
        return None
    t = ser_table(F, fn)
    if t is None:
        return None
    ftys = field_types(F, path) or {}
    members = []
    for e in t["entries"]:
        fty = erase_lt(ftys.get(e["field"], ""))
        inner, is_opt = unoption(fty)
        g = e["guard"]
        members.append({"field": e["field"], "key": e["key"], "guard": g, "optional": g is not None, "field_ty": fty, "is_option": is_opt,
                        "shape": shape(inner), "node": e["node"]})
    return {"kind": t["kind"], "members": members, "header": t["header"], "fn": fn, "never": sorted(set(ftys) - {m["field"] for m in members}), "ended": t["ended"]}


def guard_ok(m):
    """presence predicate is `!Option::is_none(&self.<same field>)`"""
    g = m["guard"]
    return g is not None and g["pred"] == T.IS_NONE and g["field"] == m["field"] and g["emit_when_pred"] is False


def oracle_members(spec_type, features):
    return [m for m in spec_type["members"] if "feature" not in m or m["feature"] in features]


def reemitted_entry(F):
    """(ok, type literal, detail): From<KnownPublicKeyCredentialParameters> for PublicKeyCredentialParameters returns
    {alg: <the same alg>, key_type: String::from(<literal>)} on its only path (helpers expanded, named constants evaluated)"""
    from . import sym as S
    conv = F.trait_impl_fn("<webauthn::PublicKeyCredentialParameters as core::convert::From<webauthn::KnownPublicKeyCredentialParameters>>", "from")
    if conv is None:
        return False, None, "anchor missing: From<Known..> for PublicKeyCredentialParameters"
    names = [n for p in conv["params"] for n, _ in __import__("rules.hirq", fromlist=["x"]).pat_bindings(p)]
    try:
        paths = S.Sym(F, conv, is_effect=lambda callee, args, node, st: False).run()
    except S.TooManyPaths:
        return False, None, "too many paths"
    if len(paths) != 1 or paths[0].atoms or paths[0].done != ("ret", 0):
        return False, None, "%d paths" % len(paths)
    r = paths[0].result
    if not (r and r[0] == "struct" and r[1] == "webauthn::PublicKeyCredentialParameters"):
        return False, None, "returns %s" % S.show(r)[:80]
    f = dict(r[2])
    kt = f.get("key_type")
    lit = None
    if kt and kt[0] == "call" and "heapless::string::String<" in kt[1] and "From<&" in kt[1] and len(kt[2]) == 1 and kt[2][0][0] == "lit" and isinstance(kt[2][0][1], str):
        lit = kt[2][0][1]
    ok = f.get("alg") == ("field", ("param", names[0]), "alg") and lit is not None and set(f) == {"alg", "key_type"}
    return ok, lit, S.show(r)[:120]


def seq_emitter(F, fn):
    """summary of a hand-written sequence Serialize impl, from its path summaries:
         loop form:    H = s.serialize_seq(Some(C.len()))?; for e in C { H.serialize_element(V(e))? } H.end()
         collect form: s.collect_seq(C.iter().map(|e| V(e)))   (serde's provided method: header from the exact size hint of the
                       slice iterator, one element per item, end -- not overridden by cbor-smol)
       returns dict(ok, why, form, collection, elem (the per-item value term over the probe ('unk', -1, 'elem')), elem_ty)"""
    from . import sym as S
    from . import hirq as H
    SER_SEQ = "serde_core::ser::Serializer::serialize_seq"
    ELEM = "serde_core::ser::SerializeSeq::serialize_element"
    END = "serde_core::ser::SerializeSeq::end"
    COLLECT = "serde_core::ser::Serializer::collect_seq"
    NEXT = "core::iter::traits::iterator::Iterator::next"
    probe = ("unk", -1, "elem")

    def is_effect(callee, args, node, st):
        tc = node.get("callee") if isinstance(node, dict) else None
        return (tc or "").startswith("serde_core::ser::") or tc == NEXT

    sym = S.Sym(F, fn, is_effect=is_effect)
    try:
        paths = sym.run()
    except S.TooManyPaths:
        return {"ok": False, "why": "too many paths"}
    ser = ("param", [n for p in fn["params"] for n, _ in H.pat_bindings(p)][-1])

    flags = {}

    def strip_views(t):
        while True:
            if t[0] == "call" and len(t[2]) == 1 and t[1].split("::")[-1] in ("as_slice", "as_ref", "deref", "iter", "into_iter", "copied", "cloned", "by_ref", "enumerate"):
                if t[1].split("::")[-1] == "enumerate":
                    flags["enumerate"] = True
                t = t[2][0]
            elif t[0] in ("copy", "mutated"):
                t = t[1]        # the loop's iterator variable: a cursor over the collection
            else:
                return t

    effs = [e for p in paths for e in p.effects]
    if any(e.tcallee == COLLECT for e in effs):
        if len(paths) != 1 or len([e for e in paths[0].effects if e.tcallee.startswith("serde_core::ser::")]) != 1:
            return {"ok": False, "why": "collect_seq is not the only serializer call"}
        e = [x for x in paths[0].effects if x.tcallee == COLLECT][0]
        if e.args[0] != ser or paths[0].result != e.term:
            return {"ok": False, "why": "collect_seq is not called on the serializer / its result is not returned"}
        it = e.args[1]
        elem = probe
        if it[0] == "call" and it[1].endswith("Iterator::map") and len(it[2]) == 2 and it[2][1][0] == "closure":
            v = sym.apply_closure(it[2][1], [probe])
            if v is None:
                return {"ok": False, "why": "the mapping closure is not a plain expression"}
            elem = v
            it = it[2][0]
        elif it[0] == "call" and "Iterator::" in it[1] and it[1].split("::")[-1] not in ("iter", "into_iter", "copied", "cloned"):
            return {"ok": False, "why": "the iterator adaptor %s may change the number of items" % it[1].split("::")[-1]}
        return {"ok": True, "why": "", "form": "collect", "collection": strip_views(it), "elem": elem, "sym": sym}
    hdrs = {e.term: e for e in effs if e.tcallee == SER_SEQ}
    if len(hdrs) != 1:
        return {"ok": False, "why": "expected exactly one serialize_seq"}
    Hh = next(iter(hdrs.values()))
    n = Hh.args[1] if len(Hh.args) == 2 else None
    if not (Hh.args[0] == ser and n and n[0] == "ctor" and n[1] == S.SOME):
        return {"ok": False, "why": "sequence of indefinite length / not opened on the serializer"}
    ln = n[2][0]
    if not (ln[0] == "call" and ln[1].split("::")[-1] == "len" and len(ln[2]) == 1):
        return {"ok": False, "why": "announced length is %s, not <collection>.len()" % S.show(ln)[:60]}
    coll = strip_views(ln[2][0])
    Sq = sym.proj(Hh.term, S.OK, 0)
    elem_terms = set()
    for p in paths:
        if p.done and p.done[0] == "panic" or p.done == "diverge":
            return {"ok": False, "why": "can panic"}
        hk = sym.lookup(p, Hh.term)
        r = p.result
        if hk == S.ERR:
            continue
        nexts = [e for e in p.effects if e.tcallee == NEXT]
        elems = [e for e in p.effects if e.tcallee == ELEM]
        ends = [e for e in p.effects if e.tcallee == END]
        other = [e for e in p.effects if e.tcallee.startswith("serde_core::ser::") and e.tcallee not in (SER_SEQ, ELEM, END)]
        if other:
            return {"ok": False, "why": "other serializer calls: %s" % other[0].tcallee}
        if p.loops != 1 or len(nexts) != 1 or strip_views(nexts[0].args[0]) != coll:
            return {"ok": False, "why": "the loop iterates %s but the header announces %s.len()" % (S.show(strip_views(nexts[0].args[0]))[:40] if nexts else "nothing", S.show(coll)[:40])}
        nk = sym.lookup(p, nexts[0].term)
        failed = [e for e in elems if sym.lookup(p, e.term) == S.ERR]
        if failed:
            continue    # the whole serialisation fails
        if p.ret_loop_depth > 0:
            return {"ok": False, "why": "the loop can stop before all announced elements are emitted (return)"}
        if nk == S.NONE:
            if elems:
                return {"ok": False, "why": "an element is emitted although the iterator is exhausted"}
        elif nk == S.SOME:
            if any(t[0] == "break" for t in p.trace):
                return {"ok": False, "why": "the loop can stop before all announced elements are emitted (break)"}
            if len(elems) != 1 or elems[0].args[0] != Sq:
                return {"ok": False, "why": "an iteration emits %d elements on some path (e.g. a `continue` / conditional emission) while the header announces one per entry" % len(elems)}
            item = sym.proj(nexts[0].term, S.SOME, 0)
            if flags.get("enumerate"):
                item = sym.tproj(item, 1)       # (index, element) pairs of `.enumerate()`
            elem_terms.add(_subst(elems[0].args[1], item, probe))
        else:
            return {"ok": False, "why": "iterator outcome unknown on a path"}
        if len(ends) != 1 or ends[0].args != (Sq,) or S.root_of(r)[0] != ends[0].term and r != ends[0].term:
            return {"ok": False, "why": "the sequence is not ended exactly once and returned"}
    if len(elem_terms) != 1:
        return {"ok": False, "why": "%d different element expressions" % len(elem_terms)}
    return {"ok": True, "why": "", "form": "loop", "collection": coll, "elem": next(iter(elem_terms)), "sym": sym}


def _subst(t, old, new):
    if t == old:
        return new
    if not isinstance(t, tuple):
        return t
    return tuple(_subst(x, old, new) if isinstance(x, tuple) else x for x in t)


WANT_LEAVES = {
    ("type", "webauthn::Icon"): {"&str"},
    ("with", "webauthn::PublicKeyCredentialUserEntity", "icon"): {"&str"},
    ("with", "webauthn::PublicKeyCredentialUserEntity", "name"): {"core::option::Option<&str>"},
    ("with", "webauthn::PublicKeyCredentialUserEntity", "display_name"): {"core::option::Option<&str>"},
    ("with", "webauthn::PublicKeyCredentialRpEntity", "name"): {"core::option::Option<&str>"},
    ("type", "ctap2::AttestationFormatsPreference"): {"&str"},
    ("type", "webauthn::FilteredPublicKeyCredentialParameters"): {"webauthn::PublicKeyCredentialParameters"},
}


def table_enums(F):
    """{path: leaf type} of the crate's unit-only enums whose hand-written Deserialize impl is a total table: it reads one
    primitive of the enum's wire type (text for string enums, the #[repr] integer otherwise), reports a failed read, and
    otherwise decides on the value read alone (ftable.enum_decode)"""
    cached = getattr(F, "_table_enums", None)
    if cached is not None:
        return cached
    from . import ftable as FT
    import re as _re
    out = {}
    for a in F.adts.values():
        if not a["local"] or a["kind"] != "enum" or any(v["fields"] for v in a["variants"]):
            continue
        fns = F.impl_fn("serde_core::de::Deserialize", a["path"], "deserialize")
        if len(fns) != 1 or (fns[0].get("impl") or {}).get("impl_pv") != "user":
            continue
        m = _re.match(r"Fixed\(I(\d+), (true|false)\)", (a.get("repr") or {}).get("int") or "")
        rint = (("i" if m.group(2) == "true" else "u") + m.group(1)) if m else None
        try:
            if rint:
                ty, dec, _ = FT.enum_decode(F, a["path"], range(256) if rint == "u8" else [FT.OTHER], add_literals=(rint != "u8"))
                if ty != rint:
                    continue
            else:
                ty, dec, _ = FT.enum_decode(F, a["path"], [FT.OTHER], add_literals=True)
                if ty != "str":
                    continue
        except FT.Unreadable:
            continue
        out[a["path"]] = "&str" if ty == "str" else ty
    F._table_enums = out
    return out


def want_leaves(F):
    """the documented leaf types of the hand-written decoders, plus the wire type of every table enum"""
    w = dict(WANT_LEAVES)
    for path, ty in table_enums(F).items():
        w[("type", path)] = {ty}
    return w


def _split_generic(ty):
    from .sym import split_generic
    return split_generic(ty or "")


def handwritten_leaves(F):
    """{key: set of leaf types decoded by hand-written code}, key = ('type', T) for the Deserialize impl of T (its nested visitors
    included, whatever they are called), ('with', struct, field) for a `deserialize_with` function of a member, ('fn', path) for
    hand-written decoding code reachable from neither.  Helpers called by a decoder are attributed to it."""
    from . import hirq as H
    import re as _re
    own = {}
    calls = {}
    inst = {}
    for f in F.fns:
        if f["pv"] != "user":
            continue
        for x in H.walk(f["body"]):
            if x.get("pv") != "user":
                continue
            c = x.get("callee")
            ta = x.get("targs") or []
            t = None
            if c == "serde_core::de::Deserialize::deserialize" and ta:
                t = ta[0]
            elif c in ("serde_core::de::SeqAccess::next_element", "serde_core::de::MapAccess::next_value", "serde_core::de::MapAccess::next_key") and len(ta) > 1:
                t = ta[1]
            elif c in ("serde_core::de::MapAccess::next_entry",) and len(ta) > 2:
                t = ta[1] + " / " + ta[2]
            if t is not None:
                own.setdefault(f["path"], set()).add(erase_lt(t))
            tgt = x.get("resolved") or c
            if x.get("k") in ("call", "mcall") and tgt in F.fns_by_path and len(F.fns_by_path[tgt]) == 1 and F.fns_by_path[tgt][0]["pv"] == "user":
                calls.setdefault(f["path"], set()).add(tgt)
                # a generic helper decodes `T`: what T is at this call site
                gen = [g["name"] for g in (F.fns_by_path[tgt][0].get("generics") or []) if g.get("kind") != "lifetime"]
                if gen and len(gen) == len(ta):
                    inst.setdefault((f["path"], tgt), []).append(dict(zip(gen, ta)))
            if x.get("k") == "path" and x["res"].get("rk") in ("Fn", "AssocFn") and x["res"].get("path") in F.fns_by_path:
                calls.setdefault(f["path"], set()).add(x["res"]["path"])
            # a visitor type handed to deserialize_seq / deserialize_map ..: its visit_* methods belong to this decoder
            if x.get("k") in ("call", "mcall") and (c or "").startswith("serde_core::de::Deserializer::deserialize_"):
                for t in ta:
                    head, targs_t = _split_generic(t)
                    for g in F.fns:
                        im = g.get("impl") or {}
                        if im.get("trait") == "serde_core::de::Visitor" and g["name"].startswith("visit_") and (im["self_ty"].get("path") or im["self_ty"].get("s")) in (t, head):
                            calls.setdefault(f["path"], set()).add(g["path"])
                            # a generic visitor `impl<T, F> Visitor for V<T, F>` used as V<X, Y>: what its T is here
                            _h, margs = _split_generic(im["self_ty"].get("s") or "")
                            if margs and len(margs) == len(targs_t):
                                inst.setdefault((f["path"], g["path"]), []).append(dict(zip(margs, targs_t)))

    def closure(path):
        seen, todo = set(), [path]
        while todo:
            p = todo.pop()
            if p in seen:
                continue
            seen.add(p)
            todo.extend(calls.get(p, ()))
        return seen

    def leaves_of(path, depth=0):
        """leaf types decoded by `path` and the helpers it calls, a generic helper's type parameters replaced by the arguments of
        each call site"""
        out = set(own.get(path, set()))
        if depth > 4:
            return out
        for tgt in calls.get(path, ()):
            sub = leaves_of(tgt, depth + 1) if tgt != path else set()
            maps = inst.get((path, tgt))
            if maps:
                for mp in maps:
                    out |= {erase_lt(mp.get(t, t)) for t in sub}
            else:
                out |= sub
        return out

    def key_of(path):
        m = _re.match(r"^<+(.*?) as serde_core::de::Deserialize<'de>>", path)
        if m:
            return ("type", m.group(1))
        return None

    with_fns = {}
    for a in F.adts.values():
        if not a["local"] or a["kind"] != "struct":
            continue
        try:
            tab = decode_table(F, a["path"])
        except Exception:
            tab = None
        for mm in (tab or {"members": []})["members"]:
            if mm.get("with"):
                with_fns.setdefault(mm["with"]["fn"], []).append(("with", a["path"], mm["field"]))
    out = {}
    attributed = set()
    roots = {}
    for path in set(own) | set(calls):
        k = key_of(path)
        if k:
            roots.setdefault(k, set()).add(path)
    for fnp, keys in with_fns.items():
        for k in keys:
            roots.setdefault(k, set()).add(fnp)
    for k, ps in roots.items():
        leaves = set()
        for p in ps:
            leaves |= leaves_of(p)
            for q in closure(p):
                attributed.add(q)
        if leaves:
            out[k] = leaves
    for p, ls in own.items():
        if p not in attributed:
            out[("fn", p)] = ls
    # a documented type whose decoder is now generated by `#[serde(from = "X")]` / `try_from`: the generated body decodes one X
    # with X's own decoder and converts it -- X is its leaf type (no visitor of its own is involved)
    for key in WANT_LEAVES:
        if key[0] != "type" or key in out:
            continue
        fs = F.impl_fn("serde_core::de::Deserialize", key[1], "deserialize")
        if len(fs) != 1 or fs[0].get("body") is None or fs[0]["pv"] == "user":
            continue
        xs, visitor = set(), False
        for x in H.walk(fs[0]["body"]):
            c = x.get("callee") or ""
            if c.startswith("serde_core::de::Deserializer::deserialize_"):
                visitor = True
            if c == "serde_core::de::Deserialize::deserialize" and x.get("targs"):
                xs.add(erase_lt(x["targs"][0]))
        if xs and not visitor:
            out[key] = xs
    return out


def is_none_aliases(F):
    """hand-written /repo predicates that are `Option::is_none` under another name (`fn is_unset<T>(m: &Option<T>) -> bool
    { m.is_none() }`, or the same as a match): on their path summaries the result is exactly `the argument is None`"""
    cached = getattr(F, "_is_none_aliases", None)
    if cached is not None:
        return cached
    from . import sym as S
    from . import hirq as H
    out = set()
    for f in F.fns:
        if (f.get("pv") or "user") != "user" or f.get("output") != "bool" or len(f.get("params") or []) != 1 or not (f.get("inputs") or [""])[0].startswith("&core::option::Option<"):
            continue
        b = H.pat_bindings(f["params"][0])
        if len(b) != 1:
            continue
        P = ("param", b[0][0])
        try:
            sy = S.Sym(F, f, inline=lambda path, node: False)
            paths = sy.run()
        except S.TooManyPaths:
            continue
        ok = bool(paths)
        for p in paths:
            if p.done and p.done[0] == "panic" or p.effects:
                ok = False
            elif p.result == ("test", P, S.NONE):
                continue
            elif p.result in (("lit", True), ("lit", False)) and sy.lookup(p, P) in (S.NONE, S.SOME):
                ok = ok and (p.result[1] == (sy.lookup(p, P) == S.NONE))
            else:
                ok = False
        if ok:
            out.add(f["path"])
    F._is_none_aliases = out
    return out


def ser_table(F, fn):
    """map-emission table of a Serialize impl: generated impls are read from their (stable) expansion shape, hand-written ones
    from their path summaries"""
    im = fn.get("impl") or {}
    if im.get("impl_pv") == "user":
        t = map_emitter_sym(F, fn)
        if t is not None:
            return t
    t = T.map_ser_table(fn)
    al = is_none_aliases(F)
    if al and t:
        for m in t.get("entries", []):
            g = m.get("guard")
            if g and g.get("pred") in al:
                g["pred"] = T.IS_NONE       # a named wrapper of Option::is_none
    return t


def map_emitter_sym(F, fn):
    """hand-written map-emitting Serialize impl, from its path summaries: on every path that does not fail the announced member
    count equals the members emitted; a member is either always emitted or emitted exactly when its Option field is Some.
    Same result format as tables.map_ser_table, plus header['count_ok']."""
    from . import sym as S
    from . import hirq as H
    HDR = {"serde_core::ser::Serializer::serialize_struct": "text", "serde_core::ser::Serializer::serialize_map": "indexed"}
    ENT = ("serde_core::ser::SerializeStruct::serialize_field", "serde_core::ser::SerializeMap::serialize_entry")
    END = ("serde_core::ser::SerializeStruct::end", "serde_core::ser::SerializeMap::end")
    if not any(x.get("callee") in HDR for x in H.walk(fn["body"])):
        return None
    sym = S.Sym(F, fn, is_effect=lambda callee, args, node, st: (node.get("callee") or "").startswith("serde_core::ser::") if isinstance(node, dict) else False)
    try:
        paths = sym.run()
    except S.TooManyPaths:
        raise T.Unreadable("too many paths in a hand-written map emitter")
    me = ("param", "self")
    good = []
    kind = None
    hdr_node = None
    definite = True
    count_ok = True
    ended = True
    for p in paths:
        if p.done and p.done[0] == "panic" or p.done == "diverge":
            raise T.Unreadable("a hand-written map emitter can panic")
        effs = list(p.effects)
        if any(sym.lookup(p, e.term) == S.ERR for e in effs if e.term is not None):
            continue        # the serializer failed: the whole item fails
        hs = [e for e in effs if e.tcallee in HDR]
        if len(hs) != 1:
            raise T.Unreadable("a path opens %d maps" % len(hs))
        h = hs[0]
        kind = HDR[h.tcallee]
        hdr_node = h.node
        n = h.args[-1]
        if kind == "indexed":
            if n[0] == "ctor" and n[1] == S.SOME:
                n = n[2][0]
            else:
                definite = False
        ents = [e for e in effs if e.tcallee in ENT]
        Sq = sym.proj(h.term, S.OK, 0)
        row = []
        for e in ents:
            key = e.args[1]
            val = e.args[2] if len(e.args) > 2 else None
            if e.args[0] != Sq or key[0] != "lit" or val is None:
                raise T.Unreadable("an entry is not emitted into the opened map with a literal key")
            v = val
            if v[0] == "proj" and v[2] == S.SOME:
                v = v[1]
            if not (v[0] == "field" and v[1] == me):
                raise T.Unreadable("an emitted value is not a field of self: %s" % S.show(val)[:60])
            row.append((key[1], v[2], e))
        if not (n[0] == "lit" and n[1] == len(row)):
            count_ok = False
        ends = [e for e in effs if e.tcallee in END]
        if len(ends) != 1 or ends[0].args != (Sq,):
            ended = False
        good.append((p, row))
    if not good:
        raise T.Unreadable("no successful path")
    order = max((r for _, r in good), key=len)
    names = [f for _, f, _ in order]
    for _, r in good:
        it = iter(names)
        if not all(f in it for _, f, _ in r):
            raise T.Unreadable("members are emitted in different orders on different paths")
    entries = []
    for key, f, e in order:
        on = [p for p, r in good if any(x[1] == f for x in r)]
        off = [p for p, r in good if not any(x[1] == f for x in r)]
        ft = ("field", me, f)
        if not off:
            guard = None
        elif all(sym.lookup(p, ft) == S.SOME for p in on) and all(sym.lookup(p, ft) == S.NONE for p in off):
            guard = {"pred": T.IS_NONE, "field": f, "emit_when_pred": False}
        else:
            guard = {"pred": "<path-dependent>", "field": f, "emit_when_pred": None}
        entries.append({"key": key, "field": f, "guard": guard, "node": e.node, "vty": None})
    header = {"call": "serialize_struct" if kind == "text" else "serialize_map", "definite": definite, "node": hdr_node, "count_ok": count_ok}
    return {"kind": kind, "entries": entries, "header": header, "ended": ended, "sym": True}
