"""Code-side wire tables of a type in one configuration: what it decodes (key -> field,
required?, decoded type) and what it emits (key -> field, present-iff predicate, type)."""
import re

from . import hirq as H
from . import tables as T

UINTS = {"u8", "u16", "u32", "u64", "usize"}
INTS = {"i8", "i16", "i32", "i64", "isize"}


def erase_lt(s):
    s = re.sub(r"<'\w+>", "", s)
    s = re.sub(r"<'\w+, ", "<", s)
    s = re.sub(r"&'\w+ ", "&", s)
    return s


def split_args(s):
    """top-level comma split of a generic argument list"""
    out, depth, cur = [], 0, ""
    for ch in s:
        if ch in "<([":
            depth += 1
        elif ch in ">)]":
            depth -= 1
        if ch == "," and depth == 0:
            out.append(cur.strip())
            cur = ""
        else:
            cur += ch
    if cur.strip():
        out.append(cur.strip())
    return out


def unoption(ty):
    ty = erase_lt(ty or "")
    if ty.startswith("core::option::Option<") and ty.endswith(">"):
        return ty[len("core::option::Option<"):-1], True
    return ty, False


def shape(ty):
    """CBOR-level shape class of a (non-Option) Rust type string, capacities and widths erased"""
    ty = erase_lt(ty or "").strip()
    if ty.startswith("&"):
        ty = ty[1:].replace("mut ", "").strip()
    if ty in UINTS:
        return "uint"
    if ty in INTS:
        return "int"
    if ty == "bool":
        return "bool"
    if ty == "()":
        return "null"
    if ty == "str" or ty.startswith("heapless::string::String<"):
        return "text"
    if ty == "serde_bytes::bytes::Bytes" or ty.startswith("heapless_bytes::Bytes<") or ty.startswith("serde_bytes::bytearray::ByteArray<"):
        return "bytes"
    if ty.startswith("heapless::vec::Vec<") and ty.endswith(">"):
        args = split_args(ty[len("heapless::vec::Vec<"):-1])
        return "array:" + shape(args[0])
    if ty.startswith("core::option::Option<"):
        return "option:" + shape(unoption(ty)[0])
    return "type:" + ty


def capacity(ty):
    """static capacity facts of a type string: dict(kind, cap) for bounded containers / integer widths"""
    ty, _ = unoption(ty)
    ty = ty.strip()
    if ty.startswith("&"):
        ty = ty[1:].strip()
    m = re.match(r"^heapless::string::String<(\d+)>$", ty)
    if m:
        return {"kind": "text", "cap": int(m.group(1))}
    m = re.match(r"^heapless_bytes::Bytes<(\d+)>$", ty)
    if m:
        return {"kind": "bytes", "cap": int(m.group(1))}
    m = re.match(r"^serde_bytes::bytearray::ByteArray<(\d+)>$", ty)
    if m:
        return {"kind": "bytes_exact", "cap": int(m.group(1))}
    m = re.match(r"^\[u8; (\d+)\]$", ty)
    if m:
        return {"kind": "bytes_exact", "cap": int(m.group(1))}
    if ty.startswith("heapless::vec::Vec<") and ty.endswith(">"):
        args = split_args(ty[len("heapless::vec::Vec<"):-1])
        if len(args) == 2 and args[1].isdigit():
            return {"kind": "list", "cap": int(args[1]), "elem": args[0]}
    if ty in UINTS or ty in INTS:
        return {"kind": "int", "width": ty}
    if ty in ("str", "serde_bytes::bytes::Bytes"):
        return {"kind": "borrowed", "cap": None}
    return {"kind": "other", "ty": ty}


def field_types(F, path):
    fs = F.struct_fields(path)
    if fs is None:
        return None
    return {f["name"]: f["ty"]["s"] for f in fs}


def decode_table(F, path):
    """None if the type has no derive-generated map decoder; raises T.Unreadable on unknown shapes"""
    fn = T.de_impl(F, path)
    if fn is None:
        return None
    kind = T.impl_kind(fn)
    ftys = field_types(F, path) or {}
    if kind == "DeserializeIndexed":
        t = T.indexed_de_table(F, fn)
        members = []
        for e in t["entries"]:
            members.append({"field": e["field"], "key": e["key"], "aliases": [], "required": e["field"] in t["required"], "ty": erase_lt(e["ty"] or ""),
                            "shape": shape(e["ty"]), "with": None, "dup": e["dup"], "field_ty": erase_lt(ftys.get(e["field"], ""))})
        unbuilt = sorted(set(ftys) - set(t["fields_built"]))
        return {"kind": "indexed", "members": members, "unknown": "error" if t["catchall"] == "err" else t["catchall"], "fn": fn, "unbuilt": unbuilt,
                "entry": [x.get("callee") for x in H.walk(fn["body"]) if (x.get("callee") or "").startswith("serde_core::de::Deserializer::deserialize_")],
                "visit_map": t["visit_map"]}
    if kind == "Deserialize":
        try:
            t = T.text_de_table(F, fn)
        except T.Unreadable as e:
            if "not a derive(Deserialize) struct impl" in str(e):
                return None
            raise
        members = []
        for ident, mem in t["members"].items():
            keys = [k for k, v in t["names"].items() if v == ident]
            inner, is_opt = unoption(mem["ty"] or "")
            members.append({"field": mem["field"], "key": keys[0] if keys else None, "aliases": keys[1:], "required": T.member_required(mem),
                            "ty": erase_lt(mem["ty"] or ""), "shape": shape(inner), "with": mem["with"], "dup": mem["dup"], "missing": mem.get("missing"),
                            "field_ty": erase_lt(ftys.get(mem["field"], ""))})
        orphan_names = [k for k, v in t["names"].items() if v not in t["members"]]
        return {"kind": "text", "members": members, "unknown": t["unknown"], "ignore_consumes": t["ignore_consumes"], "entry": t["entry"], "fn": fn,
                "orphan_names": orphan_names, "unbuilt": sorted(set(ftys) - set(t["fields_built"])), "visit_map": t["visit_map"], "visit_str": t["visit_str"]}
    return None


def encode_table(F, path):
    fn = T.ser_impl(F, path)
    if fn is None:
        return None
    t = T.map_ser_table(fn)
    if t is None:
        return None
    ftys = field_types(F, path) or {}
    members = []
    for e in t["entries"]:
        fty = erase_lt(ftys.get(e["field"], ""))
        inner, is_opt = unoption(fty)
        g = e["guard"]
        members.append({"field": e["field"], "key": e["key"], "guard": g, "optional": g is not None, "field_ty": fty, "is_option": is_opt,
                        "shape": shape(inner), "node": e["node"]})
    return {"kind": t["kind"], "members": members, "header": t["header"], "fn": fn, "never": sorted(set(ftys) - {m["field"] for m in members}), "ended": t["ended"]}


def guard_ok(m):
    """presence predicate is `!Option::is_none(&self.<same field>)`"""
    g = m["guard"]
    return g is not None and g["pred"] == T.IS_NONE and g["field"] == m["field"] and g["emit_when_pred"] is False


def oracle_members(spec_type, features):
    return [m for m in spec_type["members"] if "feature" not in m or m["feature"] in features]
