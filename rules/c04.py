"""C04 — decoding untrusted CTAP2 bytes never panics, aborts or hangs (the /repo side).

Decides (B, E, C, W), per configuration, over the monomorphic call graph rooted at
ctap2::Request::deserialize (walked through dependency MIR, `-Zalways-encode-mir`):
  * the exact set of /repo function instances reachable from the root (derive-generated and
    hand-written); in their MIR every Assert terminator (overflow, bounds, division, pointer
    checks), every call to a contract-panicking API (unwrap/expect family, Index, copy_from_slice,
    split_at, heapless String::from, Extend/FromIterator, core::panicking::*, ...), every call to an
    `unsafe fn`, raw-pointer dereference, pointer cast/transmute, inline asm, indirect call is an
    *obligation*; each must be discharged by a typed rule — today all of them are in
    webauthn::truncate / floor_char_boundary and are discharged by the C13 `floor` template;
    anything else is reported with the construct, its function and a call path from the root;
  * no recursion through a /repo instance (call-graph SCCs);
  * every loop in a reachable hand-written or derive-generated /repo body is an input-consuming
    `while let Some(_) = <access>.next_key()/next_element()?` loop (terminates when the input does);
  * no mutable static, thread-local or interior-mutable global is touched (same bytes => same result).
Not decided: panic-freedom and termination inside cbor-smol / serde / heapless / cosey /
core (value-level, dependencies); the reachable set itself does include them and is reported.
"""
from . import hirq as H
from . import c13
from .engine import Probe
from .oblig_mono import Reach, hir_fn_for

LEVEL = "other"
ROOT = "ctap2::Request::<'a>::deserialize"

EXPECTED_HANDWRITTEN = [
    "ctap2::Request::<'a>::deserialize", "<ctap2::Error as core::convert::From<ctap2::CtapMappingError>>::from",
    "<operation::Operation as core::convert::TryFrom<u8>>::try_from", "<operation::VendorOperation as core::convert::TryFrom<u8>>::try_from",
    "<ctap2::AttestationStatementFormat as core::convert::TryFrom<&str>>::try_from",
    "<webauthn::KnownPublicKeyCredentialParameters as core::convert::TryFrom<webauthn::PublicKeyCredentialParameters>>::try_from",
    "webauthn::deserialize_from_str_and_truncate", "webauthn::deserialize_from_str_and_skip_if_too_long", "webauthn::truncate", "webauthn::floor_char_boundary",
    "webauthn::is_utf8_char_boundary", "<webauthn::Icon as serde_core::de::Deserialize<'de>>::deserialize",
    "<webauthn::FilteredPublicKeyCredentialParameters as serde_core::de::Deserialize<'de>>::deserialize",
    "<ctap2::AttestationFormatsPreference as serde_core::de::Deserialize<'de>>::deserialize",
]


def template_discharges(F):
    """spans of the panic-capable constructs in floor_char_boundary / truncate that the C13 templates account for:
    (covered {span: reason}, why-not list)"""
    probe = Probe()
    covered = {}
    r = c13.check_floor(probe, F, None)
    if r and r[0] is True and not probe.failed:
        covered.update(r[1])
        ok2, cov2 = c13.check_truncate(probe, F, None, True)
        if ok2 and not probe.failed:
            covered.update(cov2)
    # the skipping wrapper: a guarded String::from
    skip_fn = F.fn(c13.names(F)[1])
    if skip_fn is not None:
        p2 = Probe()
        cov3 = c13.check_skip(p2, F, None, skip_fn)
        if cov3 and not p2.failed:
            covered.update(cov3)
    return covered, probe.failed


def run(ctx):
    ctx.explanation = ("Sound-by-construction obligation list for /repo code on the decode path: the monomorphic call graph from Request::deserialize is walked through dependency MIR "
                       "(Instance::try_resolve, drop glue, vtable methods of unsize casts, reified fn pointers); every panic-capable / unsafe / non-deterministic MIR construct in the reachable "
                       "/repo instances is an obligation and must be discharged by a typed rule (today: the C13 floor/truncate template). Plus SCC-based no-recursion and the input-consuming-loop rule. "
                       "Nothing is executed; the property's byte-level enumeration is a dynamic technique and is not imitated.")
    ctx.rule = "obligation = MIR event in a reachable /repo instance | loop | SCC | expected hand-written function, per configuration"
    ctx.trusted = ["panic-freedom and termination inside cbor-smol 0.5.1, serde_core, heapless 0.7.17, heapless-bytes, serde_bytes, cosey, core (not decided here)",
                   "the deny table of contract-panicking APIs (rules/oblig_mono.py)", "rustc MIR at -Zmir-opt-level=0 contains an Assert for every checked operation"]
    ctx.assumptions = ["debug-assertion / overflow-check build semantics (Assert terminators present)", "C13's paper argument for the floor template"]
    # decoding must not panic with logging compiled in either: the arguments of every log statement on the decode path are total
    from . import logargs
    logargs.check(ctx, "C04", mono_root=ROOT, min_statements=1)
    for cfg, F in ctx.facts.items():
        r = F.mono_root(ROOT)
        if not ctx.oblige("C04|root", r is not None and "inst" in r, "anchor missing: mono root ctap2::Request::deserialize", cfg=cfg):
            continue
        R = Reach(F, r["inst"])
        ctx.floor("reachable /repo instances", len(R.local), 80, cfg=cfg)
        defs = {i["def"] for i in R.local}
        # rustc prints an impl method as `<T as Trait>::m` or as `module::<impl Trait for T>::m` depending on where the impl sits
        # relative to T; the canonical name is the first form, from the impl's trait reference
        for i in R.local:
            g = hir_fn_for(F, i)
            tr = ((g or {}).get("impl") or {}).get("trait_ref")
            if g is not None and tr:
                defs.add("%s::%s" % (tr, g["name"]))
        t_w, s_w, t_fn, f_fn, p_fn = c13.names(F)
        role = {"webauthn::deserialize_from_str_and_truncate": t_w, "webauthn::deserialize_from_str_and_skip_if_too_long": s_w, "webauthn::truncate": t_fn,
                "webauthn::floor_char_boundary": f_fn, "webauthn::is_utf8_char_boundary": p_fn}
        for d0 in EXPECTED_HANDWRITTEN:
            d = role.get(d0, d0)
            if d0 == "webauthn::is_utf8_char_boundary" and F.fn(d) is None:
                continue        # floor may test boundaries with core's str::is_char_boundary instead of a private copy
            ctx.oblige("C04|reachable|" + d0, d in defs, "%s is no longer reachable from Request::deserialize (renamed? the obligation scan would miss its replacement)" % d, cfg=cfg, nontrivial=False)
        covered, why = template_discharges(F)
        used = {}
        obs = R.obligations()
        n_user = len([i for i in R.local if i.get("pv") == "user"])
        ctx.floor("reachable hand-written instances", n_user, 15, cfg=cfg)
        for inst, ev, kind in obs:
            d = inst["def"]
            key = "C04|obligation|%s|%s" % (d, kind)
            discharged = False
            rule = None
            if covered:
                # the MIR event's span lies inside (or equals) the span of a construct the template covers
                from .oblig_mono import _sp
                want = _sp(ev.get("sp"))
                for csp, reason in covered.items():
                    have = _sp(csp)
                    if want and have and have[0] == want[0] and have[1] <= want[1] and want[2] <= have[2]:
                        discharged, rule = True, "B-tmpl(C13): " + reason
                        break
            if not discharged:
                from . import oblig_rules as OR
                g_rule, g_detail = OR.discharge(F, inst, ev, kind)
                if g_rule in ("B-const-arith", "B-shift-lit", "B-full-range", "B-enum-cast", "B-concrete"):
                    discharged, rule = True, "%s: %s" % (g_rule, g_detail)
            if kind.startswith("static") and not ev.get("mutable"):
                discharged, rule = True, "immutable static"
            msg = "undischarged obligation on the decode path: %s in %s (%s); call path: %s" % (kind, inst["name"][:90], ev.get("sp"), " -> ".join(R.path_to(inst["i"])[-4:]))
            if not discharged and d in (f_fn, t_fn) and why:
                msg += "; the C13 floor template does not hold: %s" % (why[:2],)
            ctx.oblige(key, discharged, msg, cfg=cfg, where=ev.get("sp"))
            if discharged:
                ctx.sample({"cfg": cfg, "obligation": kind, "in": inst["name"][:80], "at": ev.get("sp"), "discharged_by": rule}, limit=12)
        # recursion
        cyc = R.cycles_through_local()
        ctx.oblige("C04|no-recursion", not cyc, "recursion through /repo code on the decode path: %s" % [[R.I[w]["name"][:60] for w in c][:4] for c in cyc][:2], cfg=cfg)
        # loops in reachable local bodies
        n_loops = 0
        seen_fn = set()
        for inst in R.local:
            fn = hir_fn_for(F, inst)
            if fn is None or fn["id"] in seen_fn:
                continue
            seen_fn.add(fn["id"])
            for x in H.walk(fn["body"]):
                if x.get("k") != "loop":
                    continue
                n_loops += 1
                cl = H.consuming_loop(x)
                good = cl is not None and cl["next"].get("callee") in H.NEXT_CALLS
                why = ""
                if not good:
                    # other spellings of the same loop (explicit match on next_*(), helper functions): decided on the path summaries
                    from . import loops as L
                    problems, _n = L.drains(F, fn)
                    good = not problems
                    why = "; ".join(problems[:2])
                    if not good and x.get("sp") in covered:
                        good = True     # a loop the C13 template accounts for (the step-back search of floor_char_boundary)
                    if not good:
                        # a counting loop over constants (`while i < N { ..; i += 1 }`): it runs concretely and ends within sym's limit
                        from . import oblig_rules as OR
                        good = OR.concrete_summary(F, fn) is not None
                ctx.oblige("C04|loop|%s" % fn["path"], good, "a loop in %s is not an input-consuming loop over next_key()/next_element() (%s): termination is not evident" % (fn["path"], why), cfg=cfg, where=H.line(x))
        ctx.floor("input-consuming loops", n_loops, 15, cfg=cfg)
        # every other public decodable type (responses, options, enums ... decoded with cbor_deserialize::<T>): their
        # Deserialize / Visitor bodies (generic in the deserializer, hence no mono root) contain no panic-capable construct at all
        n_de = 0
        for f in F.fns:
            im = f.get("impl") or {}
            if im.get("trait") in ("serde_core::de::Deserialize", "serde_core::de::Visitor", "serde_core::de::DeserializeSeed"):
                n_de += 1
                for kind, x in c13.obligations(f):
                    if kind == "diverge":
                        continue
                    # compiler-generated lowering of format_args! (an `unsafe { Arguments::new(..) }` block, sound by construction)
                    if "bang:format_args" in (x.get("pv") or "") and (kind == "unsafe" or x.get("callee", "").startswith("core::fmt::Arguments")):
                        continue
                    ctx.oblige("C04|decoder-body|%s|%s" % (f["path"][:110], kind), False,
                               "panic-capable construct (%s) in the decoder body %s" % (kind, f["path"][:140]), cfg=cfg, where=H.line(x))
        ctx.floor("Deserialize / Visitor bodies scanned", n_de, 140, cfg=cfg)
        if ctx.tier == "thorough" and cfg == "k7":
            from .clippyxref import cross_reference
            cross_reference(ctx, [ev.get("sp") for _, ev, _ in obs], files=["src/webauthn.rs", "src/ctap2.rs", "src/operation.rs"])
        ctx.extra.setdefault("reachable", {})[cfg] = {"instances": len(R.seen), "repo_instances": len(R.local), "hand_written": n_user, "obligations": len(obs)}
