"""C14 — algorithm and attestation-format lists are filtered in order, never rejected.

Decides (E, P, W, T) on the two hand-written filtering `visit_seq` loops:
  * the only error exit is the `?` on `seq.next_element::<Elem>()` (a CBOR-level fault);
  * an entry that is not known takes the `continue` / `unknown = true` path — never an error,
    never a break;
  * a known entry is appended with `push`, whose Result is discarded with `.ok()` (a full list
    drops the entry; never `?`, never unwrap); nothing but `push` touches the output list, so
    the output is the known entries in input order, the first N by capacity;
  * the result is Ok(<the list built>) starting from the empty default;
  * KnownPublicKeyCredentialParameters::try_from: Ok exactly under
    {type == "public-key", KNOWN_ALGS.contains(alg)} and carries the same alg; both other sites are Err;
  * KNOWN_ALGS = [-7, -8], COUNT_KNOWN_ALGS = 2 = capacity of the filtered list; the format list
    capacity equals the number of known formats; AttestationStatementFormat::try_from accepts
    exactly {"none", "packed"}.
With these clauses the filters' input/output relation is fixed; only leaf decoding is left to
the dependencies.
"""
from . import hirq as H
from . import tables as T
from . import wire as W
from .pathcond import Analysis, effect_paths, OK, ERR
from .respser import parent_map

LEVEL = "other"

NEXT = "serde_core::de::SeqAccess::next_element"
PUSH = "heapless::vec::Vec::<T, N>::push"
RES_OK = "core::result::Result::<T, E>::ok"
KNOWN = "webauthn::KnownPublicKeyCredentialParameters"
PARAMS = "webauthn::PublicKeyCredentialParameters"
FMT = "ctap2::AttestationStatementFormat"


def find_visit_seq(F, type_path):
    de = F.impl_fn("serde_core::de::Deserialize", type_path, "deserialize")
    if len(de) != 1:
        return None, None
    vs = F.nested(de[0], name="visit_seq")
    return de[0], (vs[0] if len(vs) == 1 else None)


def loop_parts(fn):
    """the single element loop of a visit_seq, in any of the container-exhausting shapes (hirq.consuming_loop)"""
    loops = [x for x in H.walk(fn["body"]) if x.get("k") == "loop"]
    if len(loops) != 1:
        return None
    cl = H.consuming_loop(loops[0])
    if cl is None:
        return None
    b = H.pat_bindings(cl["pat"]) if cl["pat"] else []
    body = cl["body"][0] if len(cl["body"]) == 1 else {"k": "block", "stmts": [x if x.get("k") in ("let", "semi", "expr") else {"k": "expr", "e": x} for x in cl["body"]], "sp": ""}
    return {"loop": loops[0], "elem_id": b[0][1] if len(b) == 1 else None, "elem_ty": (cl["next"].get("targs") or [None, None])[1], "body": body, "next": cl["next"], "try": cl["tryn"]}


def check_filter(ctx, F, cfg, type_path, out_field, elem_ty, key):
    de, vs = find_visit_seq(F, type_path)
    if not ctx.oblige(key + "|anchor", vs is not None, "anchor missing: hand-written visit_seq of " + type_path, cfg=cfg):
        return None
    where = vs["sp"]
    # entry point: deserialize_seq
    entry = [x.get("callee") for x in H.walk(de["body"]) if (x.get("callee") or "").startswith("serde_core::de::Deserializer::deserialize_")]
    ctx.oblige(key + "|entry", entry == ["serde_core::de::Deserializer::deserialize_seq"], "%s is not decoded as a sequence (%s)" % (type_path, entry), cfg=cfg, where=de["sp"], nontrivial=False)
    lp = loop_parts(vs)
    if not ctx.oblige(key + "|loop", lp is not None and lp["elem_id"] is not None, "the element loop is no longer `while let Some(x) = seq.next_element()? { .. }`", cfg=cfg, where=where):
        return None
    ctx.oblige(key + "|elem-type", W.erase_lt(lp["elem_ty"] or "") == elem_ty, "elements are decoded as %s, expected %s" % (lp["elem_ty"], elem_ty), cfg=cfg, where=where)
    A = Analysis(vs)
    pm = parent_map(vs["body"])
    # only error exit: the `?` on next_element
    ctx.oblige(key + "|only-cbor-error", len(A.tries) == 1 and A.tries[0].node is H.strip_block(lp["try"]["e"]),
               "the list decoder has %d `?` exits; only a fault in next_element() may fail the request" % len(A.tries), cfg=cfg, where=where)
    errs = [s for s in A.sites if s.wrappers[:1] == [ERR]]
    rets = [x for x in H.walk(vs["body"]) if x.get("k") == "ret"]
    ctx.oblige(key + "|no-explicit-error", not errs and not rets, "the list decoder returns an error / returns early for some entries: %s" % [A.site_str(s)["result"] for s in errs], cfg=cfg, where=where)
    # output local
    outs = [s for s in vs["body"].get("stmts", []) if s["k"] == "let" and s["pat"].get("k") == "bind" and W.erase_lt(s["pat"]["ty"]) == type_path]
    if not ctx.oblige(key + "|output", len(outs) == 1, "no unique output value of type " + type_path, cfg=cfg, where=where):
        return None
    out_id = outs[0]["pat"]["id"]
    init = H.strip_block(outs[0]["init"])
    empty = False
    if init.get("callee") == "core::default::Default::default":
        empty = True
    elif init.get("k") == "call" and init.get("ctor") in (type_path, "Self:" + type_path) and all(H.strip_block(a).get("callee") == "core::default::Default::default" for a in init["args"]):
        empty = True
    ctx.oblige(key + "|starts-empty", empty, "the output list does not start as the empty default", cfg=cfg, where=where)
    oks = [s for s in A.sites if s.wrappers == [OK]]
    ctx.oblige(key + "|returns-output", len(A.sites) == 1 and len(oks) == 1 and H.local_id(oks[0].node) == out_id and not oks[0].in_loop(), "the result is not Ok(<the list built>)", cfg=cfg, where=where)

    # who-may-call on the output
    def on_out(n):
        ch = H.field_chain(n)
        return ch is not None and ch[0] == outs[0]["pat"]["name"] and (H.local_id(n) == out_id or True)

    touches = []
    for x in H.walk(lp["body"]):
        if x.get("k") == "mcall":
            ch = H.field_chain(x["recv"])
            if ch and ch[0] == outs[0]["pat"]["name"]:
                touches.append(x)
        elif x.get("k") in ("assign", "assignop"):
            ch = H.field_chain(x["l"])
            if ch and ch[0] == outs[0]["pat"]["name"]:
                touches.append(x)
    pushes = [x for x in touches if x.get("k") == "mcall" and x.get("callee") == PUSH and H.field_chain(x["recv"])[1:] == [out_field]]
    others = [x for x in touches if x not in pushes]
    return {"vs": vs, "lp": lp, "A": A, "pm": pm, "pushes": pushes, "others": others, "out_id": out_id, "where": where}


def push_discarded(pm, p):
    par = pm.get(id(p))
    if par is not None and par.get("k") == "mcall" and par.get("callee") == RES_OK and par["recv"] is p:
        gp = pm.get(id(par))
        return gp is not None and gp.get("k") == "semi"
    if par is not None and par.get("k") == "let" and par["pat"].get("k") == "wild":
        return True
    return False


def run(ctx):
    ctx.explanation = ("Error-discipline, who-may-call and path-literal rules on the two hand-written filtering visit_seq loops and on the known-parameter conversion (typed HIR), "
                       "plus the constants/capacities that bound the output. The loop body's paths are enumerated; the accepted set is a closed literal condition.")
    ctx.rule = "obligation = (filter, clause) | conversion result site | constant, per configuration"
    ctx.trusted = ["heapless 0.7.17 Vec::push appends at the end or returns Err when full", "cbor-smol 0.5.1 SeqAccess::next_element", "derive(Deserialize) for PublicKeyCredentialParameters (C01 table)"]
    for cfg, F in ctx.facts.items():
        # ------------------------------------------------ algorithm list
        key = "C14|algs"
        r = check_filter(ctx, F, cfg, "webauthn::FilteredPublicKeyCredentialParameters", "0", PARAMS, key)
        if r is not None:
            A, lp, pm = r["A"], r["lp"], r["pm"]
            ctx.oblige(key + "|append-only", not r["others"], "the filtered list is modified by something other than push: %s" % [A.desc(x)[:60] for x in r["others"]], cfg=cfg, where=r["where"])
            if ctx.oblige(key + "|one-push", len(r["pushes"]) == 1, "expected exactly one push into the filtered list, found %d" % len(r["pushes"]), cfg=cfg, where=r["where"]):
                p = r["pushes"][0]
                ctx.oblige(key + "|push-discarded", push_discarded(pm, p), "the Result of push is not discarded with `.ok()`: a full list would fail the request or panic", cfg=cfg, where=H.line(p))
                # pushed value = converted element of this iteration, unknown -> continue
                arg_id = H.local_id(p["args"][0])
                body = H.strip_block(lp["body"])
                conv_ok = cont_ok = False
                for s in (body.get("stmts") or []):
                    if s["k"] == "let" and "els" in s and arg_id in [i for _, i in H.pat_bindings(s["pat"])]:
                        init = H.strip_block(s["init"])
                        conv_ok = H.pat_ctor(s["pat"]) == "core::result::Result::Ok" and H.conversion_impl(init) == "<%s as core::convert::TryFrom<%s>>" % (KNOWN, PARAMS) \
                            and H.local_id(H.call_args(init)[0]) == lp["elem_id"]
                        els = H.strip_block(s["els"])
                        inner = [x for x in H.walk(els) if x.get("k") in ("continue", "break", "ret", "call", "mcall", "assign")]
                        cont_ok = len(inner) == 1 and inner[0].get("k") == "continue"
                if not conv_ok:
                    # alternative shapes: `if let Ok(el) = value.try_into() { push }` / match
                    for x in H.walk(body):
                        if x.get("k") == "letexpr" and arg_id in [i for _, i in H.pat_bindings(x["pat"])]:
                            init = H.strip_block(x["init"])
                            conv_ok = H.pat_ctor(x["pat"]) == "core::result::Result::Ok" and H.conversion_impl(init) == "<%s as core::convert::TryFrom<%s>>" % (KNOWN, PARAMS) \
                                and H.local_id(H.call_args(init)[0]) == lp["elem_id"]
                            cont_ok = not any(y.get("k") in ("break", "ret") for y in H.walk(body))
                ctx.oblige(key + "|pushes-converted-entry", conv_ok, "the entry pushed is not `Known::try_from(<this entry>)`", cfg=cfg, where=H.line(p))
                ctx.oblige(key + "|unknown-continues", cont_ok and not any(y.get("k") == "break" for y in H.walk(body)), "an unknown algorithm/type does not simply continue with the next entry", cfg=cfg, where=r["where"])
            ctx.sample({"cfg": cfg, "filter": "pubKeyCredParams", "elem": lp["elem_ty"], "pushes": [A.desc(x)[:100] for x in r["pushes"]]}, limit=4)
        # ------------------------------------------------ known-parameter conversion
        conv = F.trait_impl_fn("<%s as core::convert::TryFrom<%s>>" % (KNOWN, PARAMS), "try_from")
        if ctx.oblige("C14|known|anchor", conv is not None, "anchor missing: TryFrom<PublicKeyCredentialParameters> for Known..", cfg=cfg):
            A = Analysis(conv)
            TYPE = ("param:value.key_type", "'public-key'")
            oks = [s for s in A.sites if s.wrappers == [OK]]
            errs = [s for s in A.sites if s.wrappers == [ERR]]

            def lits(s):
                out = []
                for c in s.conds:
                    t = A.comparison(c)
                    if t and (t[0], t[2]) == TYPE:
                        out.append("type" + t[1])
                        continue
                    if c.kind == "expr":
                        e = H.strip_block(c.e)
                        if e.get("k") == "mcall" and e.get("callee") == "core::slice::<impl [T]>::contains" and A.desc(e["recv"]) == "webauthn::KNOWN_ALGS" and A.desc(e["args"][0]) == "param:value.alg":
                            out.append("known" if c.pol else "!known")
                            continue
                    out.append("?" + A.cond_str(c))
                return sorted(out)

            good = len(oks) == 1 and lits(oks[0]) == ["known", "type=="]
            ctx.oblige("C14|known|accepts", good, "an entry is accepted under %s, expected exactly {type == \"public-key\", KNOWN_ALGS.contains(alg)}" % [lits(s) for s in oks], cfg=cfg, where=conv["sp"])
            if good:
                n = H.strip_block(oks[0].node)
                fl = {f["name"]: f["e"] for f in n.get("fields", [])} if n.get("k") == "struct" else {}
                ctx.oblige("C14|known|same-alg", list(fl) == ["alg"] and A.desc(fl["alg"]) == "param:value.alg", "the accepted entry does not carry the algorithm that was sent", cfg=cfg, where=conv["sp"])
            ctx.oblige("C14|known|rejects", sorted(map(str, [lits(s) for s in errs])) == sorted(map(str, [["type!="], ["!known", "type=="]])) and len(A.sites) == 3 and not A.tries,
                       "rejection conditions are %s" % [lits(s) for s in errs], cfg=cfg, where=conv["sp"])
            ctx.sample({"cfg": cfg, "known_conversion": [A.site_str(s) for s in A.sites]}, limit=4)
        # ------------------------------------------------ constants
        ka = F.const_value("webauthn::KNOWN_ALGS")
        ctx.oblige("C14|const|KNOWN_ALGS", isinstance(ka, list) and sorted(ka) == [-8, -7], "KNOWN_ALGS = %s, expected the set {ES256 (-7), EdDSA (-8)}" % (ka,), cfg=cfg)
        ctx.oblige("C14|const|ES256", F.const_value("webauthn::ES256") == -7 and F.const_value("webauthn::ED_DSA") == -8, "ES256/ED_DSA constants changed", cfg=cfg, nontrivial=False)
        ctx.oblige("C14|const|COUNT", F.const_value("webauthn::COUNT_KNOWN_ALGS") == 2, "COUNT_KNOWN_ALGS = %s" % F.const_value("webauthn::COUNT_KNOWN_ALGS"), cfg=cfg)
        ft = W.field_types(F, "webauthn::FilteredPublicKeyCredentialParameters") or {}
        cap = W.capacity(ft.get("0", ""))
        ctx.oblige("C14|cap|algs", cap.get("kind") == "list" and cap.get("cap") == 2 == len(ka or []) and cap.get("elem") == KNOWN, "filtered list is %s: it must hold every known algorithm (2)" % ft.get("0"), cfg=cfg)
        ft = W.field_types(F, "ctap2::AttestationFormatsPreference") or {}
        cap = W.capacity(ft.get("known_formats", ""))
        fmt = F.adt(FMT)
        ctx.oblige("C14|cap|formats", cap.get("kind") == "list" and fmt is not None and cap.get("cap") == len(fmt["variants"]) == 2 and cap.get("elem") == FMT,
                   "known_formats is %s for %s known formats" % (ft.get("known_formats"), fmt and len(fmt["variants"])), cfg=cfg)
        ctx.oblige("C14|formats|flag-type", ft.get("unknown") == "bool", "the unknown-format flag is %s" % ft.get("unknown"), cfg=cfg, nontrivial=False)
        # ------------------------------------------------ attestation formats
        key = "C14|formats"
        r = check_filter(ctx, F, cfg, "ctap2::AttestationFormatsPreference", "known_formats", "&str", key)
        if r is not None:
            A, lp, pm = r["A"], r["lp"], r["pm"]
            body = H.strip_block(lp["body"])
            sets = [x for x in r["others"] if x.get("k") == "assign" and H.field_chain(x["l"])[1:] == ["unknown"] and H.lit(x["r"]) is True]
            rest = [x for x in r["others"] if x not in sets]
            ctx.oblige(key + "|append-only", not rest, "the preference is modified by something other than push / unknown = true: %s" % [A.desc(x)[:60] for x in rest], cfg=cfg, where=r["where"])
            if ctx.oblige(key + "|one-push", len(r["pushes"]) == 1 and len(sets) == 1, "expected one push and one `unknown = true`, found %d / %d" % (len(r["pushes"]), len(sets)), cfg=cfg, where=r["where"]):
                p = r["pushes"][0]
                ctx.oblige(key + "|push-discarded", push_discarded(pm, p), "the Result of push is not discarded with `.ok()`", cfg=cfg, where=H.line(p))
                # paths of the loop body: known -> push, otherwise -> unknown = true
                ps = effect_paths(body, lambda n: n is p or n is sets[0])
                good = True
                convs = []
                for path in ps:
                    pol = None
                    for c in path.conds:
                        if c.kind == "let" and H.pat_ctor(c.pat) == "core::result::Result::Ok":
                            init = H.strip_block(c.init)
                            if H.conversion_impl(init) == "<%s as core::convert::TryFrom<&str>>" % FMT and H.local_id(H.call_args(init)[0]) == lp["elem_id"]:
                                pol = c.pol
                                binds = [i for _, i in H.pat_bindings(c.pat)]
                    eff = list(path.effects)
                    if pol is True:
                        good = good and eff == [p] and H.local_id(p["args"][0]) in binds
                    elif pol is False:
                        good = good and eff == [sets[0]]
                    else:
                        good = False
                    good = good and path.done is None
                ctx.oblige(key + "|known-vs-unknown", good and len(ps) == 2, "the loop body is not: known format -> push(format), any other text -> unknown = true", cfg=cfg, where=r["where"])
            ctx.sample({"cfg": cfg, "filter": "attestationFormatsPreference", "elem": lp["elem_ty"]}, limit=4)
        # accepted formats
        bwd = F.trait_impl_fn("<%s as core::convert::TryFrom<&str>>" % FMT, "try_from")
        if ctx.oblige("C14|formats|table|anchor", bwd is not None, "anchor missing: TryFrom<&str> for AttestationStatementFormat", cfg=cfg):
            try:
                _, rows = T.conversion_table(bwd, F)
                acc = set()
                total = False
                for rr in rows:
                    if rr["catchall"]:
                        total = rr["kind"] == "err"
                        break
                    if rr["kind"] == "ok":
                        acc |= rr["vals"]
                ctx.oblige("C14|formats|table", acc == {"none", "packed"} and total, "known attestation formats are %s" % sorted(acc), cfg=cfg, where=bwd["sp"])
            except T.Unreadable as e:
                ctx.violation("C14|formats|table|unreadable", "UNREADABLE-IMPL: %s" % e, cfg=cfg)
