"""C14 — algorithm and attestation-format lists are filtered in order, never rejected.

Decides (E, P, W, T) on the two hand-written filtering `visit_seq` loops:
  * the only error exit is the `?` on `seq.next_element::<Elem>()` (a CBOR-level fault);
  * an entry that is not known takes the `continue` / `unknown = true` path — never an error,
    never a break;
  * a known entry is appended with `push`, whose Result is discarded with `.ok()` (a full list
    drops the entry; never `?`, never unwrap); nothing but `push` touches the output list, so
    the output is the known entries in input order, the first N by capacity;
  * the result is Ok(<the list built>) starting from the empty default;
  * KnownPublicKeyCredentialParameters::try_from: Ok exactly under
    {type == "public-key", KNOWN_ALGS.contains(alg)} and carries the same alg; both other sites are Err;
  * KNOWN_ALGS = [-7, -8], COUNT_KNOWN_ALGS = 2 = capacity of the filtered list; the format list
    capacity equals the number of known formats; AttestationStatementFormat::try_from accepts
    exactly {"none", "packed"}.
With these clauses the filters' input/output relation is fixed; only leaf decoding is left to
the dependencies.
"""
from . import hirq as H
from . import tables as T
from . import wire as W
from .pathcond import Analysis, effect_paths, OK, ERR
from .respser import parent_map
from . import sym as S
from . import valueset as VS
from . import dispatch as D

LEVEL = "other"

NEXT = "serde_core::de::SeqAccess::next_element"
PUSH = "heapless::vec::Vec::<T, N>::push"
RES_OK = "core::result::Result::<T, E>::ok"
KNOWN = "webauthn::KnownPublicKeyCredentialParameters"
PARAMS = "webauthn::PublicKeyCredentialParameters"
FMT = "ctap2::AttestationStatementFormat"


def find_visit_seq(F, type_path):
    """(Deserialize::deserialize of the type, the visit_seq it hands the sequence to): the visitor is the type named in the
    `deserialize_seq(<Visitor>)` call, wherever it is declared (inside the function or at module level)"""
    de = F.impl_fn("serde_core::de::Deserialize", type_path, "deserialize")
    if len(de) != 1:
        return None, None
    vs = F.nested(de[0], name="visit_seq")
    if len(vs) == 1:
        return de[0], vs[0]
    for x in H.walk(de[0]["body"]):
        if (x.get("callee") or "").startswith("serde_core::de::Deserializer::deserialize_") and x.get("k") in ("call", "mcall"):
            for t in (x.get("targs") or []):
                cands = [f for f in F.fns if f["name"] == "visit_seq" and (f.get("impl") or {}).get("trait") == "serde_core::de::Visitor" and ((f["impl"]["self_ty"].get("path") or f["impl"]["self_ty"].get("s")) == t)]
                if len(cands) == 1:
                    return de[0], cands[0]
    return de[0], None


def fresh_value(t):
    """a freshly created empty container / default value"""
    return t[0] == "call" and not t[2] and t[1].split("::")[-1] in ("default", "new")


def rooted_fresh(t):
    while t[0] in ("field", "proj", "tproj", "index"):
        t = t[1]
    if t[0] == "ctor" and len(t[2]) == 1:
        return rooted_fresh(t[2][0])
    return fresh_value(t)


READ_ONLY = ("len", "capacity", "is_empty", "is_full", "as_slice", "as_ref", "iter", "first", "last", "get", "contains")


def check_filter(ctx, F, cfg, type_path, acc_of, elem_ty, conv_ref, key, flag=None):
    """one filtering visit_seq, from its path summaries (one symbolic iteration of the element loop):
       * the function returns from inside the loop only with the error of next_element itself;
       * the loop is left (break) only when next_element returned None;
       * on an iteration that got an element E: C = <conv>(E); C Ok -> exactly push(ACC, value of C) with the Result dropped,
         C Err -> nothing / the `flag` member becomes true; nothing else touches the output;
       * the result after the loop is Ok(OUT), OUT starting as the empty default.
       The output is either one value updated in place (`out.list.push(..)`, `out.flag = true`) or assembled after the loop from
       local accumulators (`let mut list = Vec::new(); let mut flag = false; .. Ok(T { list, flag })`): a local flag is followed
       through the loop-carried values of the trace (false before the loop, true after an unknown entry, unchanged after a known one)."""
    de, vs = find_visit_seq(F, type_path)
    via_decoder = False
    if de is not None and vs is None:
        # the visitor is not this decoder's own (a shared, generic one behind a helper that is handed the per-element action): the
        # decoder itself is summarised, with `deserialize_seq(V)` expanded into V::visit_seq by serde's contract
        vs, via_decoder = de, True
    if not ctx.oblige(key + "|anchor", vs is not None, "anchor missing: hand-written visit_seq of " + type_path, cfg=cfg):
        return None
    where = vs["sp"]
    if not via_decoder:
        entry = [x.get("callee") for x in H.walk(de["body"]) if (x.get("callee") or "").startswith("serde_core::de::Deserializer::deserialize_")]
        ctx.oblige(key + "|entry", entry == ["serde_core::de::Deserializer::deserialize_seq"], "%s is not decoded as a sequence (%s)" % (type_path, entry), cfg=cfg, where=de["sp"], nontrivial=False)
    conv_fn = F.trait_impl_fn(conv_ref, "try_from")
    conv_path = conv_fn["path"] if conv_fn else None

    def is_effect(callee, args, node, st):
        if callee == NEXT or callee == conv_path:
            return True
        if callee == "<assign>":
            return bool(args) and rooted_fresh(args[0])
        if callee == "<closure>":
            return any(rooted_fresh(x) for a in args for x in S.subterms(a))
        if args and rooted_fresh(args[0]) and (callee or "").split("::")[-1] not in ("default", "new"):
            return (callee or "").split("::")[-1] not in READ_ONLY
        return False

    def inline(path, node):
        f = sym.body_for(path)
        return f is not None and (f.get("pv") or "user") == "user" and path != conv_path

    sym = S.Sym(F, vs, is_effect=is_effect, inline=inline)
    sym.visitor_calls = via_decoder
    try:
        paths = sym.run()
    except S.TooManyPaths:
        ctx.violation(key + "|paths", "the list decoder has too many paths to enumerate", cfg=cfg)
        return None
    if via_decoder:
        bodies = [de] + [F.fn(q) for q in sym.inlined if F.fn(q) is not None]
        entry = [x.get("callee") for g in bodies for x in H.walk(g["body"]) if (x.get("callee") or "").startswith("serde_core::de::Deserializer::deserialize_")]
        expanded = any(t[0] == "visitor-rejected" for p in paths for t in p.trace)
        if not ctx.oblige(key + "|anchor", entry == ["serde_core::de::Deserializer::deserialize_seq"] and expanded,
                          "anchor missing: hand-written visit_seq of %s (the decoder does not hand a visitor of its own to deserialize_seq: %s)" % (type_path, entry), cfg=cfg, where=de["sp"]):
            return None
    outs = set()
    n_iter = n_push = 0
    elem_tys = set()

    def member(out, name):
        if out is not None and out[0] == "struct":
            return dict(out[2]).get(name)
        return ("field", out, name)

    def unwrap_mut(t):
        while t is not None and t[0] == "mutated":
            t = t[1]
        return t

    def normal(out):
        """the returned value with a loop-carried flag member abstracted (its value is the clause's business, not its identity)"""
        if flag and out is not None and out[0] == "struct":
            return ("struct", out[1], tuple((k, ("flag",) if k == flag and v[0] in ("unk", "lit") else unwrap_mut(v)) for k, v in out[2]))
        return out

    # a local flag: the loop-carried local whose value at the exit of the loop is the flag member of the result
    local_flag = None       # (local id, symbol at iteration start, value before the loop)
    for p in paths:
        r = p.result
        if flag and any(t[0] == "break" for t in p.trace) and r is not None and r[0] == "ctor" and r[1] == S.OK and len(r[2]) == 1 and r[2][0][0] == "struct":
            fv = member(r[2][0], flag)
            for ev in p.trace:
                if ev[0] == "enter":
                    for lid, _name, init, lv in ev[2]:
                        if lv == fv:
                            local_flag = (lid, lv, init)
    if local_flag is not None:
        ctx.oblige(key + "|flag-starts-false", local_flag[2] == ("lit", False), "the unknown-entry flag starts as %s, not false" % S.show(local_flag[2])[:40], cfg=cfg, where=where)

    # the value returned when the list is exhausted (a `loop` whose only exit is `break Ok(out)` has no other result)
    drain_outs = {p.result[2][0] for p in paths if any(t[0] == "break" for t in p.trace) and p.result is not None and p.result[0] == "ctor" and p.result[1] == S.OK and len(p.result[2]) == 1}
    drain_out = next(iter(drain_outs)) if len(drain_outs) == 1 else None

    def flag_after(p):
        for ev in p.trace:
            if ev[0] == "iter":
                return sym.resolve(p, dict(ev[2]).get(local_flag[0]))
        return None

    for i, p in enumerate(paths):
        if p.done and p.done[0] == "panic":
            ctx.oblige(key + "|no-panic|" + str(p.done[1])[:50], False, "the list decoder can panic (%s): a full list or a bad entry would abort instead of being skipped" % (p.done,), cfg=cfg, where=where)
            continue
        if p.done == "diverge":
            ctx.oblige(key + "|no-panic|diverge", False, "the list decoder can diverge (panic!/unreachable!)", cfg=cfg, where=where)
            continue
        nexts = [e for e in p.effects if e.callee == NEXT]
        if any(t[0] == "visitor-rejected" for t in p.trace):
            # the input was not a sequence: the sequence decoder's own error, the visitor never ran
            r = p.result
            good = not nexts and not [e for e in p.effects if e.callee != conv_path and e.kind != "closure"] and r is not None and r[0] == "ctor" and r[1] == S.ERR \
                and D.strip_conv(r[2][0])[0] == "call" and D.strip_conv(r[2][0])[1] == "serde::not-a-sequence"
            ctx.oblige(key + "|only-cbor-error|%d" % i, good, "when the input is not a sequence the list decoder answers %s after %s: expected the sequence decoder's own error and nothing else" % (S.show(r)[:60], [S.short_fn(e.callee) for e in p.effects][:3]), cfg=cfg, where=where)
            continue
        if not ctx.oblige(key + "|loop", len(nexts) == 1 and p.loops == 1, "the list decoder is not a single loop over `seq.next_element()` (%d calls, %d loops on a path)" % (len(nexts), p.loops), cfg=cfg, where=where, nontrivial=False):
            continue
        N = nexts[0]
        elem_tys.add(W.erase_lt(sym.type_arg(N, (N.node.get("targs") or [None, ""])[1] or "")))
        nk = sym.lookup(p, N.term)
        body_opt = sym.proj(N.term, S.OK, 0)
        ok_known = sym.lookup(p, body_opt)
        muts = [e for e in p.effects if e.callee not in (NEXT, conv_path)]
        if flag:
            # `out.flag |= <this entry is unknown>`: with the test decided on this path it is `out.flag = true`, or leaves the flag
            # as it is (an assignment of the flag to itself is no operation)
            kept = []
            for e in muts:
                if e.kind == "assign" and len(e.args) == 2 and e.args[0][0] == "field" and e.args[0][2] == flag:
                    v = sym.resolve(p, e.args[1])
                    if v == e.args[0]:
                        continue
                    if v != e.args[1]:
                        e = S.Effect(e.kind, e.callee, (e.args[0], v), e.node, e.term, e.depth, e.loops, e.seq, e.frame, e.natoms)
                kept.append(e)
            muts = kept
        convs = [e for e in p.effects if e.callee == conv_path]
        r = p.result
        if p.ret_loop_depth > 0 or (r is not None and r[0] == "ctor" and r[1] == S.ERR):
            # left with an error: from inside the loop, or through the `?` applied to an expanded helper that returned from its loop
            good = nk == S.ERR and r is not None and r[0] == "ctor" and r[1] == S.ERR and D.strip_conv(r[2][0]) == sym.proj(N.term, S.ERR, 0) and not muts
            ctx.oblige(key + "|only-cbor-error|%d" % i, good, "the list decoder returns early with %s when %s: only a fault in next_element() itself may fail the request" % (S.show(r)[:80], [S.show_atom(a) for a in p.atoms][-2:]), cfg=cfg, where=where)
            continue
        good = r is not None and r[0] == "ctor" and r[1] == S.OK and len(r[2]) == 1
        in_loop_only = r is not None and r[0] == "unk" and r[2] == "loop" and "break" not in [t[0] for t in p.trace]
        ctx.oblige(key + "|returns-output|%d" % i, good or in_loop_only, "the result after the loop is %s, not Ok(<the list built>)" % S.show(r)[:80], cfg=cfg, where=where, nontrivial=False)
        if good:
            outs.add(normal(r[2][0]))
        if "abort" in [t[0] for t in p.trace]:
            ctx.oblige(key + "|drains|abort|%d" % i, False, "the element loop is abandoned at an error but the decoder goes on: elements that were not read stay in the input", cfg=cfg, where=where)
            continue
        if "break" in [t[0] for t in p.trace]:
            ctx.oblige(key + "|drains|%d" % i, nk == S.OK and ok_known == S.NONE and not muts and not convs,
                       "the element loop is left when %s: elements that were not read stay in the input (the rest of the array would be read as the next parameter)" % [S.show_atom(a) for a in p.atoms][-2:], cfg=cfg, where=where)
            continue
        if not ctx.oblige(key + "|iteration|%d" % i, nk == S.OK and ok_known == S.SOME, "an iteration of the element loop runs without an element having been read", cfg=cfg, where=where, nontrivial=False):
            continue
        n_iter += 1
        E = sym.proj(body_opt, S.SOME, 0)
        if not ctx.oblige(key + "|converts-entry|%d" % i, len(convs) == 1 and convs[0].args == (E,), "the entry is not classified by %s(<this entry>)" % conv_ref, cfg=cfg, where=where):
            continue
        C = convs[0]
        ck = sym.lookup(p, C.term)
        foreign = [a for a in p.atoms if a[1] not in (N.term, body_opt, C.term)]
        ctx.oblige(key + "|decides-on-conversion|%d" % i, ck in (S.OK, S.ERR) and not foreign, "what happens to an entry depends on %s, not only on whether it is known" % [S.show_atom(a) for a in foreign][:2], cfg=cfg, where=where, nontrivial=False)
        out0 = r[2][0] if good else (drain_out if in_loop_only else None)
        if ck == S.OK:
            pushes = [e for e in muts if e.kind == "call" and (e.callee or "").endswith("::push")]
            g2 = len(muts) == 1 and len(pushes) == 1 and len(pushes[0].args) == 2 and pushes[0].args[1] == sym.proj(C.term, S.OK, 0)
            ctx.oblige(key + "|pushes-converted-entry", g2, "a known entry leads to %s, expected exactly push(<list>, <the converted entry>)" % ["%s(%s)" % (S.short_fn(e.callee), ", ".join(S.show(a)[:40] for a in e.args)) for e in muts], cfg=cfg, where=where)
            if g2:
                n_push += 1
                P = pushes[0]
                ctx.oblige(key + "|push-discarded", sym.lookup(p, P.term) is None, "the Result of push is inspected (`?`, unwrap or a test): a full list would fail the request, panic or change the flow", cfg=cfg, where=H.line(P.node))
                ctx.oblige(key + "|pushes-into-output", out0 is not None and unwrap_mut(acc_of(out0, member)) == unwrap_mut(P.args[0]), "the entry is pushed into %s, which is not the list that is returned" % S.show(P.args[0])[:60], cfg=cfg, where=H.line(P.node))
            if local_flag is not None:
                ctx.oblige(key + "|known-keeps-flag", flag_after(p) == local_flag[1], "a known entry changes the unknown-entry flag to %s" % S.show(flag_after(p) or ("unk", 0, "?"))[:40], cfg=cfg, where=where)
        else:
            got = [(e.kind, tuple(e.args)) for e in muts]
            if local_flag is not None:
                good_u = got == [] and flag_after(p) == ("lit", True)
                shown = "flag = %s, %s" % (S.show(flag_after(p) or ("unk", 0, "?"))[:40], [S.short_fn(e.callee) for e in muts])
            else:
                want = [("assign", (member(out0, flag), ("lit", True)))] if flag else []
                good_u = got == want
                shown = ["%s(%s)" % (S.short_fn(e.callee), ", ".join(S.show(a)[:40] for a in e.args)) for e in muts]
            ctx.oblige(key + "|unknown-continues", good_u, "an unknown entry leads to %s, expected %s" % (shown, "nothing" if not flag else "%s = true" % flag), cfg=cfg, where=where)
    ctx.oblige(key + "|elem-type", elem_tys == {elem_ty}, "elements are decoded as %s, expected %s" % (sorted(elem_tys), elem_ty), cfg=cfg, where=where)
    ctx.oblige(key + "|one-output", len(outs) == 1, "the list decoder returns %d different values" % len(outs), cfg=cfg, where=where, nontrivial=False)
    if len(outs) == 1:
        out = next(iter(outs))
        starts = rooted_fresh(out) or (out[0] == "struct" and all(k == flag or rooted_fresh(unwrap_mut(v)) for k, v in out[2]) and (not flag or local_flag is not None))
        ctx.oblige(key + "|starts-empty", starts, "the output list does not start as the empty default (%s)" % S.show(out)[:60], cfg=cfg, where=where)
    ctx.oblige(key + "|one-push", n_push >= 1 and n_iter >= 2, "the loop body does not have both a known (push) and an unknown branch", cfg=cfg, where=where)
    ctx.sample({"cfg": cfg, "filter": type_path, "paths": S.summarize(paths)}, limit=4)
    return {"vs": vs, "paths": paths, "sym": sym}


def known_conversion(ctx, F, cfg, conv):
    """decision table of Known..::try_from over (type == "public-key"?) x (alg in a probe domain): Ok with the same alg exactly for
    the public-key type and the known algorithms, Err otherwise"""
    names = [n for p in conv["params"] for n, _ in H.pat_bindings(p)]
    v = ("param", names[0])
    ty, alg = ("field", v, "key_type"), ("field", v, "alg")
    try:
        paths = S.Sym(F, conv).run(split_result=True)
    except S.TooManyPaths:
        ctx.violation("C14|known|paths", "too many paths", cfg=cfg)
        return
    domain = sorted({-7, -8, -6, -9, 0, 1, -1, -35, -36, -257, -65535, 2147483647, -2147483648})
    known = {-7, -8}
    rows = []
    bad_atoms = []
    for p in paths:
        tpol = None
        for a in p.atoms:
            if a[0] == "eq" and a[1] == ty and a[2] == ("lit", "public-key"):
                tpol = a[3]
        vals, unread = VS.path_set(p.atoms, alg, domain)
        other = [a for a in p.atoms if not (a[0] == "eq" and a[1] == ty) and VS.atom_set(a, alg, domain) is None]
        bad_atoms += unread + other
        rows.append((p, tpol, vals))
    ctx.oblige("C14|known|readable", not bad_atoms, "the known-parameter conversion decides on %s" % [S.show_atom(a) for a in bad_atoms][:2], cfg=cfg, where=conv["sp"], nontrivial=False)
    acc_ok = rej_ok = same_alg = True
    why = ""
    for tp in (True, False):
        for x in domain:
            sel = [p for p, tpol, vals in rows if (tpol is None or tpol == tp) and x in vals]
            want_ok = tp and x in known
            if len(sel) != 1 or (sel[0].done and sel[0].done[0] == "panic"):
                acc_ok = rej_ok = False
                why = "%d paths for type%s, alg=%d" % (len(sel), "==" if tp else "!=", x)
                continue
            r = sel[0].result
            is_ok = r is not None and r[0] == "ctor" and r[1] == S.OK
            is_err = r is not None and r[0] == "ctor" and r[1] == S.ERR
            if want_ok:
                if not is_ok:
                    acc_ok = False
                    why = "type==, alg=%d gives %s" % (x, S.show(r)[:50])
                elif r[2][0] != ("struct", KNOWN, (("alg", alg),)):
                    same_alg = False
            else:
                if not is_err:
                    rej_ok = False
                    why = "type%s, alg=%d gives %s" % ("==" if tp else "!=", x, S.show(r)[:50])
    ctx.oblige("C14|known|accepts", acc_ok, "an entry is not accepted exactly under {type == \"public-key\", alg in KNOWN_ALGS}: %s" % why, cfg=cfg, where=conv["sp"])
    ctx.oblige("C14|known|same-alg", same_alg, "the accepted entry does not carry the algorithm that was sent", cfg=cfg, where=conv["sp"])
    ctx.oblige("C14|known|rejects", rej_ok, "an entry with another type or an unknown algorithm is not rejected: %s" % why, cfg=cfg, where=conv["sp"])
    ctx.sample({"cfg": cfg, "known_conversion": S.summarize(paths)}, limit=4)


def run(ctx):
    ctx.explanation = ("Error-discipline and who-may-call rules on the path summaries of the two hand-written filtering visit_seq functions (rules/sym.py, one symbolic iteration of the element loop: "
                       "early return only with next_element's own error, break only on exhaustion, known entry -> push with the Result dropped, unknown -> nothing / unknown = true), the decision table of the "
                       "known-parameter conversion over (type is public-key?) x (a probe domain of algorithms), plus the constants/capacities that bound the output.")
    ctx.rule = "obligation = (filter, clause) | conversion result site | constant, per configuration"
    ctx.trusted = ["heapless 0.7.17 Vec::push appends at the end or returns Err when full", "cbor-smol 0.5.1 SeqAccess::next_element", "derive(Deserialize) for PublicKeyCredentialParameters (C01 table)"]
    for cfg, F in ctx.facts.items():
        # ------------------------------------------------ algorithm list
        check_filter(ctx, F, cfg, "webauthn::FilteredPublicKeyCredentialParameters", lambda out, member: out[2][0] if out[0] == "ctor" and len(out[2]) == 1 else (out if rooted_fresh(out) else None), PARAMS,
                     "<%s as core::convert::TryFrom<%s>>" % (KNOWN, PARAMS), "C14|algs")
        # ------------------------------------------------ known-parameter conversion
        conv = F.trait_impl_fn("<%s as core::convert::TryFrom<%s>>" % (KNOWN, PARAMS), "try_from")
        if ctx.oblige("C14|known|anchor", conv is not None, "anchor missing: TryFrom<PublicKeyCredentialParameters> for Known..", cfg=cfg):
            known_conversion(ctx, F, cfg, conv)
        # ------------------------------------------------ constants
        ka = F.const_value("webauthn::KNOWN_ALGS")
        ctx.oblige("C14|const|KNOWN_ALGS", isinstance(ka, list) and sorted(ka) == [-8, -7], "KNOWN_ALGS = %s, expected the set {ES256 (-7), EdDSA (-8)}" % (ka,), cfg=cfg)
        ctx.oblige("C14|const|ES256", F.const_value("webauthn::ES256") == -7 and F.const_value("webauthn::ED_DSA") == -8, "ES256/ED_DSA constants changed", cfg=cfg, nontrivial=False)
        ctx.oblige("C14|const|COUNT", F.const_value("webauthn::COUNT_KNOWN_ALGS") == 2, "COUNT_KNOWN_ALGS = %s" % F.const_value("webauthn::COUNT_KNOWN_ALGS"), cfg=cfg)
        ft = W.field_types(F, "webauthn::FilteredPublicKeyCredentialParameters") or {}
        cap = W.capacity(ft.get("0", ""))
        ctx.oblige("C14|cap|algs", cap.get("kind") == "list" and cap.get("cap") == 2 == len(ka or []) and cap.get("elem") == KNOWN, "filtered list is %s: it must hold every known algorithm (2)" % ft.get("0"), cfg=cfg)
        ft = W.field_types(F, "ctap2::AttestationFormatsPreference") or {}
        cap = W.capacity(ft.get("known_formats", ""))
        fmt = F.adt(FMT)
        ctx.oblige("C14|cap|formats", cap.get("kind") == "list" and fmt is not None and cap.get("cap") == len(fmt["variants"]) == 2 and cap.get("elem") == FMT,
                   "known_formats is %s for %s known formats" % (ft.get("known_formats"), fmt and len(fmt["variants"])), cfg=cfg)
        ctx.oblige("C14|formats|flag-type", ft.get("unknown") == "bool", "the unknown-format flag is %s" % ft.get("unknown"), cfg=cfg, nontrivial=False)
        # ------------------------------------------------ attestation formats
        check_filter(ctx, F, cfg, "ctap2::AttestationFormatsPreference", lambda out, member: member(out, "known_formats"), "&str",
                     "<%s as core::convert::TryFrom<&str>>" % FMT, "C14|formats", flag="unknown")
        # accepted formats
        bwd = F.trait_impl_fn("<%s as core::convert::TryFrom<&str>>" % FMT, "try_from")
        if ctx.oblige("C14|formats|table|anchor", bwd is not None, "anchor missing: TryFrom<&str> for AttestationStatementFormat", cfg=cfg):
            from . import ftable as FT
            try:
                tab = FT.value_table(F, bwd, ["none", "packed", FT.OTHER], add_literals=True)
                acc = {v for v, r in tab.items() if FT.classify(r)[0] == "ok"}
                names = {v: FT.ctor_name(FT.classify(tab[v])[1]) for v in acc}
                ctx.oblige("C14|formats|table", acc == {"none", "packed"} and names == {"none": "None", "packed": "Packed"}, "known attestation formats are %s" % sorted(names.items()), cfg=cfg, where=bwd["sp"])
            except FT.Unreadable as e:
                ctx.violation("C14|formats|table|unreadable", "UNREADABLE-IMPL: %s" % e, cfg=cfg)
