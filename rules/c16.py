"""C16 — cargo features only add members; they never change the wire format of the rest.

Decides (S, finite): for every pair of the 8 wire configurations (and all-features vs
all-features+arbitrary+std) and every crate type present in both, the encode table, the decode
table and the evaluated field types restricted to the members common to both configurations are
identical: same key/name (and aliases), same optionality on both sides, same evaluated type, same
lossy wiring, same relative emission order; enum discriminants, string tables and declared
constants are identical.  Any difference must be a member that exists in only one configuration.
The single whitelisted type-level difference is large_blobs::Response.config
(Bytes<LARGE_BLOB_MAX_FRAGMENT_LENGTH>: 0 vs 3008, documented in sizes.rs; capacity only).
This compares the generators of all transcripts rather than a sampled corpus of transcripts.
"""
import itertools

from . import extract
from . import hirq as H
from . import tables as T
from . import wire as W

LEVEL = "proof"

WHITELIST_TYPE = {("ctap2::large_blobs::Response", "config")}
WHITELIST_CONST = {"sizes::LARGE_BLOB_MAX_FRAGMENT_LENGTH"}
# functions whose bodies legitimately differ: they only initialise / inspect members that a feature adds
GATED_CODE = {
    "ctap2::get_info::ResponseBuilder::build": "struct literal lists the get-info-full members",
    "<ctap2::get_info::CtapOptions as core::default::Default>::default": "struct literal lists the get-info-full members",
    "ctap2::get_assertion::ExtensionsOutput::is_set": "also tests third_party_payment when that member exists",
}
STRING_ENUMS = ["ctap2::get_info::Version", "ctap2::get_info::Extension", "ctap2::get_info::Transport", "ctap2::AttestationStatementFormat"]


def signature(ctx, F, cfg):
    sig = {}
    for a in F.adts.values():
        if not a["local"]:
            continue
        path = a["path"]
        if "::deserialize::" in path or "__" in path.split("::")[-1]:
            continue   # derive-internal helper types
        s = {"kind": a["kind"]}
        if a["kind"] == "enum":
            s["variants"] = [(v["name"], v.get("discr"), tuple(W.erase_lt(f["ty"]["s"]) for f in v["fields"])) for v in a["variants"]]
            s["repr"] = a["repr"].get("int")
        else:
            s["fields"] = {f["name"]: W.erase_lt(f["ty"]["s"]) for v in a["variants"] for f in v["fields"]}
            s["field_order"] = [f["name"] for v in a["variants"] for f in v["fields"]]
            try:
                enc = W.encode_table(F, path)
                dec = W.decode_table(F, path)
            except T.Unreadable as e:
                ctx.violation("C16|unreadable|" + path, "UNREADABLE-IMPL: %s: %s" % (path, e), cfg=cfg)
                enc = dec = None
            if enc:
                s["enc_kind"] = enc["kind"]
                s["enc"] = [(m["field"], m["key"], m["optional"], (m["guard"] or {}).get("pred"), (m["guard"] or {}).get("field")) for m in enc["members"]]
            if dec:
                s["dec_kind"] = dec["kind"]
                s["dec"] = {m["field"]: (m["key"], tuple(sorted(m["aliases"])), m["required"], m["ty"], (m["with"] or {}).get("fn"), tuple((m["with"] or {}).get("targs") or [])[1:]) for m in dec["members"]}
                s["dec_unknown"] = dec["unknown"]
        sig[path] = s
    tables = {}
    for path in STRING_ENUMS:
        fwd = F.trait_impl_fn("<&str as core::convert::From<%s>>" % path, "from")
        bwd = F.trait_impl_fn("<%s as core::convert::TryFrom<&str>>" % path, "try_from")
        from . import ftable as FT
        try:
            if fwd and bwd:
                enc, dec, _f, _b = FT.string_tables(F, path)
                tables[path] = (sorted(enc.items()), sorted((repr(k), v) for k, v in dec.items()))
        except FT.Unreadable:
            tables[path] = "unreadable"
    import re as _re
    # rustc prints constants that live in memory (&[&str], &[T]) by allocation id, which is not a value: compare their type only
    def norm(v):
        v = _re.sub(r"alloc_id: alloc\d+", "alloc_id: <alloc>", v or "")
        # a struct-valued constant: members that are `None` are left out, so that a member which exists only with a feature and
        # is unset in the constant does not make the constant "depend on features" (features only add members)
        if _re.match(r"^[\w:<>, ]+ \{\{ .* \}\}$", v):
            v = _re.sub(r"(?:, )?\b\w+: core::option::Option::<[^{}]*?>::None(?=, | \}\})", "", v)
            v = v.replace("{{ , ", "{{ ")
        return v
    consts = {p: norm(c.get("val")) for p, c in F.consts.items() if c.get("pv") == "user" and not p.endswith("::_")}
    return sig, tables, consts


def run(ctx):
    ctx.explanation = ("Cross-configuration diff of the extracted generators (encode tables, decode tables, evaluated field types, discriminants, string tables, constants) "
                       "for all 28 pairs of the 8 wire configurations plus the std/arbitrary corner; every difference must be a member present in only one configuration.")
    ctx.rule = "obligation = (configuration pair, type, common member / table) ; all pairs x all members enumerated"
    ctx.trusted = ["the per-configuration tables are what the derives generate for that configuration (read from typed HIR, not assumed)"]
    ctx.extra["exhaustive"] = True
    sigs = {cfg: signature(ctx, F, cfg) for cfg, F in ctx.facts.items()}
    wire = [c for c in extract.WIRE_CONFIGS if c in sigs]
    pairs = list(itertools.combinations(wire, 2))
    if "k7" in sigs and "k9" in sigs:
        pairs.append(("k7", "k9"))
    ctx.floor("configuration pairs", len(pairs), 29)
    n_types = 0
    for ca, cb in pairs:
        (sa, ta, ka), (sb, tb, kb) = sigs[ca], sigs[cb]
        tag = "%s~%s" % (extract.cfg_label(ca), extract.cfg_label(cb))
        for path in sorted(set(sa) & set(sb)):
            a, b = sa[path], sb[path]
            n_types += 1
            key = "C16|%s" % path

            def bad(suffix, msg):
                ctx.oblige(key + "|" + suffix, False, "%s differs between configurations %s: %s" % (path, tag, msg))

            if a["kind"] != b["kind"]:
                bad("kind", "struct/enum kind")
                continue
            if a["kind"] == "enum":
                va = {v[0]: v for v in a["variants"]}
                vb = {v[0]: v for v in b["variants"]}
                diff = [n for n in set(va) & set(vb) if va[n] != vb[n]]
                ctx.oblige(key + "|variants", not diff and a["repr"] == b["repr"], "%s: variants %s differ between %s" % (path, diff, tag))
                continue
            common = [f for f in a["field_order"] if f in b["fields"]]
            for f in common:
                if a["fields"][f] != b["fields"][f] and (path, f) not in WHITELIST_TYPE:
                    bad("type|" + f, "%s.%s is %s vs %s" % (path, f, a["fields"][f], b["fields"][f]))
                else:
                    ctx.oblige(key + "|type|" + f, True)
            for side in ("enc", "dec"):
                if (side in a) != (side in b):
                    bad(side + "|presence", "has a %s table in only one configuration" % side)
            if "enc" in a and "enc" in b:
                ea = [m for m in a["enc"] if m[0] in b["fields"]]
                eb = [m for m in b["enc"] if m[0] in a["fields"]]
                ma, mb = {m[0]: m for m in ea}, {m[0]: m for m in eb}
                for f in sorted(set(ma) | set(mb)):
                    if ma.get(f) != mb.get(f):
                        bad("enc|" + f, "member %s is emitted as %s vs %s (field, key, optional, predicate)" % (f, ma.get(f), mb.get(f)))
                    else:
                        ctx.oblige(key + "|enc|" + f, True)
                # a member that exists in only one of the two configurations must vanish from the encoding when it is not set:
                # otherwise a value that uses only common members encodes differently where the feature is enabled
                for side_enc, other_fields, lab in ((a["enc"], b["fields"], ca), (b["enc"], a["fields"], cb)):
                    for m in side_enc:
                        if m[0] not in other_fields:
                            ctx.oblige(key + "|gated-skippable|" + m[0], m[2] is True and m[3] == T.IS_NONE and m[4] == m[0],
                                       "%s.%s exists only with a feature (%s) but is emitted %s: a value that leaves it unset encodes differently across configurations" %
                                       (path, m[0], extract.cfg_label(lab), "unconditionally" if not m[2] else "under %s(%s)" % (m[3], m[4])))
                if [m[0] for m in ea] != [m[0] for m in eb]:
                    bad("enc-order", "relative emission order of common members %s vs %s" % ([m[0] for m in ea], [m[0] for m in eb]))
                if a.get("enc_kind") != b.get("enc_kind"):
                    bad("enc-kind", "%s vs %s" % (a.get("enc_kind"), b.get("enc_kind")))
            if "dec" in a and "dec" in b:
                for f in sorted((set(a["dec"]) | set(b["dec"])) & set(a["fields"]) & set(b["fields"])):
                    da, db = a["dec"].get(f), b["dec"].get(f)
                    if da != db and not ((path, f) in WHITELIST_TYPE and da and db and da[:3] == db[:3]):
                        bad("dec|" + f, "member %s is decoded as %s vs %s (key, aliases, required, type, lossy decoder)" % (f, da, db))
                    else:
                        ctx.oblige(key + "|dec|" + f, True)
                if a.get("dec_unknown") != b.get("dec_unknown") or a.get("dec_kind") != b.get("dec_kind"):
                    bad("dec-unknown", "treatment of unknown members %s vs %s" % (a.get("dec_unknown"), b.get("dec_unknown")))
        for path in sorted(set(ta) & set(tb)):
            ctx.oblige("C16|strings|" + path, ta[path] == tb[path] and ta[path] != "unreadable", "string table of %s differs between %s" % (path, tag))
        for p in sorted(set(ka) & set(kb)):
            if p in WHITELIST_CONST:
                continue
            ctx.oblige("C16|const|" + p, ka[p] == kb[p], "constant %s is %s vs %s between %s" % (p, ka[p], kb[p], tag), nontrivial=False)
    ctx.floor("type comparisons over all pairs", n_types, 29 * 60)
    # ---- code may not read what a feature changes
    # (1) a constant whose value differs between configurations is never read in a function body (it may size a type)
    all_consts = {}
    for cfg, (_, _, k) in sigs.items():
        for p, v in k.items():
            all_consts.setdefault(p, {})[cfg] = v
    varying = {p for p, vs in all_consts.items() if len(set(vs.values())) > 1}
    ctx.oblige("C16|varying-consts", varying <= WHITELIST_CONST, "constants whose value depends on features: %s (only %s is documented)" % (sorted(varying), sorted(WHITELIST_CONST)))
    for cfg, F in ctx.facts.items():
        for f in F.fns:
            for x in H.walk(f["body"]):
                if x.get("k") == "path" and (x["res"].get("rk") or "").split(" ")[0].split("{")[0] in ("Const", "AssocConst") and x["res"].get("path") in varying:
                    ctx.oblige("C16|feature-const-in-code|%s|%s" % (f["path"][:100], x["res"]["path"]), False,
                               "%s reads %s, whose value depends on the enabled features: the encoding/decoding of members common to all configurations now differs between them" % (f["path"][:120], x["res"]["path"]),
                               cfg=cfg, where=H.line(x))
    # (2) hand-written code common to two configurations is the same code (cfg!/cfg-gated statements outside the documented places)
    def canon(n):
        if isinstance(n, dict):
            return {k: canon(v) for k, v in n.items() if k not in ("sp", "pv", "id")}
        if isinstance(n, list):
            return [canon(x) for x in n]
        return n
    import json as _json
    bodies = {}
    for cfg, F in ctx.facts.items():
        for f in F.fns:
            if f["pv"] == "user" and f["kind"] in ("Fn", "AssocFn") and not f["path"].startswith("arbitrary::"):
                bodies.setdefault(f["path"], {})[cfg] = _json.dumps(canon(f["body"]), sort_keys=True)
    n_fn = 0
    for path, per in sorted(bodies.items()):
        if path in GATED_CODE:
            continue
        n_fn += 1
        ref_cfg = sorted(per)[0]
        diff = [c for c in per if per[c] != per[ref_cfg]]
        ctx.oblige("C16|same-code|" + path[:120], not diff,
                   "hand-written function %s compiles to different code in configurations %s vs %s (cfg-dependent logic outside the documented member-initialisation sites)" % (path[:120], ref_cfg, sorted(diff)))
    ctx.floor("hand-written functions compared across configurations", n_fn, 50)
    if "k0" in sigs and "k7" in sigs:
        s0, s7 = sigs["k0"][0], sigs["k7"][0]
        added = {p: sorted(set(s7[p].get("fields", {})) - set(s0[p].get("fields", {}))) for p in s0 if p in s7 and s0[p]["kind"] == "struct"}
        ctx.sample({"members_added_by_features(k0->k7)": {p: v for p, v in added.items() if v}})
        ctx.sample({"types_only_with_features": sorted(set(s7) - set(s0))})
