"""Finite decision tables of small conversion functions from their path summaries (rule kind T).

value_table:   fn(x) for one integer / string argument -> for every value of a finite domain the unique path whose
               comparisons admit it (valueset: set algebra over the literals compared with x) and the term it returns;
variant_table: fn(e) for one enum argument -> for every variant the unique path whose variant tests admit it.
Helpers (`as_str`, `find_by_name(&ALL, ..)`), named constants, if-chains, match tables, range tests and
`ARRAY.iter().find(|v| key(v) == x)` lookups all reduce to the same tables."""
from . import hirq as H
from . import sym as S
from . import valueset as VS


class Unreadable(Exception):
    pass


def _param(fn):
    names = [n for p in fn["params"] for n, _ in H.pat_bindings(p)]
    if len(names) != 1:
        raise Unreadable("%s does not take exactly one argument" % fn["path"])
    return ("param", names[0])


def value_table(F, fn, domain, inline=None, add_literals=False):
    """{value: result term} over `domain`; raises Unreadable when a path decides on anything but comparisons of the argument.
    add_literals: every literal the argument is compared with joins the domain -- together with one probe value that equals none
    of them, the table then describes the function on *all* inputs (for functions that only test equality with literals)."""
    var = _param(fn)
    try:
        paths = S.Sym(F, fn, inline=inline).run(split_result=True)
    except S.TooManyPaths:
        raise Unreadable("too many paths")
    dom = list(domain)
    if add_literals:
        for p in paths:
            for a in p.atoms:
                if a[0] == "eq" and a[1] == var and a[2][0] == "lit" and a[2][1] not in dom:
                    dom.append(a[2][1])
                elif a[0] != "eq" and VS.mentions(a[1], var):
                    raise Unreadable("the argument is tested by more than equality with literals: %s" % S.show_atom(a))
    out = {}
    for p in paths:
        vals, bad = VS.path_set(p.atoms, var, dom)
        other = [a for a in p.atoms if VS.atom_set(a, var, dom) is None]
        if not vals:
            continue
        if bad or other:
            raise Unreadable("decides on %s" % [S.show_atom(a) for a in (bad + other)][:2])
        if p.done and p.done[0] == "panic" or p.done == "diverge":
            raise Unreadable("can panic for %s" % sorted(vals, key=repr)[:3])
        for v in vals:
            if v in out:
                raise Unreadable("value %r is served by two paths" % (v,))
            out[v] = p.result
    missing = [v for v in dom if v not in out]
    if missing:
        raise Unreadable("values %s are not covered by any path" % missing[:4])
    return out


def variant_table(F, fn, enum_path, inline=None):
    """{variant name: result term}"""
    var = _param(fn)
    adt = F.adt(enum_path)
    if adt is None:
        raise Unreadable("anchor missing: " + enum_path)
    try:
        paths = S.Sym(F, fn, inline=inline).run(split_result=True)
    except S.TooManyPaths:
        raise Unreadable("too many paths")
    out = {}
    for v in adt["variants"]:
        sel, und = S.select(paths, {var: enum_path + "::" + v["name"]})
        if und:
            raise Unreadable("decides on more than the variant: %s" % [S.show_atom(a) for a in und][:2])
        if len(sel) != 1:
            raise Unreadable("%d paths for variant %s" % (len(sel), v["name"]))
        if sel[0].done and sel[0].done[0] == "panic":
            raise Unreadable("can panic for variant %s" % v["name"])
        out[v["name"]] = sel[0].result
    return out


def classify(r):
    """('ok', payload) | ('err', payload) | ('value', term)"""
    if r is not None and r[0] == "ctor" and r[1] == S.OK:
        return "ok", r[2][0] if r[2] else None
    if r is not None and r[0] == "ctor" and r[1] == S.ERR:
        return "err", r[2][0] if r[2] else None
    return "value", r


def ctor_name(t):
    return t[1].split("::")[-1] if t is not None and t[0] == "ctor" else None

OTHER = "\x00<any other string>"


def string_tables(F, path, extra=()):
    """(encode {variant name: spelling}, decode {spelling: variant name or None}) of a string-valued enum; the decode table has a row
    for every literal the decoder compares with, for `extra`, and for OTHER (a string equal to none of them)"""
    fwd = F.trait_impl_fn("<&str as core::convert::From<%s>>" % path, "from")
    bwd = F.trait_impl_fn("<%s as core::convert::TryFrom<&str>>" % path, "try_from")
    if fwd is None or bwd is None:
        raise Unreadable("anchor missing: string tables of " + path)
    ftab = variant_table(F, fwd, path)
    enc = {name: (r[1] if r is not None and r[0] == "lit" and isinstance(r[1], str) else None) for name, r in ftab.items()}
    btab = value_table(F, bwd, [s for s in list(enc.values()) + list(extra) if s is not None] + [OTHER], add_literals=True)
    dec = {}
    for v, r in btab.items():
        kind, pay = classify(r)
        dec[v] = ctor_name(pay) if kind == "ok" else None
    return enc, dec, fwd, bwd
