"""Finite decision tables of small conversion functions from their path summaries (rule kind T).

value_table:   fn(x) for one integer / string argument -> for every value of a finite domain the unique path whose
               comparisons admit it (valueset: set algebra over the literals compared with x) and the term it returns;
variant_table: fn(e) for one enum argument -> for every variant the unique path whose variant tests admit it.
Helpers (`as_str`, `find_by_name(&ALL, ..)`), named constants, if-chains, match tables, range tests and
`ARRAY.iter().find(|v| key(v) == x)` lookups all reduce to the same tables."""
from . import hirq as H
from . import sym as S
from . import valueset as VS


class Unreadable(Exception):
    pass


def _param(fn):
    names = [n for p in fn["params"] for n, _ in H.pat_bindings(p)]
    if len(names) != 1:
        raise Unreadable("%s does not take exactly one argument" % fn["path"])
    return ("param", names[0])


def value_table(F, fn, domain, inline=None, add_literals=False):
    """{value: result term} over `domain`; raises Unreadable when a path decides on anything but comparisons of the argument.
    add_literals: every literal the argument is compared with joins the domain -- together with one probe value that equals none
    of them, the table then describes the function on *all* inputs (for functions that only test equality with literals)."""
    var = _param(fn)
    try:
        paths = S.Sym(F, fn, inline=inline).run(split_result=True)
    except S.TooManyPaths:
        raise Unreadable("too many paths")
    return table_of_paths(paths, var, domain, add_literals)


def table_of_paths(paths, var, domain, add_literals=False, ignore=None):
    """the table of `var` over the given path summaries; atoms for which ignore(atom) holds are not the table's business"""
    dom = list(domain)
    if add_literals:
        for p in paths:
            for a in p.atoms:
                if ignore and ignore(a):
                    continue
                if a[0] == "eq" and a[1] == var and a[2][0] == "lit" and a[2][1] not in dom:
                    dom.append(a[2][1])
                elif a[0] != "eq" and VS.mentions(a[1], var):
                    raise Unreadable("the argument is tested by more than equality with literals: %s" % S.show_atom(a))
    out = {}
    for p in paths:
        atoms = [a for a in p.atoms if not (ignore and ignore(a))]
        vals, bad = VS.path_set(atoms, var, dom)
        other = [a for a in atoms if VS.atom_set(a, var, dom) is None]
        if not vals:
            continue
        if bad or other:
            raise Unreadable("decides on %s" % [S.show_atom(a) for a in (bad + other)][:2])
        if p.done and p.done[0] == "panic" or p.done == "diverge":
            raise Unreadable("can panic for %s" % sorted(vals, key=repr)[:3])
        for v in vals:
            if v in out:
                raise Unreadable("value %r is served by two paths" % (v,))
            out[v] = p.result
    missing = [v for v in dom if v not in out]
    if missing:
        raise Unreadable("values %s are not covered by any path" % missing[:4])
    return out


def variant_table(F, fn, enum_path, inline=None):
    """{variant name: result term}"""
    var = _param(fn)
    adt = F.adt(enum_path)
    if adt is None:
        raise Unreadable("anchor missing: " + enum_path)
    try:
        paths = S.Sym(F, fn, inline=inline).run(split_result=True)
    except S.TooManyPaths:
        raise Unreadable("too many paths")
    out = {}
    for v in adt["variants"]:
        sel, und = S.select(paths, {var: enum_path + "::" + v["name"]})
        if und:
            raise Unreadable("decides on more than the variant: %s" % [S.show_atom(a) for a in und][:2])
        if len(sel) != 1:
            raise Unreadable("%d paths for variant %s" % (len(sel), v["name"]))
        if sel[0].done and sel[0].done[0] == "panic":
            raise Unreadable("can panic for variant %s" % v["name"])
        out[v["name"]] = sel[0].result
    return out


def classify(r):
    """('ok', payload) | ('err', payload) | ('value', term)"""
    if r is not None and r[0] == "ctor" and r[1] == S.OK:
        return "ok", r[2][0] if r[2] else None
    if r is not None and r[0] == "ctor" and r[1] == S.ERR:
        return "err", r[2][0] if r[2] else None
    return "value", r


def ctor_name(t):
    return t[1].split("::")[-1] if t is not None and t[0] == "ctor" else None

OTHER = "\x00<any other string>"


def string_tables(F, path, extra=()):
    """(encode {variant name: spelling}, decode {spelling: variant name or None}) of a string-valued enum; the decode table has a row
    for every literal the decoder compares with, for `extra`, and for OTHER (a string equal to none of them)"""
    fwd = F.trait_impl_fn("<&str as core::convert::From<%s>>" % path, "from")
    bwd = F.trait_impl_fn("<%s as core::convert::TryFrom<&str>>" % path, "try_from")
    if fwd is None or bwd is None:
        raise Unreadable("anchor missing: string tables of " + path)
    ftab = variant_table(F, fwd, path)
    enc = {name: (r[1] if r is not None and r[0] == "lit" and isinstance(r[1], str) else None) for name, r in ftab.items()}
    btab = value_table(F, bwd, [s for s in list(enc.values()) + list(extra) if s is not None] + [OTHER], add_literals=True)
    dec = {}
    for v, r in btab.items():
        kind, pay = classify(r)
        dec[v] = ctor_name(pay) if kind == "ok" else None
    return enc, dec, fwd, bwd


# ---- unit-only enums on the wire: what Serialize emits per variant, what Deserialize accepts (derived or hand-written alike)
SER_SELF = "serde_core::ser::Serialize::serialize"
DE_SELF = "serde_core::de::Deserialize::deserialize"
SER_PRIM = "serde_core::ser::Serializer::serialize_"


def _tc(callee, node):
    """the trait method a call names (the callee may have been resolved to an impl)"""
    c = (node or {}).get("callee") if isinstance(node, dict) else None
    return c or callee or ""


def _leaf_ty(t):
    t = (t or "").strip()
    while t.startswith("&"):
        t = t[1:].strip()
        if t.startswith("'"):
            t = t.split(" ", 1)[1] if " " in t else t
    return t


def enum_encode(F, path):
    """(leaf type, {variant name: literal emitted}) of the Serialize impl of the unit-only enum `path`: for every variant the one
    non-failing path makes exactly one primitive emission, of a literal, and returns its result"""
    fns = F.impl_fn("serde_core::ser::Serialize", path, "serialize")
    adt = F.adt(path)
    if len(fns) != 1 or adt is None:
        raise Unreadable("anchor missing: Serialize for " + path)
    fn = fns[0]
    names = [n for p in fn["params"] for n, _ in H.pat_bindings(p)]
    leaf = set()
    out = {}
    for v in adt["variants"]:
        if v["fields"]:
            raise Unreadable("%s::%s carries data" % (path, v["name"]))
        sym = S.Sym(F, fn, is_effect=lambda c, a, n, st: _tc(c, n).startswith(SER_PRIM) or _tc(c, n) == SER_SELF, param_terms={names[0]: ("ctor", path + "::" + v["name"], ())})
        try:
            paths = sym.run()
        except S.TooManyPaths:
            raise Unreadable("too many paths")
        if len(paths) != 1 or paths[0].done and paths[0].done[0] == "panic":
            raise Unreadable("%d paths (or a panic) for %s" % (len(paths), v["name"]))
        p = paths[0]
        if len(p.effects) != 1:
            raise Unreadable("%d emissions for %s" % (len(p.effects), v["name"]))
        e = p.effects[0]
        tc = _tc(e.callee, e.node)
        if tc == SER_SELF:
            ty, val, ser = _leaf_ty((e.node.get("targs") or [""])[0]), e.args[0], e.args[1]
        else:
            ty, val, ser = tc[len(SER_PRIM):], e.args[1], e.args[0]
        if ser != ("param", names[1]):
            raise Unreadable("emission for %s does not go to the serializer argument" % v["name"])
        if p.result != e.term:
            raise Unreadable("the emission's result is not what is returned for %s" % v["name"])
        if val[0] != "lit":
            raise Unreadable("emits %s for %s" % (S.show(val)[:60], v["name"]))
        leaf.add(ty)
        out[v["name"]] = val[1]
    if len(leaf) != 1:
        raise Unreadable("variants are emitted as different types: %s" % sorted(leaf))
    return leaf.pop(), out, fn


def enum_decode(F, path, domain, add_literals=False):
    """(leaf type, {value: variant name or None}) of the Deserialize impl: it reads one primitive; when that fails the failure is
    returned; otherwise the result is decided by comparisons of the value read alone"""
    fns = F.impl_fn("serde_core::de::Deserialize", path, "deserialize")
    if len(fns) != 1:
        raise Unreadable("anchor missing: Deserialize for " + path)
    fn = fns[0]
    sym = S.Sym(F, fn, is_effect=lambda c, a, n, st: _tc(c, n) == DE_SELF or _tc(c, n).startswith("serde_core::de::Deserializer::deserialize_"))
    try:
        paths = sym.run(split_result=True)
    except S.TooManyPaths:
        raise Unreadable("too many paths")
    reads = {e.term: e for p in paths for e in p.effects}
    if len(reads) != 1:
        raise Unreadable("%d reads from the deserializer" % len(reads))
    rd = next(iter(reads.values()))
    if _tc(rd.callee, rd.node) != DE_SELF:
        raise Unreadable("reads through %s" % rd.callee)
    ty = _leaf_ty((rd.node.get("targs") or [""])[0])
    var = sym.proj(rd.term, S.OK, 0)
    good = []
    for p in paths:
        known = sym.lookup(p, rd.term)
        if known == S.ERR:
            kind, _ = classify(p.result)
            if kind != "err":
                raise Unreadable("a failed read is not reported")
            continue
        if known != S.OK:
            raise Unreadable("the read's outcome is not examined on a path")
        good.append(p)
    tab = table_of_paths(good, var, domain, add_literals, ignore=lambda a: a[1] == rd.term)
    out = {}
    for val, r in tab.items():
        kind, pay = classify(r)
        if kind == "ok":
            name = ctor_name(pay)
            if name is None:
                raise Unreadable("value %r decodes to %s" % (val, S.show(pay)[:60]))
            out[val] = name
        elif kind == "err":
            out[val] = None
        else:
            raise Unreadable("value %r: result %s" % (val, S.show(r)[:60]))
    return ty, out, fn
