"""C15 — encoding then decoding (and decoding then encoding) is the identity.

Decides (S — sibling symmetry, no oracle): for every crate type implementing both directions,
  * map types: the Serialize table and the Deserialize table are the same relation key <-> field;
    a member can be skipped on encode iff it is optional on decode; the only member that is decoded
    but never emitted, and the only extra decode-side name, are the documented ones (rp.icon, "url");
    both sides read/write the member's own field type; emission is in canonical order (so
    re-encoding canonical bytes reproduces them);
  * string enums: `From<E> for &str` and `TryFrom<&str> for E` are mutually inverse tables and the
    serde impls go through them;
  * serde_repr enums: the encoder emits the variant's own discriminant, the decoder's table is the
    discriminant table;
  * the filtered parameter list re-emits {alg, "public-key"} for exactly the entries its decoder keeps.
Not decided: equality for every *value* of the leaf types (symmetric in the dependencies).
"""
import json
import os
VERIF = os.path.dirname(os.path.dirname(os.path.abspath(__file__)))
from . import hirq as H
from . import tables as T
from . import wire as W
from .c03 import canon_key
from .facts import SER, DE

LEVEL = "other"

DOCUMENTED_DECODE_ONLY = {("webauthn::PublicKeyCredentialRpEntity", "icon")}
DOCUMENTED_ALIASES = {("webauthn::PublicKeyCredentialRpEntity", "icon"): ["url"]}
STRING_ENUMS = ["ctap2::get_info::Version", "ctap2::get_info::Extension", "ctap2::get_info::Transport", "ctap2::AttestationStatementFormat"]


def run(ctx):
    ctx.explanation = ("Sibling symmetry between the two directions of every bidirectional type, read from the generated / hand-written impls (typed HIR) in all 9 "
                       "configurations: same key<->field relation, skippable-iff-optional, same field types, canonical emission order, inverse string tables, discriminant tables.")
    ctx.rule = "obligation = (type, member, clause) | (enum, row) per configuration"
    ctx.trusted = ["leaf codecs are symmetric: cbor-smol 0.5.1, heapless, heapless-bytes, serde_bytes, cosey", "serde derive expansions (read from typed HIR)"]
    spec_msgs = json.load(open(os.path.join(VERIF, "spec", "ctap2_messages.json")))
    for cfg, F in ctx.facts.items():
        # a response value reaches the wire through ctap2::Response::serialize: that its body is the encoding of the variant's own
        # payload -- in every configuration in which the variant exists -- is a necessary condition of "decode(encode(v)) == v"
        # (C17's payload clause; a variant encoded as nothing in some configuration loses its value there)
        from . import c17
        from .engine import Probe
        prp = Probe(facts={cfg: F})
        c17.payload(prp, F, cfg, spec_msgs, P="C17")
        ctx.oblige("C15|response-frame", not prp.failed,
                   "a response is not sent as the encoding of its own payload, what is decoded from it differs from the value encoded: %s" % "; ".join("%s: %s" % (k, m[:160]) for k, m in prp.failed[:2]), cfg=cfg)
        n_types = 0
        n_repr = 0
        for a in sorted(F.adts.values(), key=lambda a: a["path"]):
            if not a["local"]:
                continue
            path = a["path"]
            ser, de = T.ser_impl(F, path), T.de_impl(F, path)
            if ser is None or de is None:
                continue
            try:
                enc = W.encode_table(F, path)
                dec = W.decode_table(F, path)
            except T.Unreadable as e:
                ctx.violation("C15|unreadable|" + path, "UNREADABLE-IMPL: %s: %s" % (path, e), cfg=cfg)
                continue
            if enc is None and dec is None:
                continue   # enums / sequences: below
            n_types += 1
            if not ctx.oblige("C15|both-maps|" + path, enc is not None and dec is not None and enc["kind"] == dec["kind"],
                              "%s encodes as %s but decodes as %s" % (path, enc and enc["kind"], dec and dec["kind"]), cfg=cfg):
                continue
            dby = {m["field"]: m for m in dec["members"]}
            eby = {m["field"]: m for m in enc["members"]}
            for f, e in eby.items():
                key = "C15|member|%s|%s" % (path, f)
                d = dby.get(f)
                if not ctx.oblige(key + "|decoded", d is not None, "%s.%s is emitted but never decoded" % (path, f), cfg=cfg, where=H.line(e["node"])):
                    continue
                ctx.oblige(key + "|key", d["key"] == e["key"], "%s.%s is emitted under %r but decoded from %r" % (path, f, e["key"], d["key"]), cfg=cfg, where=H.line(e["node"]))
                ctx.oblige(key + "|optionality", e["optional"] == (d["required"] is False),
                           "%s.%s is %s on encode but %s on decode" % (path, f, "skippable" if e["optional"] else "always emitted", "required" if d["required"] else "optional"), cfg=cfg, where=H.line(e["node"]))
                if e["optional"]:
                    ctx.oblige(key + "|predicate", W.guard_ok(e), "%s.%s is skipped by a predicate other than `is None` on itself" % (path, f), cfg=cfg, where=H.line(e["node"]), nontrivial=False)
                # same value type on both sides
                if dec["kind"] == "indexed":
                    exp = d["ty"] if d["required"] else "core::option::Option<%s>" % d["ty"]
                else:
                    exp = d["ty"]
                ctx.oblige(key + "|type", e["field_ty"] == exp or (d["with"] is not None and W.unoption(e["field_ty"])[0] == W.unoption(exp)[0]),
                           "%s.%s has type %s but is decoded as %s" % (path, f, e["field_ty"], exp), cfg=cfg, nontrivial=False)
                want_alias = DOCUMENTED_ALIASES.get((path, f), [])
                ctx.oblige(key + "|aliases", sorted(d["aliases"]) == sorted(want_alias), "%s.%s is also decoded from %s" % (path, f, d["aliases"]), cfg=cfg, nontrivial=False)
            for f, d in dby.items():
                if f not in eby:
                    ctx.oblige("C15|decode-only|%s|%s" % (path, f), (path, f) in DOCUMENTED_DECODE_ONLY, "%s.%s is decoded but never re-emitted" % (path, f), cfg=cfg)
                    want_alias = DOCUMENTED_ALIASES.get((path, f), [])
                    ctx.oblige("C15|decode-only|%s|%s|aliases" % (path, f), sorted(d["aliases"]) == sorted(want_alias), "%s.%s is also decoded from %s" % (path, f, d["aliases"]), cfg=cfg, nontrivial=False)
            # names on the decode side never shadow another member's name
            names = [k for m in dec["members"] for k in [m["key"]] + m["aliases"]]
            ctx.oblige("C15|names-unique|" + path, len(names) == len(set(names)), "%s: two members are decoded from the same name: %s" % (path, names), cfg=cfg, nontrivial=False)
            # canonical emission: re-encoding canonical bytes reproduces them
            ks = [canon_key(m["key"]) for m in enc["members"]]
            ctx.oblige("C15|canonical-order|" + path, all(k is not None for k in ks) and all(ks[i] < ks[i + 1] for i in range(len(ks) - 1)),
                       "%s is not emitted in canonical key order: decode-then-encode does not reproduce canonical bytes" % path, cfg=cfg)
            ctx.sample({"cfg": cfg, "type": path, "relation": [[m["key"], m["field"], "optional" if m["optional"] else "required"] for m in enc["members"]]}, limit=30)
        # string enums
        for path in STRING_ENUMS:
            short = path.split("::")[-1]
            fwd = F.trait_impl_fn("<&str as core::convert::From<%s>>" % path, "from")
            bwd = F.trait_impl_fn("<%s as core::convert::TryFrom<&str>>" % path, "try_from")
            if not ctx.oblige("C15|str|%s|anchor" % short, fwd is not None and bwd is not None, "anchor missing: string tables of " + path, cfg=cfg):
                continue
            n_types += 1
            from . import ftable as FT
            try:
                enc, dec, _f, _b = FT.string_tables(F, path)
            except FT.Unreadable as e:
                ctx.violation("C15|str|%s|unreadable" % short, "UNREADABLE-IMPL: %s" % e, cfg=cfg)
                continue
            for var, s in enc.items():
                got = dec.get(s)
                ctx.oblige("C15|str|%s|enc-dec|%s" % (short, var), got == var, "%s::%s encodes as %r which decodes to %s" % (short, var, s, got), cfg=cfg, where=bwd["sp"])
            for s, var in dec.items():
                if var is None:
                    continue
                ctx.oblige("C15|str|%s|dec-enc|%s" % (short, s), enc.get(var) == s, "%r decodes to %s which re-encodes as %r" % (s, var, enc.get(var)), cfg=cfg, where=fwd["sp"])
            # the serde impls themselves (derived through into/try_from = "&str" or hand-written): what Serialize emits for a
            # variant is accepted by Deserialize as that variant, and vice versa
            try:
                ty_e, wenc, _ = FT.enum_encode(F, path)
                ty_d, wdec, _ = FT.enum_decode(F, path, [x for x in enc.values() if x is not None] + [FT.OTHER], add_literals=True)
                bad = [v for v, sp in wenc.items() if wdec.get(sp) != v] + [sp for sp, v in wdec.items() if v is not None and wenc.get(v) != sp]
                ctx.oblige("C15|str|%s|serde" % short, ty_e == "str" and ty_d == "str" and not bad and wenc == enc,
                           "%s: the Serialize and Deserialize impls are not inverse on %s (emits %s %s, reads %s %s)" % (short, bad[:3], ty_e, wenc, ty_d, {k: v for k, v in wdec.items() if v}), cfg=cfg)
            except FT.Unreadable as e:
                ctx.violation("C15|str|%s|serde" % short, "%s: the serde impls do not both go through the string tables (UNREADABLE-IMPL: %s)" % (short, e), cfg=cfg)
        # enums on the wire as their integer discriminant (serde_repr or hand-written)
        for a in sorted(F.adts.values(), key=lambda a: a["path"]):
            if not a["local"] or a["kind"] != "enum" or any(v["fields"] for v in a["variants"]) or not (a.get("repr") or {}).get("int"):
                continue
            ser, de = T.ser_impl(F, a["path"]), T.de_impl(F, a["path"])
            if ser is None or de is None:
                continue
            n_types += 1
            n_repr += 1
            discr = {v["name"]: v.get("discr") for v in a["variants"]}
            short = a["path"].split("::")[-1]
            from . import ftable as FT
            try:
                ty_e, wenc, _ = FT.enum_encode(F, a["path"])
                ctx.oblige("C15|repr|%s|ser" % short, wenc == discr, "%s: encoder does not emit each variant's own discriminant (%s)" % (short, wenc), cfg=cfg)
                ty_d, wdec, _ = FT.enum_decode(F, a["path"], range(256))
                acc = {v: n for v, n in wdec.items() if n is not None}
                ctx.oblige("C15|repr|%s|de" % short, acc == {v: n for n, v in discr.items()} and ty_e == ty_d,
                           "%s: decoder reads %s and accepts %s; the encoder emits %s %s" % (short, ty_d, acc, ty_e, discr), cfg=cfg)
            except FT.Unreadable as e:
                ctx.violation("C15|repr|%s|unreadable" % short, "UNREADABLE-IMPL: %s" % e, cfg=cfg)
        # filtered parameter list: decode keeps {type == L, alg in KNOWN}, encode re-emits {alg, type: L}
        conv = F.trait_impl_fn("<webauthn::PublicKeyCredentialParameters as core::convert::From<webauthn::KnownPublicKeyCredentialParameters>>", "from")
        back = F.trait_impl_fn("<webauthn::KnownPublicKeyCredentialParameters as core::convert::TryFrom<webauthn::PublicKeyCredentialParameters>>", "try_from")
        if ctx.oblige("C15|filtered|anchor", conv is not None and back is not None, "anchor missing: Known <-> PublicKeyCredentialParameters conversions", cfg=cfg):
            n_types += 1
            from . import sym as S
            okf, lit_f, detail = W.reemitted_entry(F)
            names = [n for p in back["params"] for n, _ in H.pat_bindings(p)]
            kt = ("field", ("param", names[0]), "key_type")
            lits_b = set()
            try:
                for p in S.Sym(F, back).run():
                    for a in p.atoms:
                        if a[0] == "eq" and a[1] == kt and a[2][0] == "lit":
                            lits_b.add(a[2][1])
            except S.TooManyPaths:
                pass
            ctx.oblige("C15|filtered|type-literal", okf and lits_b == {lit_f} == {"public-key"}, "re-emitted type %r (%s) differs from the accepted type %s" % (lit_f, detail, sorted(lits_b)), cfg=cfg)
        # decode(encode(v)) == v also needs the hand-written decoders to keep what the encoders emit: an icon that fits (C13's
        # keep/drop rule) and every entry of the filtered lists (C14's one-entry-in, one-entry-out rule)
        from . import c13, c14
        from .engine import Probe
        for mod, lab in ((c13, "lossy text decoders"), (c14, "filtering list decoders")):
            pr = Probe(facts={cfg: F})
            mod.run(pr)
            ctx.oblige("C15|decoder-semantics|" + lab, not pr.failed, "the %s do not give back what the encoder emitted: %s" % (lab, "; ".join("%s: %s" % (k, m[:160]) for k, m in pr.failed[:2])), cfg=cfg)
        ctx.floor("bidirectional types", n_types, 27, cfg=cfg)
        ctx.floor("integer-valued enums with both directions", n_repr, 2, cfg=cfg)
