"""C06 — unknown options, extensions and entity members are skipped, not fatal.

Decides (W) for the seven host map types the specification lets platforms extend: the generated
field visitor maps every unknown name to `__ignore` (no `unknown_field` error, i.e. no
`deny_unknown_fields`), the key loop has the matching arm that *consumes exactly one value* through
`next_value::<IgnoredAny>()` and continues with the next key, the type is decoded with
deserialize_struct (a map), and the known members are decoded by their own arms independently of
the unknown ones.  This is the whole /repo-side lever of the property.
Not decided: that cbor-smol's generic skipper consumes exactly one item for every CBOR value.
"""
import json
import os

from . import hirq as H
from . import tables as T
from . import wire as W
from .engine import VERIF
from .oblig_mono import Reach

LEVEL = "other"


def run(ctx):
    spec = json.load(open(os.path.join(VERIF, "spec", "ctap2_messages.json")))
    hosts = [p for p, s in spec["requests"].items() if s.get("host_extensible")]
    ctx.explanation = ("Who-may-call / shape rule on the derive-generated decoders of the host-extensible map types (typed HIR, all 9 configurations): unknown names go to __ignore, "
                       "the __ignore arm consumes one value as serde::de::IgnoredAny, no unknown_field error exists, decoding is via deserialize_struct. "
                       "The skipping of the value itself is cbor-smol's `ignore` and is trusted.")
    ctx.rule = "obligation = (host type, clause) per configuration"
    ctx.trusted = ["cbor-smol 0.5.1 de.rs ignore*: consumes exactly one well-formed item", "serde_derive 1.0.229 expansion shape (read from typed HIR)"]
    for cfg, F in ctx.facts.items():
        n = 0
        for path in hosts:
            try:
                tab = W.decode_table(F, path)
            except T.Unreadable as e:
                ctx.violation("C06|unreadable|" + path, "UNREADABLE-IMPL: Deserialize for %s: %s" % (path, e), cfg=cfg)
                continue
            if not ctx.oblige("C06|anchor|" + path, tab is not None and tab["kind"] == "text", "anchor missing: derive(Deserialize) map decoder for " + path, cfg=cfg):
                continue
            n += 1
            where = tab["fn"]["sp"]
            ctx.oblige("C06|ignore-name|" + path, tab["unknown"] == "ignore",
                       "%s: an unknown member name is %s instead of being ignored (deny_unknown_fields?)" % (path, tab["unknown"]), cfg=cfg, where=where)
            ctx.oblige("C06|consume-value|" + path, tab["ignore_consumes"] is True,
                       "%s: the arm for unknown members does not consume exactly one value as IgnoredAny: following members would be shifted" % path, cfg=cfg, where=where)
            ctx.oblige("C06|map|" + path, tab["entry"] == ["serde_core::de::Deserializer::deserialize_struct"], "%s is not decoded as a map (%s)" % (path, tab["entry"]), cfg=cfg, where=where)
            # no unknown_field error anywhere under this impl
            bad = []
            stack = [tab["fn"]]
            while stack:
                f = stack.pop()
                stack.extend(F.children.get(f["id"], []))
                for x in H.walk(f["body"]):
                    if x.get("callee") in ("serde_core::de::Error::unknown_field", "serde_core::de::Error::unknown_variant"):
                        bad.append(H.line(x))
            ctx.oblige("C06|no-unknown-field-error|" + path, not bad, "%s raises unknown_field for unmodelled members" % path, cfg=cfg, where=where)
            # the identifier is decoded with deserialize_identifier (text or integer name, never an error for unknown)
            idf = [c for c in F.nested(tab["fn"], name="deserialize") if "__Field" in c["impl"]["self_ty"]["s"]]
            ok = len(idf) == 1 and any(x.get("callee") == "serde_core::de::Deserializer::deserialize_identifier" for x in H.walk(idf[0]["body"]))
            ctx.oblige("C06|identifier|" + path, ok, "%s: member names are not decoded with deserialize_identifier" % path, cfg=cfg, where=where, nontrivial=False)
            # the key loop never errors on a key it does not know: every arm other than the ignore arm is a known member
            ctx.oblige("C06|known-arms|" + path, all(m["field"] for m in tab["members"]) and not tab["orphan_names"],
                       "%s: a recognised name is not stored into any member (%s)" % (path, tab["orphan_names"]), cfg=cfg, where=where, nontrivial=False)
            # which names count as *known* is part of the property: in this configuration exactly the members the specification
            # (filtered by the enabled features) lists are recognised -- a member that is recognised without its feature is not
            # skipped any more (its value is type-checked and stored)
            want_keys = sorted(str(w["key"]) for w in W.oracle_members(spec["requests"][path], F.features))
            got_keys = sorted(str(k) for m in tab["members"] for k in [m["key"]] + list(m.get("aliases") or []))
            want_all = sorted(set(want_keys) | {str(a) for w in W.oracle_members(spec["requests"][path], F.features) for a in w.get("aliases", [])})
            ctx.oblige("C06|known-set|" + path, got_keys == want_all, "%s recognises the member names %s, the specification (with the enabled features %s) lists %s: other names must be skipped" % (path, got_keys, sorted(F.features), want_all), cfg=cfg, where=where)
            ctx.sample({"cfg": cfg, "type": path, "unknown_name": tab["unknown"], "unknown_value_consumed": tab["ignore_consumes"], "known": [m["key"] for m in tab["members"]]}, limit=14)
        ctx.floor("host map types", n, 7, cfg=cfg)
        # nothing stands between the message bytes and those decoders: the command switch hands the tail after the command
        # byte directly to cbor_deserialize (a pre-validation pass could reject what the decoder would have skipped)
        from . import c11
        cmds = json.load(open(os.path.join(VERIF, "spec", "commands.json")))
        c11.check_dispatch(ctx, F, cfg, cmds, P="C06")
        # every map visitor that can run while decoding a request is a derive-generated one (whose unknown-member arm was
        # checked above / is index-strict by design): a hand-written visit_map is unaudited and could stop consuming its map early
        r = F.mono_root("ctap2::Request::<'a>::deserialize")
        if ctx.oblige("C06|root", r is not None and "inst" in r, "anchor missing: mono root Request::deserialize", cfg=cfg, nontrivial=False):
            R = Reach(F, r["inst"])
            vms = [i for i in R.local if i["def"].endswith("::visit_map")]
            ctx.floor("map visitors on the decode path", len(vms), 14, cfg=cfg)
            for i in vms:
                pv = i.get("pv") or ""
                ctx.oblige("C06|derived-visit_map|" + i["def"][:120], pv in ("derive:Deserialize", "derive:DeserializeIndexed"),
                           "a hand-written map visitor is used while decoding requests (%s): whether it consumes every member of its map is not audited" % i["def"][:140], cfg=cfg, where=i.get("sp"))
            # the text-keyed host types are the ones actually used: each of the 7 derive decoders is reachable
            reach_defs = " ".join(i["def"] for i in R.local)
            for path in hosts:
                ctx.oblige("C06|used|" + path, ("for %s" % path) in reach_defs or ("for %s<" % path) in reach_defs, "%s's derive-generated decoder is not the one used on the decode path any more" % path, cfg=cfg)
