"""E3 (thorough tier, cross-check): compile-only doc-test witnesses in /verif/witness, built against
/repo's current tree as an external user of the crate.  `compile_fail,E0xxx` needs the nightly
toolchain (stable ignores the error code); compile-pass examples are `no_run`."""
import os
import re
import shutil
import subprocess

from . import extract


def run_witness(ctx, label):
    src = os.path.join(extract.VERIF, "witness", "src", "lib.rs")
    wdir = os.path.join(extract.BUILD, "witness")
    os.makedirs(os.path.join(wdir, "src"), exist_ok=True)
    shutil.copy(src, os.path.join(wdir, "src", "lib.rs"))
    with open(os.path.join(wdir, "Cargo.toml"), "w") as f:
        f.write('[package]\nname = "ctap-types-witness"\nversion = "0.0.0"\nedition = "2021"\n[workspace]\n[dependencies]\nctap-types = { path = "%s" }\n' % extract.REPO)
    lock = os.path.join(extract.REPO, "Cargo.lock")
    if os.path.exists(lock):
        shutil.copy(lock, os.path.join(wdir, "Cargo.lock"))
    env = dict(os.environ, CARGO_NET_OFFLINE="true", CARGO_TARGET_DIR=os.path.join(extract.BUILD, "target", "witness"))
    env.pop("RUSTC_WORKSPACE_WRAPPER", None)
    p = subprocess.run(["cargo", "+nightly", "test", "--offline", "--doc"], cwd=wdir, env=env, capture_output=True, text=True)
    out = p.stdout + p.stderr
    m = re.search(r"test result: (\w+)\. (\d+) passed; (\d+) failed", out)
    failed = re.findall(r"^test (.*) \.\.\. FAILED", out, re.M)
    ok = p.returncode == 0 and m is not None and m.group(1) == "ok"
    ctx.oblige("%s|witness" % label, ok,
               "compile-fail / compile-pass witnesses disagree with the static tables: %s" % (failed or out[-400:]), nontrivial=False)
    ctx.extra["witness"] = {"passed": int(m.group(2)) if m else 0, "failed": failed}
    return ok
