"""Path-sensitive value propagation over typed HIR (rule kinds P, O, E).

For one function the engine enumerates the control-flow paths of its body and, on each path,
propagates *syntactic* values: a local bound by an immutable `let` (or by a pattern) is the term
it was bound to, a call to a /repo function with an available body is expanded at the call site
(bound 4), a `for` over an array literal is unrolled, and a test whose outcome is already fixed
by the terms on the path (a constructor matched against a pattern, a literal compared with a
literal, the same Result tested twice) does not fork.  Nothing is executed and no solver is
consulted: terms are trees over the program's own constructors, literals, parameters and opaque
calls, and the only simplifications are projections of constructors and the Ok/Err-preserving
std combinators (map, map_err, ok_or, inspect_err, ok, identity conversions).

A path records: the atoms that were genuinely undecided (in order), the ordered effects (calls /
assignments selected by the rule's predicate, with argument terms), what is known about opaque
Result/Option terms, how it ended, and the returned term.  Rules compare these summaries with
their oracle tables; refactorings that do not change the summaries (helper extraction, `?` vs
match vs is_err(), loop forms over literal arrays, renamed or hoisted locals, named constants,
reordered arms) are invisible to them.
"""
import re

from . import hirq as H

OK = "core::result::Result::Ok"
ERR = "core::result::Result::Err"
SOME = "core::option::Option::Some"
NONE = "core::option::Option::None"
SIBLING = {OK: ERR, ERR: OK, SOME: NONE, NONE: SOME}

R = "core::result::Result::<T, E>::"
O = "core::option::Option::<T>::"
IDENTITY_CALLS = {
    "core::clone::Clone::clone", "core::borrow::Borrow::borrow", "core::convert::AsRef::as_ref", "core::convert::AsMut::as_mut", "core::ops::deref::Deref::deref",
    "core::ops::deref::DerefMut::deref_mut", "core::borrow::BorrowMut::borrow_mut", "core::option::Option::<T>::as_ref", "core::option::Option::<T>::as_mut",
    "core::result::Result::<T, E>::as_ref", "core::result::Result::<T, E>::as_mut", "core::option::Option::<&T>::copied", "core::option::Option::<&T>::cloned",
    "core::option::Option::<T>::as_deref", "core::result::Result::<T, E>::as_deref", "core::convert::identity", "core::iter::traits::collect::IntoIterator::into_iter",
    "core::slice::<impl [T]>::iter", "core::array::<impl [T; N]>::as_slice", "core::array::<impl [T; N]>::iter",
    "heapless::string::String::<N>::as_str", "core::iter::traits::iterator::Iterator::copied", "core::iter::traits::iterator::Iterator::cloned",
}
# Result/Option wrappers that keep the Ok-ness of their receiver: callee -> (receiver ctor -> result ctor)
PRESERVING = {
    R + "map": {OK: OK, ERR: ERR}, R + "map_err": {OK: OK, ERR: ERR}, R + "inspect": {OK: OK, ERR: ERR}, R + "inspect_err": {OK: OK, ERR: ERR},
    R + "ok": {OK: SOME, ERR: NONE}, R + "err": {OK: NONE, ERR: SOME}, O + "ok_or": {SOME: OK, NONE: ERR}, O + "ok_or_else": {SOME: OK, NONE: ERR},
    O + "map": {SOME: SOME, NONE: NONE}, O + "inspect": {SOME: SOME, NONE: NONE}, R + "or": None, R + "copied": {OK: OK, ERR: ERR}, R + "cloned": {OK: OK, ERR: ERR},
}
UNWRAPS = {R + "unwrap": OK, R + "expect": OK, O + "unwrap": SOME, O + "expect": SOME, R + "unwrap_err": ERR, R + "expect_err": ERR,
           R + "unwrap_unchecked": OK, O + "unwrap_unchecked": SOME}
TESTS = {R + "is_ok": (OK, True), R + "is_err": (ERR, True), O + "is_some": (SOME, True), O + "is_none": (NONE, True)}
MAX_PATHS = 6000
MAX_INLINE = 4


def _erase_lt(t):
    return re.sub(r"'[a-z_][a-z_0-9]*\s*(,\s*)?", "", t or "").replace("<>", "")


class TooManyPaths(Exception):
    pass


def split_generic(ty):
    """'a::B<X, Y<Z>>' -> ('a::B', ['X', 'Y<Z>'])"""
    i = ty.find("<")
    if i < 0 or not ty.endswith(">"):
        return ty, []
    base, inner = ty[:i], ty[i + 1:-1]
    out, depth, cur = [], 0, ""
    for ch in inner:
        if ch in "<([":
            depth += 1
        elif ch in ">)]":
            depth -= 1
        if ch == "," and depth == 0:
            out.append(cur.strip())
            cur = ""
        else:
            cur += ch
    if cur.strip():
        out.append(cur.strip())
    return base, out


def wrap_int(v, ty):
    """value of the integer v after `as ty`"""
    m = re.match(r"^([iu])(8|16|32|64|128|size)$", ty or "")
    if not m:
        return v
    bits = 64 if m.group(2) == "size" else int(m.group(2))
    v &= (1 << bits) - 1
    if m.group(1) == "i" and v >= 1 << (bits - 1):
        v -= 1 << bits
    return v


def err_type(ty):
    b, a = split_generic(ty or "")
    if b == "core::result::Result" and len(a) == 2:
        return a[1]
    return None


class Effect:
    __slots__ = ("kind", "callee", "args", "node", "term", "depth", "loops", "seq", "frame", "natoms")

    def __init__(self, kind, callee, args, node, term, depth, loops, seq, frame, natoms=0):
        self.kind, self.callee, self.args, self.node, self.term, self.depth, self.loops, self.seq, self.frame = kind, callee, args, node, term, depth, loops, seq, frame
        self.natoms = natoms      # number of atoms on the path when the effect happened

    @property
    def tcallee(self):
        """the trait-level callee (before static resolution to an impl), e.g. serde's Deserialize::deserialize"""
        return (self.node.get("callee") if isinstance(self.node, dict) else None) or self.callee

    def __repr__(self):
        return "Effect(%s %s)" % (self.kind, self.callee)


class State:
    __slots__ = ("env", "atoms", "effects", "known", "known_not", "done", "result", "loops", "frames", "via_try", "loop_depth", "cut", "trace", "ret_loop_depth", "stored")

    def __init__(self):
        self.env = {}
        self.atoms = ()
        self.effects = ()
        self.known = {}
        self.known_not = {}
        self.done = None       # None | ('ret', frame) | ('break', target) | ('continue', target) | 'diverge'
        self.result = None
        self.loops = 0
        self.frames = ()
        self.via_try = None
        self.loop_depth = 0
        self.cut = False
        self.trace = ()            # loop events on this path: ('break', loop span) | ('iter', loop span)
        self.ret_loop_depth = 0    # loop nesting depth at which the function returned
        self.stored = ()           # (frame, local) of every whole-local assignment made on the path

    def fork(self):
        s = State()
        s.env = dict(self.env)
        s.atoms = self.atoms
        s.effects = self.effects
        s.known = dict(self.known)
        s.known_not = dict(self.known_not)
        s.done = self.done
        s.result = self.result
        s.loops = self.loops
        s.frames = self.frames
        s.via_try = self.via_try
        s.loop_depth = self.loop_depth
        s.cut = self.cut
        s.trace = self.trace
        s.ret_loop_depth = self.ret_loop_depth
        s.stored = self.stored
        return s


def input_rooted(t):
    """t is (a projection of) a function parameter"""
    while t[0] in ("field", "proj", "tproj", "index", "sproj", "smid"):
        t = t[1]
    return t[0] == "param"


def root_of(t):
    """the opaque Result/Option term whose Ok-ness decides the Ok-ness of t, with the ctor mapping t-ctor -> root-ctor"""
    mapping = None
    while t[0] == "call" and t[1] in PRESERVING and PRESERVING[t[1]] and t[2]:
        m = PRESERVING[t[1]]
        inv = {v: k for k, v in m.items()}
        mapping = inv if mapping is None else {k: inv.get(v) for k, v in mapping.items()}
        t = t[2][0]
    return t, mapping


class Sym:
    def __init__(self, F, fn, is_effect=None, inline=None, max_inline=MAX_INLINE, param_terms=None):
        self.F = F
        self.fn = fn
        self.is_effect = is_effect or (lambda callee, args, node, st: False)
        self.inline = inline if inline is not None else self.default_inline
        self.max_inline = max_inline
        self.uid = 0
        self.seq = 0
        self.count = 0
        self.param_terms = param_terms or {}
        self.inlined = set()
        self.notes = []
        self.applying = 0
        self.closures = {}     # closure site -> (node, captured env, frames)
        self.visitor_calls = False   # expand `deserializer.deserialize_seq(V)` into V::visit_seq (see do_call)
        self.handed = set()    # closures passed to a helper that was expanded in place (their creation event was dropped)
        self.frame_call = {}   # frame id of an expanded helper -> (call node, helper)
        self.call_parent = {}  # frame id of an expanded call -> frame id of the body the call is written in
        self.frame_parent = {} # frame id of a closure body -> frame id of the function it is written in
        self.arith = {}        # span of a + - * node -> set of (op, left term, right term) seen on the paths
        self.indexed = {}      # span of an index node -> set of (length of the indexed array literal/constant or None, index term)

    # ------------------------------------------------------------------ entry points
    def run(self, split_result=False):
        """all paths of the function; with split_result a returned Result that is still an opaque (wrapped) term is
        split into its Ok and Err case, so that every path ends in an explicit Ok(..) / Err(..)"""
        out = self._run()
        if not split_result or not (self.fn.get("output") or "").startswith("core::result::Result<"):
            return out
        fin = []
        for s in out:
            r = s.result
            if s.done != ("ret", 0) or r is None:
                fin.append(s)
                continue
            if r[0] != "ctor":
                for s2, okb in self.test_variant(r, OK, s):
                    r2 = ("ctor", OK, (self.proj(r, OK, 0),)) if okb else ("ctor", ERR, (self.proj(r, ERR, 0),))
                    for s3, r3 in self.canon(s2, r2, 0):
                        s3.result = r3
                        fin.append(s3)
                continue
            for s3, r3 in self.canon(s, r, 0):
                s3.result = r3
                fin.append(s3)
        return fin

    def canon(self, st, t, depth):
        """make the Ok/Err/Some/None structure of a value explicit: a wrapped opaque Result/Option (x.map(f), x.ok_or(e), ..)
        is split on the outcome of the underlying term and rebuilt from constructors -> list of (state, term)"""
        if depth > 3:
            return [(st, t)]
        if t[0] == "ctor":
            cur = [(st, [])]
            for a in t[2]:
                nxt = []
                for s, done in cur:
                    for s2, a2 in self.canon(s, a, depth + 1):
                        nxt.append((s2, done + [a2]))
                cur = nxt
            return [(s, ("ctor", t[1], tuple(done))) for s, done in cur]
        if t[0] == "call" and t[1] in PRESERVING and PRESERVING[t[1]] and t[2]:
            mapping = PRESERVING[t[1]]
            outs = sorted(set(mapping.values()))
            first = outs[0] if outs[0] in (OK, SOME) else outs[-1]
            res = []
            for s2, yes in self.test_variant(t, first, st):
                c = first if yes else SIBLING[first]
                v = ("ctor", c, ()) if c == NONE else ("ctor", c, (self.proj(t, c, 0),))
                res.extend(self.canon(s2, v, depth + 1))
            return res
        return [(st, t)]

    def _run(self):
        st = State()
        for p in self.fn.get("params", []):
            for name, pid in H.pat_bindings(p):
                st.env[(0, pid)] = self.param_terms.get(name, ("param", name))
        st.frames = ((0, self.fn),)
        out = []
        for s, t in self.ev(self.fn["body"], st):
            if s.done is None:
                s.done = ("ret", 0)
                s.result = t
            out.append(s)
        return out

    def run_node(self, node, env=None):
        """paths through a sub-expression of self.fn with the given bindings {local id: term}"""
        st = State()
        for p in self.fn.get("params", []):
            for name, pid in H.pat_bindings(p):
                st.env[(0, pid)] = self.param_terms.get(name, ("param", name))
        for k, v in (env or {}).items():
            st.env[(0, k)] = v
        st.frames = ((0, self.fn),)
        out = []
        for s, t in self.ev(node, st):
            if s.done is None:
                s.result = t
            out.append(s)
        return out

    def default_inline(self, path, node):
        """hand-written /repo functions only: macro- and derive-generated bodies stay opaque calls"""
        f = self.body_for(path)
        return f is not None and (f.get("pv") or "user") == "user"

    # ------------------------------------------------------------------ helpers
    def fresh(self, hint):
        self.uid += 1
        return ("unk", self.uid, hint)

    def frame_id(self, st):
        return st.frames[-1][0]

    def frame_chain(self, st):
        """frame ids in which a local of the current body may be bound: the current frame, and for a closure body the frames of
        the function it is written in (closure bodies share their parent's local ids)"""
        f = st.frames[-1]
        out = [f[0]]
        if len(f) > 2:
            out.extend(x[0] for x in reversed(f[2]))
        return out

    def budget(self, n=1):
        self.count += n
        if self.count > 400000:
            raise TooManyPaths()

    def const_term(self, path):
        v = self.F.const_value(path)
        if isinstance(v, bool) or isinstance(v, int) or isinstance(v, str) and self.F.consts.get(path, {}).get("ty", "").endswith("str"):
            return ("lit", v)
        if isinstance(v, list):
            def term(x):
                if isinstance(x, dict) and "path" in x:
                    return ("ctor", x["path"], ())
                if isinstance(x, dict) and "tuple" in x:
                    return ("tuple", tuple(term(y) for y in x["tuple"]))
                if isinstance(x, list):
                    return ("array", tuple(term(y) for y in x))
                return ("lit", x)
            return term(v)
        return ("const", path)

    def discriminant(self, ctor):
        enum, _, v = ctor.rpartition("::")
        a = self.F.adt(enum)
        if a and a["kind"] == "enum" and all(not x["fields"] for x in a["variants"]):
            for x in a["variants"]:
                if x["name"] == v and isinstance(x.get("discr"), int):
                    return x["discr"]
        return None

    def learn(self, st, term, ctor):
        """record that `term` is of variant `ctor` on this path, through Ok-ness preserving wrappers"""
        st.known[term] = ctor
        root, mapping = root_of(term)
        if mapping and root is not term and mapping.get(ctor):
            st.known[root] = mapping[ctor]

    def lookup(self, st, term):
        if term[0] == "ctor":
            return term[1]
        k = st.known.get(term)
        if k:
            return k
        root, mapping = root_of(term)
        if mapping and root is not term:
            kr = root[1] if root[0] == "ctor" else st.known.get(root)
            if kr:
                for mine, theirs in mapping.items():
                    if theirs == kr:
                        return mine
        return None

    def variants_of(self, ctor):
        enum = ctor.rsplit("::", 1)[0]
        a = self.F.adt(enum)
        if a and a["kind"] == "enum":
            return [enum + "::" + v["name"] for v in a["variants"]]
        if ctor in SIBLING:
            return [ctor, SIBLING[ctor]]
        return None

    def is_enum_variant(self, ctor):
        if ctor in SIBLING:
            return True
        enum = ctor.rsplit("::", 1)[0]
        a = self.F.adt(enum)
        return bool(a and a["kind"] == "enum")

    # ------------------------------------------------------------------ smart constructors
    def proj(self, t, ctor, i):
        if t[0] == "copy":
            return self.proj(t[1], ctor, i)
        if t[0] == "ctor" and t[1] == ctor and isinstance(i, int) and i < len(t[2]):
            return t[2][i]
        if t[0] == "struct" and t[1] == ctor:
            for n, v in t[2]:
                if n == i:
                    return v
        if t[0] == "call" and t[1] == "sym::find_eq" and ctor == SOME and i == 0:
            return t[2][1]      # the element found by an equality predicate is equal to the value searched for
        # Ok-ness preserving wrappers with a known payload relation
        if t[0] == "call" and t[1] in (R + "map_err", R + "inspect", R + "inspect_err") and ctor == OK and i == 0:
            return self.proj(t[2][0], OK, 0)
        if t[0] == "call" and t[1] in (R + "inspect", R + "inspect_err") and ctor == ERR and i == 0:
            return self.proj(t[2][0], ERR, 0)
        if t[0] == "call" and t[1] == O + "inspect" and ctor == SOME and i == 0:
            return self.proj(t[2][0], SOME, 0)
        if t[0] == "call" and t[1] in (O + "ok_or", O + "ok_or_else") and ctor == OK and i == 0:
            return self.proj(t[2][0], SOME, 0)
        if t[0] == "call" and t[1] == O + "ok_or" and ctor == ERR and i == 0 and len(t[2]) == 2:
            return t[2][1]
        if t[0] == "call" and t[1] == O + "ok_or_else" and ctor == ERR and i == 0 and len(t[2]) == 2 and t[2][1][0] == "closure" and t[2][1][1] in self.closures:
            r = self.apply_closure(t[2][1], [])
            if r is not None:
                return r
        if t[0] == "call" and t[1] == R + "ok" and ctor == SOME and i == 0:
            return self.proj(t[2][0], OK, 0)
        if t[0] == "call" and t[1] in (R + "map", O + "map") and i == 0 and ctor in (OK, SOME) and len(t[2]) == 2:
            return self.apply(t[2][1], self.proj(t[2][0], ctor, 0), t[3] if len(t) > 3 else "")
        if t[0] == "call" and t[1] == R + "map_err" and ctor == ERR and i == 0 and len(t[2]) == 2:
            return self.apply(t[2][1], self.proj(t[2][0], ERR, 0), t[3] if len(t) > 3 else "")
        if t[0] == "call" and t[1] == R + "map" and ctor == ERR and i == 0:
            return self.proj(t[2][0], ERR, 0)
        return ("proj", t, ctor, i)

    def tproj(self, t, i):
        if t[0] == "tuple" and i < len(t[1]):
            return t[1][i]
        return ("tproj", t, i)

    def field(self, t, name):
        if t[0] == "copy":
            return self.field(t[1], name)
        if t[0] == "upd":
            return t[3] if t[2] == name else self.field(t[1], name)
        if t[0] == "struct":
            for n, v in t[2]:
                if n == name:
                    return v
        if t[0] == "tuple" and name.isdigit() and int(name) < len(t[1]):
            return t[1][int(name)]
        if t[0] == "ctor" and name.isdigit() and int(name) < len(t[2]) and not self.is_enum_variant(t[1]):
            return t[2][int(name)]
        return ("field", t, name)

    def apply(self, f, v, site):
        if f[0] == "fn" and len(f) > 2 and f[2] == "ctor":
            return ("ctor", f[1], (v,))
        if f[0] == "fn":
            return ("call", f[1], (v,), site)
        if f[0] == "closure" and f[1] in self.closures:
            r = self.apply_closure(f, [v])
            if r is not None:
                return r
        return ("apply", f, v)

    def callable_here(self, f):
        """f is a closure whose body we have, or a hand-written /repo function that may be expanded"""
        if f[0] == "closure" and f[1] in self.closures:
            return True
        if f[0] == "fn" and not (len(f) > 2 and f[2] == "ctor"):
            g = self.body_for(f[1])
            return g is not None and (g.get("pv") or "user") == "user" and (self.inline is None or self.inline(f[1], None) is not False)
        return False

    def call_value(self, f, args, st, n):
        """apply a function value on the current path -> list of (state, term)"""
        if f[0] == "closure":
            return self.inline_closure(f, args, st)
        return self.do_call(n, f[1], None, list(args), st)

    def drop_creation(self, f, st):
        """a closure that is called here (its body evaluated in place) is no longer an event of its own"""
        if f[0] == "closure" and f[1] in self.closures:
            cnode = self.closures[f[1]][0]
            if any(e.kind == "closure" and e.node is cnode for e in st.effects):
                st.effects = tuple(e for e in st.effects if not (e.kind == "closure" and e.node is cnode))

    def inline_closure(self, f, args, st):
        """evaluate a closure's body on the current path (effects included) -> list of (state, term)"""
        node, _env, cap_frames = self.closures[f[1]]
        self.uid += 1
        fid = self.uid
        saved = st.frames
        st.frames = st.frames + ((fid, {"output": node["body"].get("ty_adj") or node["body"].get("ty"), "path": "<closure>", "body": node["body"]}, tuple(cap_frames)),)
        if cap_frames:
            self.frame_parent[fid] = cap_frames[-1][0]
        states = [st]
        for p, a in zip(node.get("params", []), args):
            nxt = []
            for s1 in states:
                for s2, ok in self.pm(p, a, s1):
                    if ok:
                        nxt.append(s2)
            states = nxt
        out = []
        for s1 in states:
            for s2, t in self.ev(node["body"], s1):
                if s2.done == ("ret", fid):
                    s2.done = None
                    t = s2.result
                    s2.result = None
                    s2.ret_loop_depth = 0
                    s2.via_try = None
                s2.frames = tuple(x for x in s2.frames if x[0] != fid)
                out.append((s2, t))
        return out

    def expand_combinator(self, c, n, args, st):
        """Result/Option/bool combinators that take a closure: split on the receiver and run the closure's body on the path"""
        if not c or len(args) < 2:
            return None
        name = c.split("::")[-1]
        is_res, is_opt, is_bool = c.startswith(R), c.startswith(O), c.startswith("core::bool::<impl bool>::")
        if not (is_res or is_opt or is_bool):
            return None
        clos = [a for a in args[1:] if a[0] == "closure" and a[1] in self.closures]
        fns = [a for a in args[1:] if a[0] == "fn" and self.callable_here(a)]
        if not (clos or fns) or self.applying > 6:
            return None
        if name not in ("and_then", "map", "map_err", "or_else", "unwrap_or_else", "map_or", "map_or_else", "ok_or_else", "filter", "inspect", "inspect_err", "then", "is_some_and", "is_ok_and"):
            return None
        recv = args[0]
        # a closure written in the argument list is consumed here: its body is evaluated in place on the paths that call it,
        # so its creation is no longer an event of its own
        inner = None
        for a in clos:
            cnode = self.closures[a[1]][0]
            if any(e.kind == "closure" and e.node is cnode for e in st.effects):
                if inner is None:
                    inner = {id(x) for x in H.walk(n)}
                if id(cnode) in inner:
                    st.effects = tuple(e for e in st.effects if not (e.kind == "closure" and e.node is cnode))
        self.applying += 1
        try:
            out = []
            if is_bool:
                if name != "then":
                    return None
                for s1, b in self.truth(recv, st):
                    if b:
                        out.extend((s2, None if s2.done is not None else ("ctor", SOME, (t,))) for s2, t in self.call_value(args[1], [], s1, n))
                    else:
                        out.append((s1, ("ctor", NONE, ())))
                return out
            good, bad = (OK, ERR) if is_res else (SOME, NONE)
            for s1, isgood in self.test_variant(recv, good, st):
                v = self.proj(recv, good, 0)
                e = self.proj(recv, ERR, 0) if is_res else None
                eargs = [e] if is_res else []
                same = ("ctor", good, (v,)) if isgood else (("ctor", ERR, (e,)) if is_res else ("ctor", NONE, ()))

                def run(f, a, wrap=None, s=s1):
                    if self.callable_here(f):
                        return [(s2, None if s2.done is not None else (wrap(t) if wrap else t)) for s2, t in self.call_value(f, a, s, n)]
                    t = self.apply(f, a[0], self.site(n, s)) if a else ("call", "<fn>", (f,), self.site(n, s))
                    return [(s, wrap(t) if wrap else t)]

                if name == "and_then":
                    out.extend(run(args[1], [v]) if isgood else [(s1, same)])
                elif name == "map":
                    out.extend(run(args[1], [v], lambda t: ("ctor", good, (t,))) if isgood else [(s1, same)])
                elif name == "map_err" and is_res:
                    out.extend([(s1, same)] if isgood else run(args[1], [e], lambda t: ("ctor", ERR, (t,))))
                elif name == "or_else":
                    out.extend([(s1, same)] if isgood else run(args[1], eargs))
                elif name == "unwrap_or_else":
                    out.extend([(s1, v)] if isgood else run(args[1], eargs))
                elif name == "map_or" and len(args) == 3:
                    out.extend(run(args[2], [v]) if isgood else [(s1, args[1])])
                elif name == "map_or_else" and len(args) == 3:
                    out.extend(run(args[2], [v]) if isgood else run(args[1], eargs))
                elif name == "ok_or_else" and is_opt:
                    out.extend([(s1, ("ctor", OK, (v,)))] if isgood else run(args[1], [], lambda t: ("ctor", ERR, (t,))))
                elif name == "filter" and is_opt:
                    if not isgood:
                        out.append((s1, same))
                    else:
                        for s2, t in run(args[1], [v]):
                            if s2.done is not None:
                                out.append((s2, None))
                                continue
                            for s3, b in self.truth(t, s2):
                                out.append((s3, same if b else ("ctor", NONE, ())))
                elif name in ("inspect", "inspect_err"):
                    hit = isgood if name == "inspect" else (not isgood)
                    if hit:
                        out.extend((s2, None if s2.done is not None else same) for s2, _t in run(args[1], [v] if isgood else eargs))
                    else:
                        out.append((s1, same))
                elif name in ("is_some_and", "is_ok_and"):
                    out.extend(run(args[1], [v]) if isgood else [(s1, ("lit", False))])
                else:
                    return None
            return out
        finally:
            self.applying -= 1

    def apply_closure(self, f, args):
        """value of a closure applied to terms, when its body is a single effect-free path (else None)"""
        node, env, frames = self.closures[f[1]]
        if self.applying > 3:
            return None
        st = State()
        st.env = dict(env)
        st.frames = frames
        cur = [st]
        for p, a in zip(node.get("params", []), args):
            nxt = []
            for s1 in cur:
                for s2, ok in self.pm(p, a, s1):
                    if ok:
                        nxt.append(s2)
            cur = nxt
        if len(cur) != 1:
            return None
        self.applying += 1
        try:
            saved = self.is_effect
            hit = []
            self.is_effect = lambda callee, a, n, s: (hit.append(callee) or False) if saved(callee, a, n, s) else False
            try:
                res = self.ev(node["body"], cur[0])
            finally:
                self.is_effect = saved
        except TooManyPaths:
            return None
        finally:
            self.applying -= 1
        if len(res) != 1 or res[0][0].done is not None or res[0][0].atoms or hit:
            return None
        return res[0][1]

    def combinator(self, callee, args, site):
        """simplify Ok-ness preserving combinators on known constructors"""
        if not args:
            return None
        r = args[0]
        if callee in IDENTITY_CALLS:
            return r
        if r[0] != "ctor":
            return None
        c = r[1]
        v = r[2][0] if r[2] else None
        if callee in (R + "map", O + "map") and len(args) == 2:
            return ("ctor", c, (self.apply(args[1], v, site),)) if c in (OK, SOME) else r
        if callee == R + "map_err" and len(args) == 2:
            return ("ctor", ERR, (self.apply(args[1], v, site),)) if c == ERR else r
        if callee in (R + "inspect", R + "inspect_err", O + "inspect"):
            return r
        if callee == R + "ok":
            return ("ctor", SOME, (v,)) if c == OK else ("ctor", NONE, ())
        if callee == O + "ok_or" and len(args) == 2:
            return ("ctor", OK, (v,)) if c == SOME else ("ctor", ERR, (args[1],))
        if callee in (O + "unwrap_or", R + "unwrap_or") and len(args) == 2:
            return v if c in (SOME, OK) else args[1]
        return None

    # ------------------------------------------------------------------ expression evaluation
    def ev(self, n, st):
        """-> list of (state, term); a state with .done set carries no term"""
        self.budget()
        if st.done is not None:
            return [(st, None)]
        k = n.get("k")
        m = getattr(self, "ev_" + k, None) if k else None
        if m is None:
            return self.ev_default(n, st)
        return m(n, st)

    def ev_seq(self, nodes, st):
        """evaluate nodes left to right -> list of (state, [terms])"""
        cur = [(st, [])]
        for x in nodes:
            nxt = []
            for s, ts in cur:
                if s.done is not None:
                    nxt.append((s, ts))
                    continue
                for s2, t in self.ev(x, s):
                    nxt.append((s2, ts + [t]))
            cur = nxt
            if len(cur) > MAX_PATHS:
                raise TooManyPaths()
        return cur

    def ev_default(self, n, st):
        ch = H.children(n)
        out = []
        for s, ts in self.ev_seq(ch, st):
            out.append((s, self.fresh(n.get("k") or "?")))
        return out

    def ev_lit(self, n, st):
        v = n.get("v")
        if isinstance(v, list):
            return [(st, ("array", tuple(("lit", x) for x in v)))]
        return [(st, ("lit", v))]

    def ev_path(self, n, st):
        r = n["res"]
        rk = r.get("rk", "")
        if rk == "Local":
            t = None
            for fid in self.frame_chain(st):
                t = st.env.get((fid, r["id"]))
                if t is not None:
                    break
            if t is None:
                t = ("local", self.frame_id(st), r["id"], r.get("name"))
            return [(st, t)]
        if rk.startswith("Const") or rk.startswith("AssocConst"):
            return [(st, self.const_term(r.get("path")))]
        if rk.startswith("Ctor"):
            path = r.get("ctor_of") or r.get("path")
            if "Fn" in rk:
                return [(st, ("fn", path, "ctor"))]
            return [(st, ("ctor", path, ()))]
        if rk == "SelfCtor":
            ty = n.get("ty") or ""
            if ty.startswith("fn(") or "fn(" in ty.split(" ")[0]:
                out_ty = ty.split("-> ", 1)[1].split(" {", 1)[0] if "-> " in ty else ty
                return [(st, ("fn", split_generic(out_ty)[0], "ctor"))]
            return [(st, ("ctor", split_generic(ty)[0], ()))]
        if rk in ("Fn", "AssocFn"):
            path = r.get("path")
            if rk == "AssocFn" and path not in self.F.fns_by_path:
                # a trait method named as a value (`.map(From::from)`): the function item's type names the impl it resolves to
                m = re.search(r"\{(<.+>)::([A-Za-z_0-9]+)\}$", n.get("ty") or "")
                if m:
                    want = _erase_lt(m.group(1))
                    cands = [f for f in self.F.fns if f["name"] == m.group(2) and _erase_lt((f.get("impl") or {}).get("trait_ref") or "") == want]
                    if len(cands) == 1:
                        path = cands[0]["path"]
            return [(st, ("fn", path))]
        if rk.startswith("Static"):
            return [(st, ("static", r.get("path")))]
        return [(st, ("path", r.get("path") or rk))]

    def ev_addrof(self, n, st):
        return self.ev(n["e"], st)

    def ev_unary(self, n, st):
        if n["op"] == "deref":
            return self.ev(n["e"], st)
        out = []
        for s, t in self.ev(n["e"], st):
            if s.done is not None:
                out.append((s, None))
            elif t[0] == "lit" and n["op"] == "not" and isinstance(t[1], bool):
                out.append((s, ("lit", not t[1])))
            elif t[0] == "lit" and n["op"] == "neg" and isinstance(t[1], int):
                out.append((s, ("lit", -t[1])))
            else:
                out.append((s, ("un", n["op"], t)))
        return out

    def ev_cast(self, n, st):
        out = []
        for s, t in self.ev(n["e"], st):
            if s.done is not None:
                out.append((s, None))
            elif t[0] == "lit" and isinstance(t[1], int) and not isinstance(t[1], bool):
                out.append((s, ("lit", wrap_int(t[1], n.get("ty")))))
            elif t[0] == "ctor" and not t[2] and self.discriminant(t[1]) is not None:
                out.append((s, ("lit", self.discriminant(t[1]))))
            else:
                out.append((s, ("cast", t, n.get("ty"))))
        return out

    def ev_field(self, n, st):
        return [(s, None if s.done is not None else self.field(t, n["name"])) for s, t in self.ev(n["base"], st)]

    def ev_index(self, n, st):
        out = []
        for s, ts in self.ev_seq([n["base"], n["idx"]], st):
            if s.done is not None:
                out.append((s, None))
                continue
            b, i = ts
            blen = len(b[1]) if b[0] == "array" else b[2] if b[0] == "repeat" else None
            if b[0] == "tproj" and b[2] == 0 and b[1][0] == "call" and b[1][1].split("::")[-1] in ("split_at", "split_at_mut") and len(b[1][2]) == 2 and b[1][2][1][0] == "lit" and isinstance(b[1][2][1][1], int):
                blen = b[1][2][1][1]       # the head of x.split_at(k) has exactly k elements
            self.indexed.setdefault(n.get("sp"), set()).add((blen, i))
            if b[0] == "array" and i[0] == "lit" and isinstance(i[1], int) and 0 <= i[1] < len(b[1]):
                out.append((s, b[1][i[1]]))
            else:
                if self.is_effect("<index>", [b, i], n, s):
                    self.add_effect(s, "index", "<index>", [b, i], n, None)
                out.append((s, ("index", b, i)))
        return out

    def ev_repeat(self, n, st):
        """`[v; N]`: ('repeat', v, N, site) -- a fresh array with its own identity (N from the evaluated type)"""
        m = re.search(r"; (\d+)\]$", n.get("ty") or "")
        out = []
        for s, t in self.ev(n["e"], st):
            if s.done is not None:
                out.append((s, None))
            elif m is None:
                out.append((s, self.fresh("repeat")))
            else:
                out.append((s, ("repeat", t, int(m.group(1)), self.site(n, s))))
        return out

    def ev_tup(self, n, st):
        return [(s, None if s.done is not None else ("tuple", tuple(ts))) for s, ts in self.ev_seq(n["elems"], st)]

    def ev_array(self, n, st):
        return [(s, None if s.done is not None else ("array", tuple(ts))) for s, ts in self.ev_seq(n["elems"], st)]

    def ev_struct(self, n, st):
        names = [f["name"] for f in n["fields"]]
        nodes = [f["e"] for f in n["fields"]]
        base = n.get("base")
        if isinstance(base, dict) and "k" in base:
            nodes = nodes + [base]
        out = []
        for s, ts in self.ev_seq(nodes, st):
            if s.done is not None:
                out.append((s, None))
                continue
            fields = tuple(sorted(zip(names, ts[:len(names)])))
            spath = n["res"].get("ctor_of") or n["res"].get("path")
            if "SelfTy" in (n["res"].get("rk") or "") or not spath:
                spath = split_generic(re.sub(r"<'[a-z_]+(, )?", "<", n.get("ty") or ""))[0] or spath
            t = ("struct", spath, fields)
            if len(ts) > len(names):
                t = t + (ts[-1],)
            out.append((s, t))
        return out

    def ev_closure(self, n, st):
        used = set()
        for x in H.walk(n["body"]):
            if x.get("k") == "path" and x["res"].get("rk") == "Local":
                used.add(x["res"]["id"])
        caps = tuple(sorted((st.env.get((self.frame_id(st), i)) or ("local", self.frame_id(st), i, "?") for i in used if (self.frame_id(st), i) in st.env), key=repr))
        t = ("closure", self.site(n, st), caps)
        self.closures[t[1]] = (n, dict(st.env), st.frames)
        if self.is_effect("<closure>", list(caps), n, st):
            self.add_effect(st, "closure", "<closure>", list(caps), n, t)
        return [(st, t)]

    def ev_binary(self, n, st):
        op = n["op"]
        if op in ("&&", "||"):
            out = []
            for s, b in self.cond(n, st):
                out.append((s, None if s.done is not None else ("lit", b)))
            return out
        out = []
        for s, ts in self.ev_seq([n["l"], n["r"]], st):
            if s.done is not None:
                out.append((s, None))
                continue
            l, r = ts
            if op in ("+", "-", "*"):
                self.arith.setdefault(n.get("sp"), set()).add((op, l, r))
            out.append((s, self.binop(op, l, r)))
        return out

    def binop(self, op, l, r):
        if l[0] == "lit" and r[0] == "lit" and isinstance(l[1], int) and isinstance(r[1], int) and not isinstance(l[1], bool) and not isinstance(r[1], bool):
            a, b = l[1], r[1]
            try:
                v = {"+": a + b, "-": a - b, "*": a * b, "==": a == b, "!=": a != b, "<": a < b, "<=": a <= b, ">": a > b, ">=": a >= b,
                     "&": a & b, "|": a | b, "^": a ^ b, "<<": a << b if 0 <= b < 128 else None, ">>": a >> b if 0 <= b < 128 else None}.get(op)
            except Exception:
                v = None
            if v is not None:
                return ("lit", v)
        if l[0] == "lit" and r[0] == "lit" and op in ("==", "!="):
            return ("lit", (l[1] == r[1]) == (op == "=="))
        for x, y in ((l, r), (r, l)):
            if x[0] == "lit" and isinstance(x[1], bool):
                if op in ("|", "||"):
                    return ("lit", True) if x[1] else y
                if op in ("&", "&&"):
                    return y if x[1] else ("lit", False)
        if op in ("+", "*", "&", "|", "^", "==", "!=") and repr(l) > repr(r):
            l, r = r, l     # commutative: canonical operand order
        if op in (">", ">="):
            l, r, op = r, l, {">": "<", ">=": "<="}[op]
        return ("bin", op, l, r)

    # ---- control flow
    def ev_block(self, n, st):
        if "hid" in n:
            target = (self.frame_id(st), n["hid"])
        else:
            target = None
        cur = [st]
        for s_ in n.get("stmts", []):
            nxt = []
            for s in cur:
                if s.done is not None:
                    nxt.append(s)
                    continue
                if s_["k"] == "let":
                    nxt.extend(self.do_let(s_, s))
                else:
                    for s2, _t in self.ev(s_["e"], s):
                        nxt.append(s2)
            cur = nxt
            if len(cur) > MAX_PATHS:
                raise TooManyPaths()
        out = []
        for s in cur:
            if s.done is not None:
                out.append((s, None))
            elif "expr" in n:
                out.extend(self.ev(n["expr"], s))
            else:
                out.append((s, ("tuple", ())))
        if target is not None:
            fixed = []
            for s, t in out:
                if s.done == ("break", target):
                    s.done = None
                    t = s.result
                    s.result = None
                fixed.append((s, t))
            out = fixed
        return out

    def do_let(self, s_, st):
        pat = s_["pat"]
        if "init" not in s_:
            for name, pid in H.pat_bindings(pat):
                st.env[(self.frame_id(st), pid)] = ("uninit", self.frame_id(st), pid, name)
            return [st]
        out = []
        for s, t in self.ev(s_["init"], st):
            if s.done is not None:
                out.append(s)
                continue
            for s2, ok in self.pm(pat, t, s):
                if ok:
                    out.append(s2)
                elif "els" in s_:
                    for s3, _t in self.ev(s_["els"], s2):
                        out.append(s3)    # the else block diverges
                # an irrefutable pattern cannot fail; a failing branch without else is impossible
        return out

    def ev_semi(self, n, st):
        return [(s, ("tuple", ())) for s, _ in self.ev(n["e"], st)]

    ev_expr = ev_semi

    def ev_if(self, n, st):
        out = []
        for s, b in self.cond(n["cond"], st):
            if s.done is not None:
                out.append((s, None))
            elif b:
                out.extend(self.ev(n["then"], s))
            elif "else" in n:
                out.extend(self.ev(n["else"], s))
            else:
                out.append((s, ("tuple", ())))
        return out

    def ev_match(self, n, st):
        if n.get("src") == "for":
            r = self.try_unroll(n, st)
            if r is not None:
                return r
        out = []
        for s, t in self.ev(n["scrut"], st):
            if s.done is not None:
                out.append((s, None))
                continue
            pending = [s]
            for a in n["arms"]:
                nxt = []
                for s1 in pending:
                    for s2, ok in self.pm(a["pat"], t, s1):
                        if not ok:
                            nxt.append(s2)
                            continue
                        if "guard" in a:
                            for s3, b in self.cond(a["guard"], s2):
                                if s3.done is not None:
                                    out.append((s3, None))
                                elif b:
                                    out.extend(self.ev(a["body"], s3))
                                else:
                                    nxt.append(s3)
                        else:
                            out.extend(self.ev(a["body"], s2))
                pending = nxt
                if not pending:
                    break
            # states that matched no arm are infeasible (matches are exhaustive)
            if len(out) > MAX_PATHS:
                raise TooManyPaths()
        return out

    def ev_ret(self, n, st):
        out = []
        if "e" in n:
            for s, t in self.ev(n["e"], st):
                if s.done is None:
                    s.done = ("ret", self.frame_id(s))
                    s.result = t
                    s.ret_loop_depth = s.loop_depth
                out.append((s, None))
        else:
            st.done = ("ret", self.frame_id(st))
            st.result = ("tuple", ())
            st.ret_loop_depth = st.loop_depth
            out.append((st, None))
        return out

    def ev_break(self, n, st):
        tgt = (self.frame_id(st), n.get("target"))
        out = []
        if "e" in n:
            for s, t in self.ev(n["e"], st):
                if s.done is None:
                    s.done = ("break", tgt)
                    s.result = t
                out.append((s, None))
        else:
            st.done = ("break", tgt)
            out.append((st, None))
        return out

    def ev_continue(self, n, st):
        st.done = ("continue", (self.frame_id(st), n.get("target")))
        return [(st, None)]

    def ev_try(self, n, st):
        out = []
        for s, t in self.ev(n["e"], st):
            if s.done is not None:
                out.append((s, None))
                continue
            ty = n["e"].get("ty_adj") or n["e"].get("ty") or ""
            is_opt = ty.startswith("core::option::Option<")
            good, bad = (SOME, NONE) if is_opt else (OK, ERR)
            for s2, okb in self.test_variant(t, good, s, siblings=[bad]):
                if okb:
                    out.append((s2, self.proj(t, good, 0)))
                else:
                    s2.done = ("ret", self.frame_id(s2))
                    if is_opt:
                        s2.result = ("ctor", NONE, ())
                    else:
                        e = self.proj(t, ERR, 0)
                        et = err_type(ty)
                        rt = err_type(s2.frames[-1][1].get("output") or "")
                        if et is None or rt is None or et != rt:
                            e = ("conv", e)
                        s2.result = ("ctor", ERR, (e,))
                    s2.via_try = n
                    s2.ret_loop_depth = s2.loop_depth
                    out.append((s2, None))
        return out

    def try_count(self, n, st, limit=64):
        """a loop whose carried locals are literals before it and after every iteration (`let mut i = 0; while i < N { ..; i += 1 }`
        with constant N): run it concretely, iteration by iteration; None when it does not stay concrete or does not end within
        `limit` iterations"""
        fid = self.frame_id(st)
        target = (fid, n.get("hid"))
        lids = []
        for x in H.walk(n["body"]):
            if x.get("k") in ("assign", "assignop") and x["l"].get("k") == "path":
                lid = H.local_id(x["l"])
                if lid is not None and (fid, lid) in st.env and lid not in lids:
                    lids.append(lid)
        if not lids or any(st.env[(fid, l)][0] != "lit" for l in lids):
            return None
        if any(x.get("k") == "loop" for x in H.walk(n["body"]) if x is not n["body"]):
            return None
        saved = (self.seq, self.count)
        live = [st.fork()]
        finished = []
        for _ in range(limit):
            nxt = []
            for s0 in live:
                for s, t in self.ev(n["body"], s0):
                    if s.done is not None and s.done[0] == "break" and s.done[1] == target:
                        s.done = None
                        t = s.result if s.result is not None else ("tuple", ())
                        s.result = None
                        finished.append((s, t))
                    elif s.done is None or (s.done[0] == "continue" and s.done[1] == target):
                        s.done = None
                        if any(s.env.get((fid, l), ("x",))[0] != "lit" for l in lids):
                            return None
                        nxt.append(s)
                    else:
                        finished.append((s, None))
            live = nxt
            if not live:
                return finished
            if len(live) + len(finished) > 256:
                return None
        return None

    def ev_loop(self, n, st):
        r = self.try_count(n, st)
        if r is not None:
            return r
        fid = self.frame_id(st)
        target = (fid, n.get("hid"))
        # a local that is re-assigned as a whole inside the body has an unknown value in "some iteration";
        # a container mutated in place (x.f = .., x.push(..)) keeps its identity (the term that created it)
        # The trace records the loop-carried locals: ('enter', loop, ((local id, name, value before the loop, its symbol at the
        # start of the iteration), ..)), and at the end of the iteration / at the exit ('iter' | 'break', loop, ((local id, value), ..)).
        carried = []
        lsite = self.site(n, st)
        keys = []
        for x in H.walk(n["body"]):
            if x.get("k") in ("assign", "assignop") and x["l"].get("k") == "path":
                lid = H.local_id(x["l"])
                if lid is not None:
                    for f2 in self.frame_chain(st):
                        if (f2, lid) in st.env and (f2, lid) not in keys:
                            keys.append((f2, lid))
                            break
        # locals assigned by code the body *calls* (an expanded helper's closure argument assigning to a captured local): found by
        # running the body once on a scratch copy of the state, then treated like the syntactic ones
        if any(x.get("k") in ("call", "mcall") for x in H.walk(n["body"])) and not getattr(self, "_discovering", False):
            self._discovering = True
            saved = (self.count,)
            try:
                probe = st.fork()
                probe.stored = ()
                for s2, _t in self.ev(n["body"], probe):
                    for k2 in s2.stored:
                        if k2 in st.env and k2 not in keys:
                            keys.append(k2)
            except TooManyPaths:
                pass
            finally:
                self._discovering = False
        names = {}
        for x in H.walk(n["body"]):
            if x.get("k") in ("assign", "assignop") and x["l"].get("k") == "path" and H.local_id(x["l"]) is not None:
                names[H.local_id(x["l"])] = x["l"]["res"].get("name")
        for key in keys:
            lv = self.fresh("loop-var")
            carried.append((key, names.get(key[1]), st.env[key], lv))
            st.env[key] = lv
        st.trace = st.trace + (("enter", lsite, tuple(carried)),)
        st.loops += 1
        st.loop_depth += 1
        out = []

        def snapshot(s, leave):
            snap = tuple((key, s.env.get(key)) for key, _n, _i, _lv in carried)
            if not leave:
                # the code after the loop is reached after any number of further iterations
                for key, _n, _i, lv in carried:
                    if s.env.get(key) != lv:
                        s.env[key] = self.fresh("assigned-in-loop")
            return snap

        for s, t in self.ev(n["body"], st):
            if s.done is not None and s.done[0] in ("break", "continue") and s.done[1] == target:
                brk = s.done[0] == "break"
                s.trace = s.trace + ((("break" if brk else "iter"), lsite, snapshot(s, brk)),)
                s.done = None
                t = s.result if (brk and s.result is not None) else (("tuple", ()) if brk else self.fresh("loop"))
                s.result = None
                s.loop_depth -= 1
            elif s.done is None:
                s.trace = s.trace + (("iter", lsite, snapshot(s, False)),)
                s.loop_depth -= 1
                t = self.fresh("loop")     # a `loop` has a value only through `break v`; this iteration just ended
            out.append((s, t))
        return out

    def try_unroll(self, n, st):
        """`for pat in [e1, .., en] { body }` (also .iter() / .into_iter() / & of an array literal): n copies of the body"""
        sc = H.strip_block(n["scrut"])
        if sc.get("callee") != "core::iter::traits::collect::IntoIterator::into_iter" or not sc.get("args"):
            return None
        fl = [f for f in H.for_loops(n) if f["node"] is n]
        if not fl or fl[0]["pat"] is None or fl[0]["body"] is None:
            return None
        f = fl[0]
        res = self.ev(sc["args"][0], st.fork())
        if len(res) != 1 or res[0][0].done is not None:
            return None
        s0, it = res[0]
        if it[0] != "array" or len(it[1]) > 32:
            return None
        exits = H.loop_exits([f["body"]])
        if any(x.get("k") == "break" for x in exits):
            return None
        cur = [s0]
        for elem in it[1]:
            nxt = []
            for s in cur:
                if s.done is not None:
                    nxt.append(s)
                    continue
                for s2, ok in self.pm(f["pat"], elem, s):
                    if not ok:
                        continue
                    for s3, _t in self.ev(f["body"], s2):
                        if s3.done is not None and s3.done[0] == "continue":
                            s3.done = None
                        nxt.append(s3)
            cur = nxt
        return [(s, None if s.done is not None else ("tuple", ())) for s in cur]

    def ev_assign(self, n, st):
        out = []
        for s, ts in self.ev_seq([n["r"]], st):
            if s.done is not None:
                out.append((s, None))
                continue
            v = ts[0]
            if n["k"] == "assignop":
                for s2, lt in self.ev(n["l"], s):
                    if s2.done is None and n["op"].rstrip("=") in ("+", "-", "*"):
                        self.arith.setdefault(n.get("sp"), set()).add((n["op"].rstrip("="), lt, v))
                    v2 = self.binop(n["op"].rstrip("="), lt, v) if s2.done is None else None
                    self.store(n, s2, v2)
                    out.append((s2, ("tuple", ())))
                continue
            self.store(n, s, v)
            out.append((s, ("tuple", ())))
        return out

    ev_assignop = ev_assign

    def store(self, n, st, v):
        if st.done is not None:
            return
        tgt = H.strip(n["l"])
        lid = H.local_id(tgt)
        fid = self.frame_id(st)
        res = self.ev(n["l"], st.fork())
        place = res[0][1] if res and res[0][0].done is None else self.fresh("place")
        if self.is_effect("<assign>", [place, v], n, st):
            self.add_effect(st, "assign", "<assign>", [place, v], n, None)
        if lid is not None and n["l"].get("k") == "path":
            # the frame the local lives in (a closure body assigns to locals of the function it is written in)
            for f2 in self.frame_chain(st):
                if (f2, lid) in st.env:
                    fid = f2
                    break
            st.env[(fid, lid)] = v if v is not None else self.fresh("assigned")
            st.stored = st.stored + ((fid, lid),)
        elif tgt.get("k") == "field":
            # x.f.g = v : the local x now holds an updated value (only for values this function owns a copy of)
            chain = []
            b = tgt
            while b.get("k") == "field":
                chain.append(b["name"])
                b = H.strip(b["base"])
            if b.get("k") == "path" and b["res"].get("rk") == "Local":
                key = (fid, b["res"]["id"])
                old = st.env.get(key)
                if old is not None and (old[0] in ("copy", "upd", "struct", "ctor", "mutated") or input_rooted(old)):
                    st.env[key] = self.update(old, list(reversed(chain)), v if v is not None else self.fresh("assigned"))

    def update(self, t, chain, v):
        if len(chain) == 1:
            return ("upd", t, chain[0], v)
        return ("upd", t, chain[0], self.update(self.field(t, chain[0]), chain[1:], v))

    def mark_mutated(self, n, st):
        """locals handed out by `&mut` (explicitly or as an auto-referenced receiver) hold an unknown value afterwards, when
        they are owned copies of input data; fresh containers and parameters keep their identity (rules track them by effects)"""
        fid = self.frame_id(st)
        cands = []
        for a in ([n["recv"]] if n.get("k") == "mcall" else []) + list(n.get("args", [])):
            x = a
            if x.get("k") == "addrof" and x.get("mut"):
                x = H.strip(x["e"])
                if x.get("k") == "path" and x["res"].get("rk") == "Local":
                    cands.append(x["res"]["id"])
            elif x.get("k") == "path" and x["res"].get("rk") == "Local" and (x.get("ty_adj") or "").startswith("&mut") and not (x.get("ty") or "").startswith("&"):
                cands.append(x["res"]["id"])
        for lid in cands:
            old = st.env.get((fid, lid))
            if old is not None and old[0] in ("copy", "upd", "mutated"):
                st.env[(fid, lid)] = ("mutated", old, self.site(n, st))

    def add_effect(self, st, kind, callee, args, node, term):
        self.seq += 1
        st.effects = st.effects + (Effect(kind, callee, tuple(args), node, term, len(st.frames) - 1, st.loop_depth, self.seq, self.frame_id(st), len(st.atoms)),)

    # ---- calls
    def ev_call(self, n, st):
        if "ctor" in n:
            cpath = n["ctor"][5:] if n["ctor"].startswith("Self:") else n["ctor"]
            if n["ctor"].startswith("Self:") and cpath.startswith("<"):
                # `Self(..)` inside a trait impl: the driver names the impl, the value's type names the struct
                cpath = split_generic(re.sub(r"<'[a-z_]+(, )?", "<", n.get("ty") or ""))[0] or cpath
            return [(s, None if s.done is not None else ("ctor", cpath, tuple(ts))) for s, ts in self.ev_seq(n["args"], st)]
        f = H.strip(n["f"])
        nodes = list(n["args"])
        callee = n.get("resolved") or n.get("callee")
        pre = []
        if callee is None:
            pre = [n["f"]]
        out = []
        for s, ts in self.ev_seq(pre + nodes, st):
            if s.done is not None:
                out.append((s, None))
                continue
            if pre:
                ft, ts = ts[0], ts[1:]
                if ft[0] == "fn":
                    callee2 = ft[1]
                    if len(ft) > 2 and ft[2] == "ctor":
                        out.append((s, ("ctor", callee2, tuple(ts))))
                        continue
                    out.extend(self.do_call(n, callee2, n.get("callee"), ts, s))
                elif ft[0] == "closure" and ft[1] in self.closures and self.applying <= 6:
                    # a closure value called directly (`keep(x)` for a closure parameter of an expanded helper)
                    self.applying += 1
                    self.drop_creation(ft, s)
                    try:
                        out.extend(self.inline_closure(ft, list(ts), s))
                    finally:
                        self.applying -= 1
                else:
                    t = ("callv", ft, tuple(ts), n.get("sp"))
                    if self.is_effect("<indirect>", [ft] + ts, n, s):
                        self.add_effect(s, "call", "<indirect>", [ft] + ts, n, t)
                    out.append((s, t))
                continue
            out.extend(self.do_call(n, callee, n.get("callee"), ts, s))
        return out

    def ev_mcall(self, n, st):
        callee = n.get("resolved") or n.get("callee")
        out = []
        for s, ts in self.ev_seq([n["recv"]] + list(n["args"]), st):
            if s.done is not None:
                out.append((s, None))
                continue
            out.extend(self.do_call(n, callee, n.get("callee"), ts, s))
        return out

    def site(self, n, st):
        return (n.get("sp") or "?") + "".join("@%d" % f[0] for f in st.frames[1:])

    def do_call(self, n, callee, trait_callee, args, st):
        site = self.site(n, st)
        self.mark_mutated(n, st)
        for c in (trait_callee, callee):
            ex = self.expand_combinator(c, n, args, st)
            if ex is not None:
                return ex
        if callee == "core::bool::<impl bool>::then_some" and len(args) == 2:
            return [(s1, ("ctor", SOME, (args[1],)) if b else ("ctor", NONE, ())) for s1, b in self.truth(args[0], st)]
        if callee and callee.endswith("::transpose") and callee.startswith(("core::result::Result::<", "core::option::Option::<")) and len(args) == 1:
            # Result<Option<T>, E> <-> Option<Result<T, E>>
            out = []
            on_result = callee.startswith("core::result::")
            outer_good, inner_good = (OK, SOME) if on_result else (SOME, OK)
            for s1, g1 in self.test_variant(args[0], outer_good, st):
                if on_result:
                    if not g1:
                        out.append((s1, ("ctor", SOME, (("ctor", ERR, (self.proj(args[0], ERR, 0),)),))))
                        continue
                    inner = self.proj(args[0], OK, 0)
                    for s2, g2 in self.test_variant(inner, SOME, s1):
                        out.append((s2, ("ctor", SOME, (("ctor", OK, (self.proj(inner, SOME, 0),)),)) if g2 else ("ctor", NONE, ())))
                else:
                    if not g1:
                        out.append((s1, ("ctor", OK, (("ctor", NONE, ()),))))
                        continue
                    inner = self.proj(args[0], SOME, 0)
                    for s2, g2 in self.test_variant(inner, OK, s1):
                        out.append((s2, ("ctor", OK, (("ctor", SOME, (self.proj(inner, OK, 0),)),)) if g2 else ("ctor", ERR, (self.proj(inner, ERR, 0),))))
            return out
        if (trait_callee or callee) in ("core::iter::traits::iterator::Iterator::try_for_each", "core::iter::traits::iterator::Iterator::for_each") and len(args) == 2 \
                and self.callable_here(args[1]) and self.applying <= 6:
            it = args[0]
            mapped = []
            while it[0] == "call" and it[2] and it[1].split("::")[-1] in ("into_iter", "iter", "by_ref", "copied", "cloned", "as_slice", "map"):
                if it[1].split("::")[-1] == "map":
                    if len(it[2]) != 2 or not self.callable_here(it[2][1]):
                        break
                    mapped.insert(0, it[2][1])
                elif len(it[2]) != 1:
                    break
                it = it[2][0]
            if it[0] == "array" and len(it[1]) <= 32:
                # `[a, b, c].iter().try_for_each(f)`: f(a)?; f(b)?; f(c)?; Ok(())
                is_try = (trait_callee or callee).endswith("try_for_each")
                self.applying += 1
                self.drop_creation(args[1], st)
                for m in mapped:
                    self.drop_creation(m, st)
                try:
                    live, done = [st], []
                    for elem in it[1]:
                        nxt = []
                        for s0 in live:
                            vals = [(s0, elem)]
                            for m in mapped:
                                vals = [(s2, t) for s1, v in vals if s1.done is None for s2, t in self.call_value(m, [v], s1, n)] + [(s1, None) for s1, v in vals if s1.done is not None]
                            for s1, v in vals:
                                if s1.done is not None:
                                    done.append((s1, None))
                                    continue
                                for s2, t in self.call_value(args[1], [v], s1, n):
                                    if s2.done is not None:
                                        done.append((s2, None))
                                    elif not is_try:
                                        nxt.append(s2)
                                    else:
                                        for s3, ok in self.test_variant(t, OK, s2):
                                            if ok:
                                                nxt.append(s3)
                                            else:
                                                done.append((s3, ("ctor", ERR, (self.proj(t, ERR, 0),))))
                        live = nxt
                        if len(live) + len(done) > MAX_PATHS:
                            raise TooManyPaths()
                    unit = ("tuple", ())
                    return done + [(s1, ("ctor", OK, (unit,)) if is_try else unit) for s1 in live]
                finally:
                    self.applying -= 1
        if (trait_callee or callee) in ("core::iter::traits::iterator::Iterator::try_fold", "core::iter::traits::iterator::Iterator::fold") and len(args) == 3 \
                and self.callable_here(args[2]) and self.applying <= 6:
            # `IT.try_fold(init, |acc, x| ..)`: a loop with one symbolic iteration whose accumulator is `init` itself (an accumulator
            # that is updated in place and handed back keeps its identity; one that is replaced is unknown after the loop)
            is_try = (trait_callee or callee).endswith("try_fold")
            it, init, f = args
            maps = []
            while it[0] == "call" and it[1].endswith("Iterator::map") and len(it[2]) == 2 and self.callable_here(it[2][1]):
                maps.insert(0, it[2][1])
                it = it[2][0]
            NEXT_ = "core::iter::traits::iterator::Iterator::next"
            lsite = self.site(n, st) + "#fold"
            fake = {"k": "mcall", "callee": NEXT_, "sp": n.get("sp"), "pv": n.get("pv"), "targs": []}
            self.drop_creation(f, st)
            for m in maps:
                self.drop_creation(m, st)
            st.trace = st.trace + (("enter", lsite, ()),)
            st.loops += 1
            st.loop_depth += 1
            out = []
            self.applying += 1
            try:
                if it[0] == "call" and it[1] == "core::iter::sources::from_fn::from_fn" and len(it[2]) == 1 and self.callable_here(it[2][0]):
                    draws = self.call_value(it[2][0], [], st, n)       # from_fn(g).next() is g()
                else:
                    nx = ("call", NEXT_, (it,), lsite)
                    if self.is_effect(NEXT_, [it], fake, st):
                        self.add_effect(st, "call", NEXT_, [it], fake, nx)
                    draws = [(st, nx)]
                for s0, nx in draws:
                    if s0.done is not None:
                        out.append((s0, None))
                        continue
                    for s1, some in self.test_variant(nx, SOME, s0):
                        if not some:
                            s1.trace = s1.trace + (("break", lsite, ()),)
                            s1.loop_depth -= 1
                            out.append((s1, ("ctor", OK, (init,)) if is_try else init))
                            continue
                        vals = [(s1, self.proj(nx, SOME, 0))]
                        for m in maps:
                            vals = [(s3, t) for s2, v in vals if s2.done is None for s3, t in self.call_value(m, [v], s2, n)] + [(s2, None) for s2, v in vals if s2.done is not None]
                        for s2, v in vals:
                            if s2.done is not None:
                                out.append((s2, None))
                                continue
                            for s3, t in self.call_value(f, [init, v], s2, n):
                                if s3.done is not None:
                                    out.append((s3, None))
                                    continue
                                if not is_try:
                                    s3.loop_depth -= 1
                                    s3.trace = s3.trace + (("iter", lsite, ()),)
                                    out.append((s3, init if t == init else self.fresh("folded")))
                                    continue
                                for s4, ok in self.test_variant(t, OK, s3):
                                    s4.loop_depth -= 1
                                    if ok:
                                        s4.trace = s4.trace + (("iter", lsite, ()),)
                                        v2 = self.proj(t, OK, 0)
                                        out.append((s4, ("ctor", OK, (init if v2 == init else self.fresh("folded"),))))
                                    else:
                                        s4.trace = s4.trace + (("abort", lsite, ()),)
                                        out.append((s4, ("ctor", ERR, (self.proj(t, ERR, 0),))))
            finally:
                self.applying -= 1
            return out
        if (trait_callee or callee) == "core::iter::traits::iterator::Iterator::try_for_each" and len(args) == 2 and self.callable_here(args[1]) and self.applying <= 6:
            # over a collection that is not a literal: the loop `for x in IT { f(x)? }`, one symbolic iteration
            it = args[0]
            maps = []
            while it[0] == "call" and it[1].endswith("Iterator::map") and len(it[2]) == 2 and self.callable_here(it[2][1]):
                maps.insert(0, it[2][1])
                it = it[2][0]
            NEXT_ = "core::iter::traits::iterator::Iterator::next"
            lsite = self.site(n, st) + "#each"
            fake = {"k": "mcall", "callee": NEXT_, "sp": n.get("sp"), "pv": n.get("pv"), "targs": []}
            nx = ("call", NEXT_, (it,), lsite)
            self.drop_creation(args[1], st)
            for m in maps:
                self.drop_creation(m, st)
            st.trace = st.trace + (("enter", lsite, ()),)
            st.loops += 1
            st.loop_depth += 1
            if self.is_effect(NEXT_, [it], fake, st):
                self.add_effect(st, "call", NEXT_, [it], fake, nx)
            out = []
            unit = ("tuple", ())
            self.applying += 1
            try:
                for s1, some in self.test_variant(nx, SOME, st):
                    if not some:
                        s1.trace = s1.trace + (("break", lsite, ()),)
                        s1.loop_depth -= 1
                        out.append((s1, ("ctor", OK, (unit,))))
                        continue
                    vals = [(s1, self.proj(nx, SOME, 0))]
                    for m in maps:
                        vals = [(s3, t) for s2, v in vals if s2.done is None for s3, t in self.call_value(m, [v], s2, n)] + [(s2, None) for s2, v in vals if s2.done is not None]
                    for s2, v in vals:
                        if s2.done is not None:
                            out.append((s2, None))
                            continue
                        for s3, t in self.call_value(args[1], [v], s2, n):
                            if s3.done is not None:
                                out.append((s3, None))
                                continue
                            for s4, ok in self.test_variant(t, OK, s3):
                                s4.loop_depth -= 1
                                if ok:
                                    s4.trace = s4.trace + (("iter", lsite, ()),)
                                    out.append((s4, ("ctor", OK, (unit,))))
                                else:
                                    s4.trace = s4.trace + (("abort", lsite, ()),)      # left early with the callback's error
                                    out.append((s4, ("ctor", ERR, (self.proj(t, ERR, 0),))))
            finally:
                self.applying -= 1
            return out
        if (trait_callee or callee) == "core::iter::traits::iterator::Iterator::next" and len(args) == 1 and self.applying <= 6:
            it = args[0]
            while it[0] == "call" and len(it[2]) == 1 and it[1].split("::")[-1] in ("into_iter", "by_ref", "borrow_mut", "deref_mut"):
                it = it[2][0]
            if it[0] == "call" and it[1] == "core::iter::sources::from_fn::from_fn" and len(it[2]) == 1 and it[2][0][0] == "closure" and it[2][0][1] in self.closures:
                # core::iter::from_fn(f).next() is f()
                self.applying += 1
                try:
                    return self.inline_closure(it[2][0], [], st)
                finally:
                    self.applying -= 1
        for c in (trait_callee, callee):
            if c in TESTS and args:
                # a test used as a value: decided when known, otherwise opaque boolean
                ctor, pol = TESTS[c]
                k = self.lookup(st, args[0])
                if k is not None:
                    return [(st, ("lit", (k == ctor) == pol))]
                return [(st, ("test", args[0], ctor))]
            simp = self.combinator(c, args, site) if c else None
            if simp is not None:
                return [(st, simp)]
        for c in (trait_callee, callee):
            if c in UNWRAPS and args:
                good = UNWRAPS[c]
                out = []
                for s2, okb in self.test_variant(args[0], good, st):
                    if okb:
                        out.append((s2, self.proj(args[0], good, 0)))
                    else:
                        s2.done = ("panic", n.get("sp"), c)
                        out.append((s2, None))
                return out
        itm = next((c for c in (trait_callee, callee) if c in ("core::iter::traits::iterator::Iterator::any", "core::iter::traits::iterator::Iterator::find", "core::iter::traits::iterator::Iterator::position")), None)
        if itm is not None and len(args) == 2 \
                and args[0][0] == "array" and args[1][0] == "closure" and args[1][1] in self.closures:
            # `arr.iter().any(|k| *k == x)` is membership of x in the literal array: canonical form contains(arr, x)
            probe = ("unk", -1, "elem")
            r = self.apply_closure(args[1], [probe])
            x = None
            if r is not None and r[0] == "bin" and r[1] == "==":
                x = r[3] if r[2] == probe else r[2] if r[3] == probe else None
            if x is not None and probe not in list(subterms(x)):
                member = ("call", "core::slice::<impl [T]>::contains", (args[0], x), "")
                if itm.endswith("::any"):
                    return [(st, member)]
                if itm.endswith("::find") and all(e[0] == "lit" for e in args[0][1]):
                    return [(st, ("call", "sym::find_eq", (args[0], x), ""))]
            if len(args[0][1]) <= 32 and not itm.endswith("::position"):
                # a search over a literal array: one test per element, in order (like an unrolled loop)
                out, pending = [], [st]
                for elem in args[0][1]:
                    c = self.apply_closure(args[1], [elem])
                    if c is None:
                        out = None
                        break
                    nxt = []
                    for s1 in pending:
                        for s2, b in self.truth(c, s1):
                            if b:
                                out.append((s2, ("lit", True) if itm.endswith("::any") else ("ctor", SOME, (elem,))))
                            else:
                                nxt.append(s2)
                    pending = nxt
                if out is not None:
                    out.extend((s1, ("lit", False) if itm.endswith("::any") else ("ctor", NONE, ())) for s1 in pending)
                    return out
        if callee in ("core::slice::<impl [T]>::len", "core::array::<impl [T; N]>::len") and args and args[0][0] == "array":
            return [(st, ("lit", len(args[0][1])))]
        # identity conversions: From<T> for T / Into
        if trait_callee in ("core::convert::From::from", "core::convert::Into::into") and args:
            ta = n.get("targs") or []
            if len(ta) >= 2 and ta[0] == ta[1]:
                return [(st, args[0])]
        if n.get("ty") == "!":
            if self.is_effect(callee, args, n, st):
                self.add_effect(st, "call", callee, args, n, None)
            st.done = ("panic", n.get("sp"), callee or trait_callee or "diverges")      # panic!/unreachable!/process::abort ..
            return [(st, None)]
        if self.visitor_calls and trait_callee == "serde_core::de::Deserializer::deserialize_seq" and len(args) == 2 and args[1] is not None and args[1][0] in ("ctor", "struct"):
            # serde's contract for `deserializer.deserialize_seq(visitor)`: the input is a sequence and the result is
            # visitor.visit_seq(<its elements>), or it is not and the call fails without the visitor having been consulted
            # (a visitor that only defines visit_seq rejects every other shape through the default methods).  Enabled by the
            # checks that audit a visitor from the decoder that creates it.
            vty = args[1][1]
            meths = [g for g in self.F.fns if (g.get("impl") or {}).get("trait") == "serde_core::de::Visitor" and (g["impl"]["self_ty"].get("path") or split_generic(g["impl"]["self_ty"].get("s") or "")[0]) == vty]
            vs = [g for g in meths if g["name"] == "visit_seq" and g.get("body") is not None]
            if len(vs) == 1 and all(g["name"] in ("visit_seq", "expecting") for g in meths) and len(st.frames) <= self.max_inline:
                s_err = st.fork()
                s_err.trace = s_err.trace + (("visitor-rejected", site),)
                out = [(s_err, ("ctor", ERR, (("call", "serde::not-a-sequence", (args[0],), site),)))]
                out.extend(self.do_inline(n, vs[0], [args[1], ("call", "serde::sequence", (args[0],), site)], st))
                return out
        body_fn = self.body_for(callee)
        if body_fn is None:
            # x.into() / T::from(x) / x.try_into() / T::try_from(x): the /repo impl the conversion statically dispatches to
            ci = H.conversion_impl(n)
            if ci:
                try:
                    cf = self.F.trait_impl_fn(ci, "from" if ci.startswith("<") and " as core::convert::From<" in ci else "try_from")
                except ValueError:
                    cf = None
                if cf is None and trait_callee in ("core::convert::Into::into", "core::convert::From::from") and args and args[0][0] == "ctor" and "::" in args[0][1]:
                    # inside an expanded generic helper (`v.into()` with `T: Into<&str>`): the impl is fixed by the value converted --
                    # the one `From<ThatEnum>` impl of the crate
                    en = args[0][1].rsplit("::", 1)[0]
                    cands = [f for f in self.F.fns if f["name"] == "from" and ((f.get("impl") or {}).get("trait_ref") or "").endswith(" as core::convert::From<%s>>" % en)]
                    if len(cands) == 1:
                        cf = cands[0]
                if cf is not None and cf.get("body") is not None:
                    callee = cf["path"]       # canonical callee: the /repo impl, however the conversion was spelled
                    if self.inline(cf["path"], n):
                        body_fn = cf
        if body_fn is not None and len(st.frames) <= self.max_inline and all(f[1] is not body_fn for f in st.frames) and self.inline(callee, n):
            return self.do_inline(n, body_fn, args, st)
        t = ("call", callee or trait_callee or "?", tuple(args), site)
        for a in args:
            if a is not None and a[0] == "closure" and a[1] in self.handed:
                cnode = self.closures[a[1]][0]
                if not any(e.kind == "closure" and e.node is cnode for e in st.effects) and self.is_effect("<closure>", list(a[2]), cnode, st):
                    self.add_effect(st, "closure", "<closure>", list(a[2]), cnode, a)
        if self.is_effect(callee or trait_callee, args, n, st):
            self.add_effect(st, "call", callee or trait_callee, args, n, t)
        # a local `[v; N]` array handed by `&mut` to code that is not expanded holds unknown contents afterwards
        fid = self.frame_id(st)
        for a in ([n["recv"]] if n.get("k") == "mcall" else []) + list(n.get("args", [])):
            x = a
            if x.get("k") == "addrof" and x.get("mut"):
                x = H.strip(x["e"])
            elif not (x.get("k") == "path" and (x.get("ty_adj") or "").startswith("&mut") and not (x.get("ty") or "").startswith("&")):
                continue
            if x.get("k") == "path" and x["res"].get("rk") == "Local":
                for f2 in self.frame_chain(st):
                    old = st.env.get((f2, x["res"]["id"]))
                    if old is not None and old[0] == "repeat":
                        st.env[(f2, x["res"]["id"])] = ("mutated", old, site)
                        break
        return [(st, t)]

    def body_for(self, callee):
        if not callee:
            return None
        l = self.F.fns_by_path.get(callee, [])
        if len(l) > 1:
            # several impls print the same path (e.g. `<impl From<..>>::from`): not resolvable by path
            return None
        if len(l) == 1 and l[0].get("body") is not None and not l[0].get("unsafe_fn"):
            return l[0]
        return None

    def do_inline(self, n, fn, args, st):
        self.uid += 1
        fid = self.uid
        self.inlined.add(fn["path"])
        self.frame_call[fid] = (n, fn)
        self.call_parent[fid] = self.frame_id(st)
        # a closure handed to a helper that is expanded in place is evaluated wherever the helper calls it: its creation is no event
        # of its own (a path on which the helper never calls it has no trace of it).  Should the helper pass it on to code that is
        # not expanded, the event is put back there (see the end of do_call)
        for a in args:
            if a is not None and a[0] == "closure" and a[1] in self.closures:
                self.drop_creation(a, st)
                self.handed.add(a[1])
        s = st
        s.frames = s.frames + ((fid, fn),)
        states = [s]
        for p, a in zip(fn.get("params", []), args):
            nxt = []
            for s1 in states:
                for s2, ok in self.pm(p, a, s1):
                    if ok:
                        nxt.append(s2)
            states = nxt
        out = []
        for s1 in states:
            for s2, t in self.ev(fn["body"], s1):
                if s2.done == ("ret", fid):
                    s2.done = None
                    t = s2.result
                    s2.result = None
                    s2.ret_loop_depth = 0
                    s2.via_try = None
                if s2.frames and s2.frames[-1][0] == fid:
                    s2.frames = s2.frames[:-1]
                else:
                    s2.frames = tuple(f for f in s2.frames if f[0] != fid)
                out.append((s2, t))
        return out

    # ------------------------------------------------------------------ conditions
    def cond(self, n, st):
        """-> list of (state, bool)"""
        n = H.strip_block(n)
        k = n.get("k")
        if k == "binary" and n["op"] == "&&":
            out = []
            for s, b in self.cond(n["l"], st):
                if s.done is not None or not b:
                    out.append((s, False))
                else:
                    out.extend(self.cond(n["r"], s))
            return out
        if k == "binary" and n["op"] == "||":
            out = []
            for s, b in self.cond(n["l"], st):
                if s.done is not None or b:
                    out.append((s, True))
                else:
                    out.extend(self.cond(n["r"], s))
            return out
        if k == "unary" and n["op"] == "not":
            return [(s, (not b) if s.done is None else b) for s, b in self.cond(n["e"], st)]
        if k == "letexpr":
            out = []
            for s, t in self.ev(n["init"], st):
                if s.done is not None:
                    out.append((s, False))
                else:
                    out.extend(self.pm(n["pat"], t, s))
            return out
        out = []
        for s, t in self.ev(n, st):
            if s.done is not None:
                out.append((s, False))
                continue
            out.extend(self.truth(t, s))
        return out

    def type_arg(self, effect, ty):
        """a type argument written inside an expanded generic helper (`T`), as instantiated by the call that was expanded -- through
        several levels (a helper that hands its own `T` on to another helper, or to a generic visitor type whose method was expanded)"""
        fid = effect.frame
        for _ in range(6):
            for _ in range(6):
                if fid in self.frame_call or fid not in self.frame_parent:
                    break
                fid = self.frame_parent[fid]
            fc = self.frame_call.get(fid)
            if fc is None or not re.match(r"^[A-Z]\w*$", ty or ""):
                return ty
            n, fn = fc
            gen = [g["name"] for g in (fn.get("generics") or []) if g.get("kind") != "lifetime"]
            ta = n.get("targs") or []
            mapping = {}
            if len(gen) == len(ta):
                mapping = dict(zip(gen, ta))
            im = fn.get("impl") or {}
            st_s = (im.get("self_ty") or {}).get("s") or ""
            if ty not in mapping and "<" in st_s:
                # a method of `impl<T, F> Tr for V<T, F>` expanded for a value of type V<X, Y> named among the call's type arguments
                head, margs = split_generic(st_s)
                for t in ta:
                    h2, a2 = split_generic(t)
                    if h2 == head and len(a2) == len(margs):
                        mapping.update({m: a for m, a in zip(margs, a2) if re.match(r"^[A-Z]\w*$", m)})
            if ty not in mapping:
                return ty
            ty = mapping[ty]
            fid = self.call_parent.get(fid)
            if fid is None:
                return ty
        return ty

    def resolve(self, st, t):
        """t with the variant tests it contains decided by what is known on the path (a flag computed before the path split on
        the tested value)"""
        if t is None or not isinstance(t, tuple):
            return t
        if t[0] == "test":
            k = self.lookup(st, t[1])
            return t if k is None else ("lit", k == t[2])
        if t[0] == "bin":
            return self.binop(t[1], self.resolve(st, t[2]), self.resolve(st, t[3]))
        if t[0] == "un" and t[1] == "not":
            x = self.resolve(st, t[2])
            return ("lit", not x[1]) if x[0] == "lit" and isinstance(x[1], bool) else ("un", "not", x)
        return t

    def truth(self, t, st):
        if t[0] == "lit" and isinstance(t[1], bool):
            return [(st, t[1])]
        if t[0] == "un" and t[1] == "not":
            return [(s, not b) for s, b in self.truth(t[2], st)]
        if t[0] == "test":
            return self.test_variant(t[1], t[2], st)
        if t[0] == "bin" and t[1] in ("==", "!="):
            l, r = t[2], t[3]
            if l[0] in ("lit", "array") and r[0] not in ("lit", "array"):
                l, r = r, l
            return [(s, b == (t[1] == "==")) for s, b in self.test_eq(l, r, st)]
        for a in st.atoms:
            if a[0] == "true" and a[1] == t:
                return [(st, a[2])]
        s2 = st.fork()
        st.atoms = st.atoms + (("true", t, True),)
        s2.atoms = s2.atoms + (("true", t, False),)
        return [(st, True), (s2, False)]

    def test_variant(self, t, ctor, st, siblings=None):
        """is term t of variant ctor? decided from the path when possible, otherwise forks"""
        root, mapping = root_of(t)
        if mapping and root is not t and mapping.get(ctor):
            t, ctor = root, mapping[ctor]      # canonical: the test is recorded on the underlying call
        k = self.lookup(st, t)
        if k is not None:
            return [(st, k == ctor)]
        if ctor in st.known_not.get(t, ()):
            return [(st, False)]
        vs = self.variants_of(ctor)
        s2 = st.fork()
        st.atoms = st.atoms + (("is", t, ctor),)
        self.learn(st, t, ctor)
        s2.atoms = s2.atoms + (("isnot", t, ctor),)
        kn = set(s2.known_not.get(t, ())) | {ctor}
        s2.known_not[t] = frozenset(kn)
        if vs:
            rest = [v for v in vs if v not in kn]
            if len(rest) == 1:
                self.learn(s2, t, rest[0])
            if not rest:
                return [(st, True)]
        return [(st, True), (s2, False)]

    # ------------------------------------------------------------------ patterns
    def pm(self, p, t, st):
        """match term t against pattern p -> list of (state, matched?)"""
        k = p.get("k")
        fid = self.frame_id(st)
        if k == "wild" or k == "missing":
            return [(st, True)]
        if k == "bind":
            if "sub" in p:
                out = []
                for s, ok in self.pm(p["sub"], t, st):
                    if ok:
                        s.env[(fid, p["id"])] = t
                    out.append((s, ok))
                return out
            if "Mut)" in (p.get("mode") or "") and not (p.get("ty") or "").startswith("&") and input_rooted(t):
                t = ("copy", t, (fid, p["id"]))     # an owned, mutable copy of input data: a different object from now on
            st.env[(fid, p["id"])] = t
            return [(st, True)]
        if k in ("ref", "deref"):
            return self.pm(p["pat"], t, st)
        if k == "guard":
            out = []
            for s, ok in self.pm(p["pat"], t, st):
                if not ok:
                    out.append((s, False))
                else:
                    out.extend(self.cond(p["cond"], s))
            return out
        if k == "tuple":
            return self.pm_all([(q, self.tproj(t, i)) for i, q in enumerate(p["pats"])], st)
        if k in ("tuplestruct", "struct"):
            r = p["res"]
            ctor = r.get("ctor_of") or r.get("path")
            if k == "tuplestruct":
                subs = [(q, (ctor, i)) for i, q in enumerate(p["pats"])]
            else:
                subs = [(f["pat"], (ctor, f["name"])) for f in p["fields"]]
            if not (self.is_enum_variant(ctor) or "Variant" in (r.get("rk") or "")):
                if k == "tuplestruct":
                    return self.pm_all([(q, self.field(t, str(i)) if t[0] != "ctor" else self.proj(t, ctor, i)) for i, q in enumerate(p["pats"])], st)
                return self.pm_all([(f["pat"], self.field(t, f["name"])) for f in p["fields"]], st)
            out = []
            for s, ok in self.test_variant(t, ctor, st):
                if not ok:
                    out.append((s, False))
                    continue
                if k == "tuplestruct":
                    pairs = [(q, self.proj(t, ctor, i)) for i, q in enumerate(p["pats"])]
                else:
                    pairs = [(f["pat"], self.proj(t, ctor, int(f["name"]) if f["name"].isdigit() else f["name"])) for f in p["fields"]]
                out.extend(self.pm_all(pairs, s))
            return out
        if k == "expr":
            e = p["e"]
            if e.get("k") == "path":
                r = e["res"]
                rk = r.get("rk", "")
                if rk.startswith("Ctor"):
                    ctor = r.get("ctor_of") or r.get("path")
                    if self.is_enum_variant(ctor) or "Variant" in rk:
                        return self.test_variant(t, ctor, st)
                    return [(st, True)]
                v = self.const_term(r.get("path"))
            elif e.get("k") == "lit":
                v = ("lit", e.get("v"))
            else:
                v = self.fresh("patexpr")
            return self.test_eq(t, v, st)
        if k == "range":
            def val(e):
                if e is None:
                    return None
                if e.get("k") == "lit":
                    return e.get("v")
                if e.get("k") == "path":
                    c = self.const_term(e["res"].get("path"))
                    return c[1] if c[0] == "lit" else None
                return None
            lo, hi = val(p.get("lo")), val(p.get("hi"))
            if hi is not None and not p.get("inclusive"):
                hi = hi - 1
            if t[0] == "lit" and isinstance(t[1], int):
                return [(st, (lo is None or lo <= t[1]) and (hi is None or t[1] <= hi))]
            return self.fork_atom(("in", t, lo, hi), st)
        if k == "or":
            out = []
            pending = [st]
            for q in p["pats"]:
                nxt = []
                for s in pending:
                    for s2, ok in self.pm(q, t, s):
                        (out if ok else nxt).append((s2, ok) if ok else s2)
                pending = nxt
            out.extend((s, False) for s in pending)
            return out
        if k == "slice":
            before, after, mid = p.get("before", []), p.get("after", []), p.get("mid")
            if mid is None and all(self.pat_literal(q) is not None for q in before + after):
                want = ("array", tuple(("lit", self.pat_literal(q)) for q in before + after))
                return self.test_eq(t, want, st)
            if t[0] == "array":
                n = len(t[1])
                if n < len(before) + len(after) or (mid is None and n != len(before) + len(after)):
                    return [(st, False)]
                pairs = [(q, t[1][i]) for i, q in enumerate(before)] + [(q, t[1][n - len(after) + i]) for i, q in enumerate(after)]
                if mid is not None:
                    pairs.append((mid, ("array", t[1][len(before):n - len(after)])))
                return self.pm_all(pairs, st)
            desc = "[%d%s%d]" % (len(before), ".." if mid is not None else ",", len(after))
            out = []
            for s, ok in self.fork_atom(("slice", t, desc), st):
                if not ok:
                    out.append((s, False))
                    continue
                pairs = [(q, ("sproj", t, i)) for i, q in enumerate(before)] + [(q, ("sproj", t, -(len(after) - i))) for i, q in enumerate(after)]
                if mid is not None:
                    pairs.append((mid, ("smid", t, len(before), len(after))))
                out.extend(self.pm_all(pairs, s))
            return out
        return self.fork_atom(("pat", t, p.get("k")), st)

    def pat_literal(self, q):
        if q.get("k") == "expr":
            e = q["e"]
            if e.get("k") == "lit":
                return e.get("v")
            if e.get("k") == "path":
                c = self.const_term(e["res"].get("path"))
                if c[0] == "lit":
                    return c[1]
        return None

    def pm_all(self, pairs, st):
        cur = [st]
        out = []
        for q, t in pairs:
            nxt = []
            for s in cur:
                for s2, ok in self.pm(q, t, s):
                    if ok:
                        nxt.append(s2)
                    else:
                        out.append((s2, False))
            cur = nxt
        out.extend((s, True) for s in cur)
        return out

    def test_eq(self, t, v, st):
        if v[0] == "lit" and isinstance(v[1], bool) and t[0] != "lit":
            return [(s, b == v[1]) for s, b in self.truth(t, st)]
        if t[0] == "lit" and isinstance(t[1], bool) and v[0] != "lit":
            return [(s, b == t[1]) for s, b in self.truth(v, st)]
        if t[0] == "lit" and v[0] == "lit":
            return [(st, t[1] == v[1])]
        if t[0] == "array" and v[0] == "array" and all(x[0] == "lit" for x in t[1] + v[1]):
            return [(st, t == v)]
        if t == v:
            return [(st, True)]
        for a in st.atoms:
            if a[0] == "eq" and a[1] == t and a[2] == v:
                return [(st, a[3])]
            if a[0] == "eq" and a[1] == t and a[3] and a[2][0] == "lit" and v[0] == "lit":
                return [(st, False)]    # t equals another literal on this path
        s2 = st.fork()
        st.atoms = st.atoms + (("eq", t, v, True),)
        s2.atoms = s2.atoms + (("eq", t, v, False),)
        return [(st, True), (s2, False)]

    def fork_atom(self, atom, st):
        for a in st.atoms:
            if a[:-1] == atom:
                return [(st, a[-1])]
        s2 = st.fork()
        st.atoms = st.atoms + (atom + (True,),)
        s2.atoms = s2.atoms + (atom + (False,),)
        return [(st, True), (s2, False)]


# ---------------------------------------------------------------------- presentation
def show(t, depth=0):
    if t is None:
        return "()"
    if depth > 14:
        return "..."
    k = t[0]
    d = depth + 1
    if k == "lit":
        return repr(t[1])
    if k == "repeat":
        return "[%s; %d]" % (show(t[1], d), t[2])
    if k == "param":
        return t[1]
    if k == "local":
        return "%s#%d" % (t[3], t[2])
    if k == "uninit":
        return "uninit:%s" % t[3]
    if k == "unk":
        return "?%s%d" % (t[2], t[1])
    if k in ("const", "path", "static"):
        return t[1]
    if k == "fn":
        return "fn " + t[1]
    if k == "ctor":
        return short(t[1]) + ("(" + ", ".join(show(a, d) for a in t[2]) + ")" if t[2] else "")
    if k == "struct":
        return short(t[1]) + "{" + ", ".join("%s: %s" % (n, show(v, d)) for n, v in t[2]) + "}"
    if k == "tuple":
        return "(" + ", ".join(show(a, d) for a in t[1]) + ")"
    if k == "array":
        return "[" + ", ".join(show(a, d) for a in t[1]) + "]"
    if k == "call":
        return short_fn(t[1]) + "(" + ", ".join(show(a, d) for a in t[2]) + ")"
    if k == "callv":
        return "(" + show(t[1], d) + ")(" + ", ".join(show(a, d) for a in t[2]) + ")"
    if k == "field":
        return show(t[1], d) + "." + t[2]
    if k == "index":
        return show(t[1], d) + "[" + show(t[2], d) + "]"
    if k == "cast":
        return "(" + show(t[1], d) + " as " + str(t[2]) + ")"
    if k == "bin":
        return "(" + show(t[2], d) + " " + t[1] + " " + show(t[3], d) + ")"
    if k == "un":
        return t[1] + "(" + show(t[2], d) + ")"
    if k == "proj":
        return show(t[1], d) + "/" + short(t[2]) + "." + str(t[3])
    if k == "tproj":
        return show(t[1], d) + "." + str(t[2])
    if k == "sproj":
        return show(t[1], d) + "[" + str(t[2]) + "]"
    if k == "smid":
        return show(t[1], d) + "[%d..-%d]" % (t[2], t[3])
    if k == "copy":
        return "copy(" + show(t[1], d) + ")"
    if k == "upd":
        return show(t[1], d) + "{" + str(t[2]) + " := " + show(t[3], d) + "}"
    if k == "mutated":
        return "mutated(" + show(t[1], d) + ")"
    if k == "conv":
        return "from(" + show(t[1], d) + ")"
    if k == "closure":
        return "closure@" + str(t[1])
    if k == "apply":
        return show(t[1], d) + "·(" + show(t[2], d) + ")"
    if k == "test":
        return "is_" + short(t[2]) + "(" + show(t[1], d) + ")"
    return str(t)[:80]


def short(p):
    return p.split("::")[-1] if p else "?"


def short_fn(p):
    if not p:
        return "?"
    p = re.sub(r"<[^<>]*>", "", p)
    p = re.sub(r"<[^<>]*>", "", p)
    parts = [x for x in p.split("::") if x]
    return "::".join(parts[-2:]) if len(parts) > 1 else p


def show_atom(a):
    k = a[0]
    if k == "is":
        return "%s is %s" % (show(a[1]), short(a[2]))
    if k == "isnot":
        return "%s is not %s" % (show(a[1]), short(a[2]))
    if k == "eq":
        return "%s %s %s" % (show(a[1]), "==" if a[3] else "!=", show(a[2]))
    if k == "true":
        return ("" if a[2] else "!") + show(a[1])
    if k == "in":
        return "%s %s %s..=%s" % (show(a[1]), "in" if a[4] else "not in", a[2], a[3])
    if k == "slice":
        return "%s %s slice%s" % (show(a[1]), "matches" if a[3] else "!matches", a[2])
    return str(a)[:100]


def children_of(t):
    k = t[0]
    if k in ("ctor", "call"):
        return list(t[2])
    if k == "struct":
        return [v for _, v in t[2]] + list(t[3:])
    if k in ("tuple", "array"):
        return list(t[1])
    if k == "callv":
        return [t[1]] + list(t[2])
    if k == "closure":
        return list(t[2])
    if k == "copy":
        return [t[1]]
    return [x for x in t[1:] if isinstance(x, tuple) and x and isinstance(x[0], str)]


def subterms(t):
    yield t
    for c in children_of(t):
        yield from subterms(c)


def summarize(paths):
    out = []
    for p in paths:
        out.append({"when": [show_atom(a) for a in p.atoms], "effects": ["%s(%s)" % (short_fn(e.callee), ", ".join(show(a) for a in e.args)) for e in p.effects],
                    "done": p.done, "result": show(p.result), "loops": p.loops})
    return out


def select(paths, assignment):
    """paths whose variant tests are satisfied when the terms in `assignment` have the given constructors;
    returns (paths, undecided) -- undecided lists atoms over other terms / of other kinds met on the selected paths"""
    out, undecided = [], []
    for p in paths:
        ok = True
        und = []
        for a in p.atoms:
            if a[0] in ("is", "isnot") and a[1] in assignment:
                holds = assignment[a[1]] == a[2]
                if holds != (a[0] == "is"):
                    ok = False
                    break
            else:
                und.append(a)
        if ok:
            out.append(p)
            undecided.extend(und)
    return out, undecided
