"""C09 — CTAP1/U2F responses are encoded in the U2F raw message layout.

Decides (O, W, E, B) on every path of ctap1::Response::serialize and register::Response::new:
  * append order per variant against the U2F layout (spec/layouts.json); counter through
    u32::to_be_bytes; the key-handle length is the length of the *same* key handle that follows;
  * the caller's buffer is only appended to (push / extend_from_slice): existing contents stay;
  * every append's Result is propagated (`?` or the function result): a buffer that is too small
    yields Err, never a panic; no append is conditional, so the appended length is the sum of parts;
  * B-cast: `key_handle.len() as u8` is lossless because the static capacity of key_handle is <= 255;
  * B-cap: register::Response::new pushes 0x04, x, y in that order into a fresh Bytes<65>, and
    1 + cap(x) + cap(y) <= 65, so its three unwraps cannot fail.
"""
import json
import os
import re

from . import hirq as H
from . import wire as W
from .appendchain import Chain
from . import oblig_rules as OR
from .c07 import chain_common
from .engine import VERIF

LEVEL = "other"
SER = "ctap1::Response::serialize"
NEW = "ctap1::register::Response::new"


def norm(d):
    return re.sub(r"#\d+", "", d)


def run(ctx):
    spec = json.load(open(os.path.join(VERIF, "spec", "layouts.json")))["u2f"]
    ctx.explanation = ("Ordered-append analysis of ctap1::Response::serialize per response variant (all paths enumerated from typed HIR), who-may-call on the caller's buffer, "
                       "Result propagation of every append, and two obligation discharges from static capacities: the u8 length cast and the three unwraps of register::Response::new.")
    ctx.rule = "obligation = (variant, position) | (append site, clause) | capacity inequality, per configuration"
    ctx.trusted = ["heapless 0.7.17 Vec::push / extend_from_slice: all-or-nothing, overflow is Err", "core u32::to_be_bytes", "cosey 0.3.2 field capacities (read from its ADT)"]
    for cfg, F in ctx.facts.items():
        n_sites = 0
        fn = F.fn(SER)
        if ctx.oblige("C09|ser|anchor", fn is not None, "anchor missing: ctap1::Response::serialize", cfg=cfg):
            bid = [i for p in fn["params"] for n, i in H.pat_bindings(p) if n != "self"]
            c = Chain(fn, bid[0])
            n_sites = chain_common(ctx, cfg, c, "C09|ser", "ctap1::Response::serialize")
            sp = c.success_paths()
            by_variant = {}
            for p in sp:
                v = None
                binds = []
                for cd in p.conds:
                    if cd.kind == "match" and H.local_name(cd.scrut) == "self":
                        v = (H.pat_ctor(cd.pat) or "?").split("::")[-1]
                        binds = H.pat_bindings(cd.pat)
                by_variant.setdefault(v, []).append((p, binds))
            for v, layout in ((k, spec[k]) for k in ("Register", "Authenticate", "Version")):
                key = "C09|layout|" + v
                ps = by_variant.get(v, [])
                if not ctx.oblige(key + "|one-path", len(ps) == 1, "%s response has %d success paths (conditional appends?)" % (v, len(ps)), cfg=cfg, where=fn["sp"]):
                    continue
                p, binds = ps[0]
                b = binds[0][0] if binds else "?"
                want = []
                for row in layout:
                    if "field" in row:
                        want.append("%s:local:%s.%s" % (row["append"], b, row["field"]))
                    elif "len_of" in row:
                        want.append("%s:(core::slice::<impl [T]>::len(local:%s.%s) as %s)" % (row["append"], b, row["len_of"], row["as"]))
                    elif "be_bytes_of" in row:
                        want.append("%s:core::num::<impl %s>::to_be_bytes(local:%s.%s)" % (row["append"], row["width"], b, row["be_bytes_of"]))
                    elif row.get("payload"):
                        want.append("%s:local:%s" % (row["append"], b))
                got = ["%s:%s" % (c.method(e) or "call", norm(c.data_desc(e))) for e in p.effects]
                ctx.oblige(key, got == want, "%s response is laid out as %s, the U2F raw format is %s" % (v, got, want), cfg=cfg, where=fn["sp"])
                ctx.sample({"cfg": cfg, "variant": v, "appends": got}, limit=9)
            # B-cast
            casts = [x for x in H.walk(fn["body"]) if x.get("k") == "cast"]
            for x in casts:
                inner = H.strip_block(x["e"])
                cap = None
                if inner.get("k") == "mcall" and inner.get("method") == "len":
                    cap = W.capacity(inner["recv"].get("ty", "")).get("cap")
                lim = {"u8": 255, "u16": 65535}.get(x.get("ty"))
                ctx.oblige("C09|cast|" + norm(c.A.desc(x))[:80], cap is not None and lim is not None and cap <= lim,
                           "narrowing cast %s: static capacity %s does not fit %s — the length byte would wrap" % (norm(c.A.desc(x)), cap, x.get("ty")), cfg=cfg, where=H.line(x))
            ctx.extra.setdefault("length_casts", {})[cfg] = len(casts)
        # field types
        for path, field, want in (("ctap1::register::Response", "public_key", "heapless_bytes::Bytes<65>"), ("ctap1::register::Response", "header_byte", "u8"),
                                  ("ctap1::authenticate::Response", "count", "u32"), ("ctap1::authenticate::Response", "user_presence", "u8")):
            ft = W.field_types(F, path) or {}
            ctx.oblige("C09|type|%s|%s" % (path, field), ft.get(field) == want, "%s.%s is %s, expected %s" % (path, field, ft.get(field), want), cfg=cfg)
        ft = W.field_types(F, "ctap1::register::Response") or {}
        kh = W.capacity(ft.get("key_handle", ""))
        ctx.oblige("C09|type|key_handle", kh.get("kind") == "bytes" and kh.get("cap") is not None and kh["cap"] <= spec["key_handle_capacity_max"],
                   "key_handle is %s: its length does not fit the one-byte length prefix" % ft.get("key_handle"), cfg=cfg)
        ver = next((v for v in (F.adt("ctap1::Response") or {"variants": []})["variants"] if v["name"] == "Version"), None)
        ctx.oblige("C09|type|version", ver is not None and [f["ty"]["s"] for f in ver["fields"]] == ["[u8; 6]"], "Response::Version does not carry the six version bytes", cfg=cfg)
        # register::Response::new  (B-cap)
        fn = F.fn(NEW)
        if ctx.oblige("C09|new|anchor", fn is not None, "anchor missing: register::Response::new", cfg=cfg):
            lets = [s for s in fn["body"].get("stmts", []) if s["k"] == "let" and s["pat"].get("k") == "bind" and s["pat"]["ty"].startswith("heapless_bytes::Bytes<")]
            fresh = [s for s in lets if (H.strip_block(s.get("init") or {}).get("callee") or "").endswith("::new")]
            if ctx.oblige("C09|new|fresh", len(fresh) == 1, "the public key is not assembled in a fresh buffer", cfg=cfg, where=fn["sp"]):
                out = fresh[0]
                cap = W.capacity(out["pat"]["ty"])["cap"]
                c = Chain(fn, out["pat"]["id"])
                ctx.oblige("C09|new|one-path", len(c.paths) == 1 and not c.paths[0].loops, "register::Response::new has %d paths" % len(c.paths), cfg=cfg)
                eff = list(c.paths[0].effects) if c.paths else []
                got = ["%s:%s" % (c.method(e) or "call", norm(c.data_desc(e))) for e in eff]
                want = ["push:%d" % spec["public_key"]["prefix"]] + ["extend_from_slice:param:public_key.%s" % p for p in spec["public_key"]["parts"]]
                ctx.oblige("C09|new|layout", got == want, "the public key is assembled as %s, expected %s" % (got, want), cfg=cfg, where=fn["sp"])
                total = 0
                known = True
                for e in eff:
                    if c.method(e) == "push":
                        total += 1
                    elif c.method(e) == "extend_from_slice":
                        a = H.strip(e["args"][0])
                        k = W.capacity(a.get("ty", "")).get("cap")
                        if k is None:
                            known = False
                        else:
                            total += k
                    else:
                        known = False
                ctx.oblige("C09|new|capacity", known and total <= cap == spec["public_key"]["capacity"],
                           "the unwraps in register::Response::new can fail: up to %s bytes are appended to a buffer of capacity %s" % (total if known else "an unbounded number of", cap), cfg=cfg, where=fn["sp"])
                # each append's Result is unwrapped (allowed here because of the capacity inequality) — nothing is dropped silently
                for e in eff:
                    par = c.pm.get(id(e))
                    ctx.oblige("C09|new|unwrap|" + norm(c.data_desc(e)), par is not None and par.get("callee") == "core::result::Result::<T, E>::unwrap",
                               "an append in register::Response::new is neither checked nor unwrapped", cfg=cfg, where=H.line(e), nontrivial=False)
                # struct literal: every field from the same-named parameter / the assembled key
                tail = H.strip_block(fn["body"].get("expr", {}))
                good = tail.get("k") == "struct"
                if good:
                    for f in tail["fields"]:
                        ln, lid = H.local_name(f["e"]), H.local_id(f["e"])
                        if f["name"] == "public_key":
                            good = good and lid == out["pat"]["id"]
                        else:
                            good = good and ln == f["name"] and lid in c.A.param_ids
                ctx.oblige("C09|new|fields", good, "register::Response::new does not store each argument in its own field", cfg=cfg, where=fn["sp"])
        ctx.floor("append sites in Response::serialize", n_sites, 3, cfg=cfg)
        # "never panics": obligations in the /repo instances reachable from ctap1::Response::serialize
        OR.check_root(ctx, F, cfg, "C09", "ctap1::Response::serialize@usize:1024", what="while encoding a U2F response")
