"""C09 — CTAP1/U2F responses are encoded in the U2F raw message layout.

Decides (O, W, E, B) on every path of ctap1::Response::serialize and register::Response::new:
  * append order per variant against the U2F layout (spec/layouts.json); counter through
    u32::to_be_bytes; the key-handle length is the length of the *same* key handle that follows;
  * the caller's buffer is only appended to (push / extend_from_slice): existing contents stay;
  * every append's Result is propagated (`?` or the function result): a buffer that is too small
    yields Err, never a panic; no append is conditional, so the appended length is the sum of parts;
  * B-cast: `key_handle.len() as u8` is lossless because the static capacity of key_handle is <= 255;
  * B-cap: register::Response::new pushes 0x04, x, y in that order into a fresh Bytes<65>, and
    1 + cap(x) + cap(y) <= 65, so its three unwraps cannot fail.
"""
import json
import os
import re

from . import hirq as H
from . import wire as W
from .chain2 import Chain2, method_of, term_type, norm as cnorm
from .pathcond import Analysis
from . import sym as S
from . import oblig_rules as OR
from .engine import VERIF

LEVEL = "other"
SER = "ctap1::Response::serialize"
NEW = "ctap1::register::Response::new"


def norm(d):
    return re.sub(r"#\d+", "", d)


LEN_TRY_FROM = {"u8": "core::convert::num::ptr_try_from_impls::<impl core::convert::TryFrom<usize> for u8>::try_from"}


def row_matches(seg, row, P):
    """does a segment of the success path realise one row of the U2F layout for payload term P?"""
    if "field" in row:
        want = ("field", P, row["field"])
        return seg.kind == ("byte" if row["append"] == "push" else "chunk") and seg.term == want
    if "len_of" in row:
        t = seg.term if seg.kind == "byte" else None
        if not t:
            return False
        if t[0] == "cast" and t[2] == row["as"]:
            c = t[1]        # `len as u8`: lossless by clause B-cast (static capacity <= 255)
        elif t[0] == "proj" and t[2] == S.OK and t[1][0] == "call" and t[1][1] == LEN_TRY_FROM.get(row["as"]) and len(t[1][2]) == 1:
            c = t[1][2][0]  # `u8::try_from(len)`'s Ok value: the checked spelling of the same byte
        else:
            return False
        return c[0] == "call" and method_of(c[1]) == "len" and len(c[2]) == 1 and cnorm(c[2][0]) == ("field", P, row["len_of"])
    if "be_bytes_of" in row:
        return seg.kind == "be" and seg.n == {"u16": 2, "u32": 4, "u64": 8}[row["width"]] and seg.term == ("field", P, row["be_bytes_of"]) and seg.guard is None
    if row.get("payload"):
        return seg.kind == "chunk" and seg.term == P
    return False


def run(ctx):
    spec = json.load(open(os.path.join(VERIF, "spec", "layouts.json")))["u2f"]
    ctx.explanation = ("Ordered-append analysis of ctap1::Response::serialize per response variant: path summaries from typed HIR with /repo helpers expanded at their call sites "
                       "(sym.Sym), every append normalised to byte / big-endian / chunk segments, every append's fate read from the path (known Ok, known Err, returned); "
                       "who-may-call on the caller's buffer, and two obligation discharges from static capacities: the u8 length cast and the unwraps of register::Response::new.")
    ctx.rule = "obligation = (variant, position) | (path, append, clause) | capacity inequality, per configuration"
    ctx.trusted = ["heapless 0.7.17 Vec::push / extend_from_slice: all-or-nothing, overflow is Err", "core u32::to_be_bytes", "cosey 0.3.2 field capacities (read from its ADT)"]
    for cfg, F in ctx.facts.items():
        n_sites = 0
        fn = F.fn(SER)
        if ctx.oblige("C09|ser|anchor", fn is not None, "anchor missing: ctap1::Response::serialize", cfg=cfg):
            bname = [n for p in fn["params"] for n, i in H.pat_bindings(p) if n != "self"]
            c = Chain2(F, fn, buf=("param", bname[0]))
            n_sites = c.check_common(ctx, cfg, "C09|ser", "ctap1::Response::serialize", conversions=tuple(LEN_TRY_FROM.values()))
            by_variant = {}
            for p in c.success_paths():
                v = c.sym.lookup(p, ("param", "self"))
                by_variant.setdefault((v or "?").split("::")[-1], []).append(p)
            for v, layout in ((k, spec[k]) for k in ("Register", "Authenticate", "Version")):
                key = "C09|layout|" + v
                ps = by_variant.get(v, [])
                if not ctx.oblige(key + "|one-path", len(ps) == 1, "%s response has %d success paths (conditional appends?)" % (v, len(ps)), cfg=cfg, where=fn["sp"]):
                    continue
                P = ("proj", ("param", "self"), "ctap1::Response::" + v, 0)
                segs = c.segments(ps[0])
                good = len(segs) == len(layout) and all(row_matches(s, r, P) for s, r in zip(segs, layout))
                got = [s.show() for s in segs]
                ctx.oblige(key, good, "%s response is laid out as %s, the U2F raw format is %s" % (v, got, [r["what"] for r in layout]), cfg=cfg, where=fn["sp"])
                ctx.sample({"cfg": cfg, "variant": v, "appends": got}, limit=9)
            # B-cast: every narrowing cast in the serializer and the helpers expanded into it
            bodies = [fn] + [F.fn(q) for q in sorted(c.sym.inlined) if F.fn(q) is not None]
            ncast = 0
            for g in bodies:
                A = Analysis(g)
                for x in H.walk(g["body"]):
                    if x.get("k") != "cast":
                        continue
                    ncast += 1
                    inner = H.strip_block(x["e"])
                    cap = None
                    if inner.get("k") == "mcall" and inner.get("method") == "len":
                        cap = W.capacity(inner["recv"].get("ty", "")).get("cap")
                    lim = {"u8": 255, "u16": 65535}.get(x.get("ty"))
                    ctx.oblige("C09|cast|" + norm(A.desc(x))[:80], cap is not None and lim is not None and cap <= lim,
                               "narrowing cast %s: static capacity %s does not fit %s — the length byte would wrap" % (norm(A.desc(x)), cap, x.get("ty")), cfg=cfg, where=H.line(x))
            ctx.extra.setdefault("length_casts", {})[cfg] = ncast
            ctx.extra.setdefault("helpers_expanded", {})[cfg] = sorted(c.sym.inlined)
        # field types
        for path, field, want in (("ctap1::register::Response", "public_key", "heapless_bytes::Bytes<65>"), ("ctap1::register::Response", "header_byte", "u8"),
                                  ("ctap1::authenticate::Response", "count", "u32"), ("ctap1::authenticate::Response", "user_presence", "u8")):
            ft = W.field_types(F, path) or {}
            ctx.oblige("C09|type|%s|%s" % (path, field), ft.get(field) == want, "%s.%s is %s, expected %s" % (path, field, ft.get(field), want), cfg=cfg)
        ft = W.field_types(F, "ctap1::register::Response") or {}
        kh = W.capacity(ft.get("key_handle", ""))
        ctx.oblige("C09|type|key_handle", kh.get("kind") == "bytes" and kh.get("cap") is not None and kh["cap"] <= spec["key_handle_capacity_max"],
                   "key_handle is %s: its length does not fit the one-byte length prefix" % ft.get("key_handle"), cfg=cfg)
        ver = next((v for v in (F.adt("ctap1::Response") or {"variants": []})["variants"] if v["name"] == "Version"), None)
        ctx.oblige("C09|type|version", ver is not None and [f["ty"]["s"] for f in ver["fields"]] == ["[u8; 6]"], "Response::Version does not carry the six version bytes", cfg=cfg)
        # register::Response::new  (B-cap)
        fn = F.fn(NEW)
        if ctx.oblige("C09|new|anchor", fn is not None, "anchor missing: register::Response::new", cfg=cfg):
            c = Chain2(F, fn, buf=None)
            bufs = c.buffers()
            if ctx.oblige("C09|new|fresh", len(bufs) == 1 and not c.error, "the public key is not assembled in one fresh buffer (%d found)" % len(bufs), cfg=cfg, where=fn["sp"]):
                buf = next(iter(bufs))
                c.check_common(ctx, cfg, "C09|new", "register::Response::new", allow_unwrap=True)
                sp = c.success_paths()
                if ctx.oblige("C09|new|one-path", len(sp) == 1 and not sp[0].loops, "register::Response::new has %d success paths" % len(sp), cfg=cfg):
                    p = sp[0]
                    segs = c.segments(p)
                    pk = ("param", "public_key")
                    want = [("byte", ("lit", spec["public_key"]["prefix"]))] + [("chunk", ("field", pk, part)) for part in spec["public_key"]["parts"]]
                    got = [(s.kind, s.term) for s in segs]
                    ctx.oblige("C09|new|layout", got == want, "the public key is assembled as %s, expected 0x%02x || %s" % ([s.show() for s in segs], spec["public_key"]["prefix"], " || ".join(spec["public_key"]["parts"])), cfg=cfg, where=fn["sp"])
                    total, known = 0, True
                    for s in segs:
                        if s.kind == "byte":
                            total += 1
                        elif s.kind == "chunk":
                            k = W.capacity(term_type(F, fn, s.term) or "").get("cap")
                            if k is None:
                                known = False
                            else:
                                total += k
                        else:
                            known = False
                    # capacity of the fresh buffer: the declared type of the struct field it ends up in
                    cap = W.capacity((W.field_types(F, "ctap1::register::Response") or {}).get("public_key", "")).get("cap")
                    ctx.oblige("C09|new|capacity", known and cap is not None and total <= cap == spec["public_key"]["capacity"],
                               "the unwraps in register::Response::new can fail: up to %s bytes are appended to a buffer of capacity %s" % (total if known else "an unbounded number of", cap), cfg=cfg, where=fn["sp"])
                    # every append is checked by its unwrap (discharged by the inequality above): none is silently dropped
                    for e in p.effects:
                        if c.aux(e):
                            continue
                        ctx.oblige("C09|new|unwrap|" + S.show(e.args[1] if len(e.args) > 1 else e.args[0])[:60], c.fate(p, e) == "ok",
                                   "an append in register::Response::new is neither checked nor unwrapped", cfg=cfg, where=H.line(e.node), nontrivial=False)
                    # struct literal: every field from the same-named parameter / the assembled key
                    r = p.result
                    good = r is not None and r[0] == "struct" and r[1] == "ctap1::register::Response"
                    if good:
                        for name, v in r[2]:
                            good = good and (v == buf if name == "public_key" else v == ("param", name))
                    ctx.oblige("C09|new|fields", good, "register::Response::new does not store each argument in its own field (result %s)" % S.show(r)[:200], cfg=cfg, where=fn["sp"])
        ctx.floor("append sites in Response::serialize", n_sites, 3, cfg=cfg)
        # "never panics": obligations in the /repo instances reachable from ctap1::Response::serialize
        OR.check_root(ctx, F, cfg, "C09", "ctap1::Response::serialize@usize:1024", what="while encoding a U2F response")
