"""C10 — each request reaches exactly the authenticator method for its command.

Decides (T, P, W) from the typed HIR of the two dispatchers, parametrically in the
authenticator (handlers are opaque trait-method calls):
  per request variant: exactly one trait-method call, on `self`, the oracle's method, with exactly
  the arm's bindings as arguments, outside any loop; result wrapped in the oracle's response
  variant; errors leave through `?` unchanged (only `inspect_err` with a logging-only closure may
  sit in between); every other call in the arm is a logging no-op; GetInfo / Version cannot fail;
  the default large_blobs handler is Err(InvalidCommand) with no effect; default version() is
  b"U2F_V2"; both blanket Rpc::call impls are a single delegation with unchanged arguments.
"""
import json
import os

from . import hirq as H
from .engine import VERIF
from .pathcond import Analysis, OK, ERR

LEVEL = "proof"

LOG_MACROS = {"debug_now", "debug", "info_now", "info", "warn_now", "warn", "error_now", "error", "trace_now", "trace",
              "try_debug", "try_info", "try_warn", "try_error", "log", "local_debug", "local_info", "local_warn", "local_error"}
LOG_SHAPE_CALLEES = {"core::result::Result::<T, E>::ok"}
INSPECT = "core::result::Result::<T, E>::inspect_err"


def is_log_node(n):
    pv = n.get("pv", "user")
    if pv == "user":
        return False
    names = [p.split(":", 1)[1] for p in pv.split(">") if p.startswith("bang:")]
    return any(x in LOG_MACROS for x in names)


def log_only(n):
    """every effectful construct under n is the logging no-op `Result::<(),()>::Ok(()).ok()`"""
    for x in H.walk(n):
        k = x.get("k")
        if k in ("call", "mcall"):
            if k == "call" and "ctor" in x:
                continue
            if not (is_log_node(x) and x.get("callee") in LOG_SHAPE_CALLEES):
                return False
        elif k in ("assign", "assignop", "ret", "break", "continue", "loop", "try", "index", "asm"):
            return False
    return True


def handler_calls(n, trait):
    return [x for x in H.walk(n) if x.get("k") in ("call", "mcall") and (x.get("callee") or "").startswith(trait + "::")]


def unwrap_inspect(e):
    """peel `.inspect_err(closure)`; returns (inner, closure_ok)"""
    e = H.strip_block(e)
    ok = True
    while e.get("k") == "mcall" and e.get("callee") == INSPECT:
        clos = H.strip(e["args"][0])
        if clos.get("k") != "closure" or not log_only(clos["body"]):
            ok = False
        e = H.strip_block(e["recv"])
    return e, ok


def check_dispatcher(ctx, F, cfg, proto, spec):
    trait = spec["trait"]
    fn = F.fn(trait + "::" + spec["dispatcher"])
    key0 = "C10|%s|" % proto
    if not ctx.oblige(key0 + "anchor", fn is not None, "anchor missing: %s::%s" % (trait, spec["dispatcher"]), cfg=cfg):
        return 0
    out_ty = fn["output"]
    body = H.strip_block(fn["body"])
    if body.get("k") == "block" and not body.get("stmts"):
        body = H.strip_block(body.get("expr", {}))
    if not ctx.oblige(key0 + "shape", body.get("k") == "match" and H.local_name(body["scrut"]) in [n for p in fn["params"] for n, _ in H.pat_bindings(p)],
                      "%s is no longer a single match on its request argument" % fn["path"], cfg=cfg, where=fn["sp"]):
        return 0
    ctx.oblige(key0 + "no-loop", not any(x.get("k") == "loop" for x in H.walk(fn["body"])), "a loop was introduced in %s: a handler could run more than once" % fn["path"], cfg=cfg, where=fn["sp"])
    req_adt = F.adt(spec["request"])
    variants = [v["name"] for v in req_adt["variants"]]
    covered = {}
    for a in body["arms"]:
        pats = a["pat"]["pats"] if a["pat"].get("k") == "or" else [a["pat"]]
        for p in pats:
            v = H.pat_ctor(p)
            if v is None:
                ctx.oblige(key0 + "catch-all", False, "catch-all arm in %s" % fn["path"], cfg=cfg, where=a["sp"])
                continue
            covered.setdefault(v.split("::")[-1], []).append((a, p))
    A = Analysis(fn)
    n_arms = 0
    for name in variants:
        want = spec["arms"].get(name)
        key = key0 + name
        arms = covered.get(name, [])
        if want is None:
            ctx.note("%s::%s has no row in spec/dispatch.json: not judged" % (spec["request"], name))
            continue
        if not ctx.oblige(key + "|one-arm", len(arms) == 1 and "guard" not in arms[0][0], "%s::%s is handled by %d arms" % (spec["request"], name, len(arms)), cfg=cfg, where=fn["sp"]):
            continue
        arm, pat = arms[0]
        n_arms += 1
        binds = H.pat_bindings(pat)
        where = arm["sp"]
        # exactly one handler call
        hc = handler_calls(arm["body"], trait)
        other_traits = [x for x in H.walk(arm["body"]) if x.get("k") in ("call", "mcall") and ("Authenticator::" in (x.get("callee") or "")) and x not in hc]
        if not ctx.oblige(key + "|one-handler", len(hc) == 1 and not other_traits,
                          "%s arm invokes %d handler(s): %s" % (name, len(hc) + len(other_traits), [x.get("callee") for x in hc + other_traits]), cfg=cfg, where=where):
            continue
        call = hc[0]
        ctx.oblige(key + "|method", call.get("callee") == trait + "::" + want["method"],
                   "%s is dispatched to %s, not %s::%s" % (name, call.get("callee"), trait, want["method"]), cfg=cfg, where=H.line(call))
        args = H.call_args(call)
        if want.get("static"):
            recv_ok, rest = True, args
        else:
            recv_ok = len(args) >= 1 and H.local_name(args[0]) == "self"
            rest = args[1:]
        ctx.oblige(key + "|receiver", recv_ok, "%s handler is not invoked on self" % name, cfg=cfg, where=H.line(call))
        bind_ids = [i for _, i in binds]
        args_ok = len(rest) == want["args"] == len(bind_ids)
        if args_ok and rest:
            a0 = rest[0]
            if want.get("arg_deref"):
                s0 = H.strip_block(a0)
                args_ok = s0.get("k") == "unary" and s0["op"] == "deref" and H.local_id(s0["e"]) == bind_ids[0]
            else:
                s0 = H.strip_block(a0)
                # the binding itself (a reference into the request), not a copy or a re-borrow of something else
                args_ok = s0.get("k") == "path" and H.local_id(s0) == bind_ids[0]
        ctx.oblige(key + "|args", args_ok, "%s handler does not receive exactly the request's parameters" % name, cfg=cfg, where=H.line(call))
        # everything else in the arm is a logging no-op / the allowed plumbing
        bad = []
        for x in H.walk(arm["body"]):
            k = x.get("k")
            if k in ("call", "mcall"):
                if x is call or (k == "call" and "ctor" in x):
                    continue
                if x.get("callee") == INSPECT:
                    continue
                if is_log_node(x) and x.get("callee") in LOG_SHAPE_CALLEES:
                    continue
                bad.append(x.get("callee") or "?")
            elif k in ("assign", "assignop", "loop", "index", "asm", "ret", "break"):
                bad.append(k)
        ctx.oblige(key + "|no-other-effect", not bad, "%s arm has additional effects: %s" % (name, bad), cfg=cfg, where=where)
        # result sites of this arm
        sites = [s for s in A.sites if any(c.kind == "match" and c.pat is arm["pat"] for c in s.conds)]
        tries = [s for s in A.tries if any(c.kind == "match" and c.pat is arm["pat"] for c in s.conds)]
        if not ctx.oblige(key + "|one-result", len(sites) == 1 and sites[0].wrappers == [OK] and sites[0].kind == "tail",
                          "%s arm has %d result sites / is not Ok(..)" % (name, len(sites)), cfg=cfg, where=where):
            continue
        node = H.strip_block(sites[0].node)
        ctx.oblige(key + "|response", H.ctor(node) == spec["response"] + "::" + want["response"],
                   "%s answers with %s, not %s::%s" % (name, H.ctor(node), spec["response"], want["response"]), cfg=cfg, where=H.line(node))
        # error / value plumbing
        if want["fallible"]:
            good = len(tries) == 1
            msg = "%s: handler result must leave through exactly one `?`" % name
            if good:
                inner, clos_ok = unwrap_inspect(tries[0].node)
                if inner is not call:
                    good, msg = False, "%s: the `?` is not applied to the handler's own result" % name
                elif not clos_ok:
                    good, msg = False, "%s: inspect_err closure does more than log" % name
                else:
                    ety = (tries[0].node.get("ty") or "")
                    want_err = out_ty[out_ty.rfind(", ") + 2:-1] if out_ty.startswith("core::result::Result<") else None
                    if not (ety.startswith("core::result::Result<") and want_err and ety.endswith(", " + want_err + ">")):
                        good, msg = False, "%s: handler error type %s is converted on the way out (%s)" % (name, ety, out_ty)
            ctx.oblige(key + "|error-path", good, msg, cfg=cfg, where=where)
            if want["carries"]:
                carried = node.get("k") == "call" and len(node["args"]) == 1 and H.strip_block(node["args"][0]).get("k") == "try" \
                    and good and H.strip_block(node["args"][0])["e"] is tries[0].node
                ctx.oblige(key + "|carries", carried, "%s response does not carry the handler's result" % name, cfg=cfg, where=H.line(node))
            else:
                ctx.oblige(key + "|unit", node.get("k") == "path" and good and tries[0].seq < sites[0].seq,
                           "%s must answer the unit response after its handler succeeded" % name, cfg=cfg, where=H.line(node))
        else:
            ctx.oblige(key + "|infallible", not tries and not any(x.get("k") == "ret" for x in H.walk(arm["body"])),
                       "%s must not fail, but its arm has an error exit" % name, cfg=cfg, where=where)
            carried = node.get("k") == "call" and len(node["args"]) == 1 and H.strip_block(node["args"][0]) is call
            ctx.oblige(key + "|carries", carried, "%s response does not carry the handler's result" % name, cfg=cfg, where=H.line(node))
            tm = F.trait_methods.get(trait + "::" + want["method"])
            ctx.oblige(key + "|signature", tm is not None and not tm["output"].startswith("core::result::Result<"),
                       "%s::%s is declared fallible" % (trait, want["method"]), cfg=cfg)
        ctx.sample({"cfg": cfg, "proto": proto, "request": name, "handler": call.get("callee"), "response": H.ctor(node), "via": [A.desc(t.node)[:120] for t in tries]}, limit=30)
    for name in spec["arms"]:
        ctx.oblige(key0 + name + "|variant", name in variants, "%s::%s no longer exists" % (spec["request"], name), cfg=cfg)
    return n_arms


def run(ctx):
    spec = json.load(open(os.path.join(VERIF, "spec", "dispatch.json")))
    ctx.explanation = ("Per-arm decision table of call_ctap2 / call_ctap1 read from typed HIR with resolved callees: one opaque trait-method call per request variant, "
                       "its receiver and arguments, the response constructor, the `?` plumbing and the absence of any other effect. Because handlers are opaque "
                       "trait calls, the result holds for every Authenticator implementation and every request value. Nothing is executed.")
    ctx.rule = "obligation = (dispatcher arm x clause) per configuration"
    ctx.trusted = ["rustc 1.97 nightly (method resolution, `?` desugaring, match exhaustiveness)", "core::result::Result::inspect_err only observes the error", "delog 0.1 macros expand to a no-op under the analysed log features"]
    ctx.assumptions = ["`?` on Result<T, E> in a function returning Result<_, E> uses the identity From<E> for E"]
    ctx.extra["exhaustive"] = True
    for cfg, F in ctx.facts.items():
        n2 = check_dispatcher(ctx, F, cfg, "ctap2", spec["ctap2"])
        n1 = check_dispatcher(ctx, F, cfg, "ctap1", spec["ctap1"])
        ctx.floor("ctap2 dispatcher arms", n2, 10, cfg=cfg)
        ctx.floor("ctap1 dispatcher arms", n1, 3, cfg=cfg)
        # default large_blobs
        lb = F.fn("ctap2::Authenticator::large_blobs")
        if ctx.oblige("C10|default|large_blobs|anchor", lb is not None, "anchor missing: default Authenticator::large_blobs", cfg=cfg):
            A = Analysis(lb)
            want = spec["ctap2"]["defaults"]["large_blobs"]
            good = len(A.sites) == 1 and A.sites[0].wrappers == [ERR] and H.ctor(H.strip_block(A.sites[0].node)) == want["value"] and not A.tries
            calls = [x for x in H.walk(lb["body"]) if x.get("k") in ("call", "mcall") and "ctor" not in x]
            ctx.oblige("C10|default|large_blobs", good and not calls, "an authenticator without large blobs no longer answers Err(InvalidCommand) without side effect", cfg=cfg, where=lb["sp"])
        # default version()
        ver = F.fn("ctap1::Authenticator::version")
        if ctx.oblige("C10|default|version|anchor", ver is not None, "anchor missing: default Authenticator::version", cfg=cfg):
            b = H.strip_block(ver["body"])
            val = None
            if b.get("k") == "unary" and b["op"] == "deref":
                val = H.lit(b["e"])
            elif b.get("k") == "array":
                val = [H.lit(x) for x in b["elems"]]
            ctx.oblige("C10|default|version", val == list(spec["ctap1"]["defaults"]["version"]["bytes"].encode()),
                       "default U2F version string is %r" % (val,), cfg=cfg, where=ver["sp"])
        # blanket Rpc impls
        n_rpc = 0
        for f in F.fns:
            im = f.get("impl") or {}
            if im.get("trait") == "Rpc" and f["name"] == "call":
                n_rpc += 1
                tr = im.get("trait_ref", "")
                proto = "ctap2" if "ctap2::Request" in tr else "ctap1" if "ctap1::Request" in tr else None
                want = {"ctap2": "ctap2::Authenticator::call_ctap2", "ctap1": "ctap1::Authenticator::call_ctap1"}.get(proto)
                b = H.strip_block(f["body"])
                pn = [n for p in f["params"] for n, _ in H.pat_bindings(p)]
                good = b.get("k") in ("mcall", "call") and b.get("callee") == want
                if good:
                    args = H.call_args(b)
                    good = len(args) == 2 and H.local_name(args[0]) == "self" and H.strip_block(args[1]).get("k") == "path" and H.local_name(args[1]) in pn and H.local_name(args[1]) != "self"
                ctx.oblige("C10|rpc|%s" % proto, good, "the generic Rpc::call entry point for %s is not a plain delegation to %s" % (proto, want), cfg=cfg, where=f["sp"])
        ctx.floor("blanket Rpc impls", n_rpc, 2, cfg=cfg)
