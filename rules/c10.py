"""C10 — each request reaches exactly the authenticator method for its command.

Decides (T, P, W) from the typed HIR of the two dispatchers, parametrically in the
authenticator (handlers are opaque trait-method calls):
  per request variant: exactly one trait-method call, on `self`, the oracle's method, with exactly
  the arm's bindings as arguments, outside any loop; result wrapped in the oracle's response
  variant; errors leave through `?` unchanged (only `inspect_err` with a logging-only closure may
  sit in between); every other call in the arm is a logging no-op; GetInfo / Version cannot fail;
  the default large_blobs handler is Err(InvalidCommand) with no effect; default version() is
  b"U2F_V2"; both blanket Rpc::call impls are a single delegation with unchanged arguments.
"""
import json
import os

from . import hirq as H
from .engine import VERIF
from .pathcond import Analysis, OK, ERR
from . import sym as S

LEVEL = "proof"

LOG_MACROS = {"debug_now", "debug", "info_now", "info", "warn_now", "warn", "error_now", "error", "trace_now", "trace",
              "try_debug", "try_info", "try_warn", "try_error", "log", "local_debug", "local_info", "local_warn", "local_error"}
LOG_SHAPE_CALLEES = {"core::result::Result::<T, E>::ok"}
INSPECT = "core::result::Result::<T, E>::inspect_err"


def is_log_node(n):
    pv = n.get("pv", "user")
    if pv == "user":
        return False
    names = [p.split(":", 1)[1] for p in pv.split(">") if p.startswith("bang:")]
    return any(x in LOG_MACROS for x in names)


def log_only(n):
    """every effectful construct under n is the logging no-op `Result::<(),()>::Ok(()).ok()`"""
    for x in H.walk(n):
        k = x.get("k")
        if k in ("call", "mcall"):
            if k == "call" and "ctor" in x:
                continue
            if not (is_log_node(x) and x.get("callee") in LOG_SHAPE_CALLEES):
                return False
        elif k in ("assign", "assignop", "ret", "break", "continue", "loop", "try", "index", "asm"):
            return False
    return True


def handler_calls(n, trait):
    return [x for x in H.walk(n) if x.get("k") in ("call", "mcall") and (x.get("callee") or "").startswith(trait + "::")]


def unwrap_inspect(e):
    """peel `.inspect_err(closure)`; returns (inner, closure_ok)"""
    e = H.strip_block(e)
    ok = True
    while e.get("k") == "mcall" and e.get("callee") == INSPECT:
        clos = H.strip(e["args"][0])
        if clos.get("k") != "closure" or not log_only(clos["body"]):
            ok = False
        e = H.strip_block(e["recv"])
    return e, ok


PLUMBING = set(S.PRESERVING) | set(S.TESTS) | set(S.IDENTITY_CALLS) | set(S.UNWRAPS)


def check_dispatcher(ctx, F, cfg, proto, spec):
    """per request variant, from the path summaries of the dispatcher (helpers expanded): exactly one handler call on self
    with the request's own parameters, nothing else with an effect, the handler's Ok value wrapped in the oracle's response
    variant and its Err returned unchanged"""
    trait = spec["trait"]
    fn = F.fn(trait + "::" + spec["dispatcher"])
    key0 = "C10|%s|" % proto
    if not ctx.oblige(key0 + "anchor", fn is not None, "anchor missing: %s::%s" % (trait, spec["dispatcher"]), cfg=cfg):
        return 0
    names = [n for p in fn["params"] for n, _ in H.pat_bindings(p)]
    if not ctx.oblige(key0 + "shape", len(names) == 2 and names[0] == "self", "%s no longer takes (&mut self, request)" % fn["path"], cfg=cfg, where=fn["sp"]):
        return 0
    me, req = ("param", "self"), ("param", names[1])
    bad_closures = []

    def is_effect(callee, args, node, st):
        if callee == "<closure>":
            return False
        if callee in PLUMBING:
            # a closure handed to inspect_err & co may only log
            for a in args:
                if a[0] == "closure":
                    cn = sym.closures.get(a[1])
                    if cn is not None and not log_only(cn[0]["body"]):
                        bad_closures.append(node)
                        return True
            return False
        if callee not in ("<assign>", "<indirect>") and is_log_node(node) and callee in LOG_SHAPE_CALLEES:
            return False
        return True

    def inline(path, node):
        f = sym.body_for(path)
        return f is not None and (f.get("pv") or "user") == "user" and not path.startswith(trait + "::")

    sym = S.Sym(F, fn, is_effect=is_effect, inline=inline)
    try:
        paths = sym.run(split_result=True)
    except S.TooManyPaths:
        ctx.violation(key0 + "paths", "%s has too many paths to enumerate" % fn["path"], cfg=cfg)
        return 0
    ctx.oblige(key0 + "no-loop", not any(p.loops for p in paths), "a loop was introduced in %s: a handler could run more than once" % fn["path"], cfg=cfg, where=fn["sp"])
    req_adt = F.adt(spec["request"])
    variants = [v["name"] for v in req_adt["variants"]]
    nfields = {v["name"]: len(v["fields"]) for v in req_adt["variants"]}
    out_ty = fn["output"]
    n_arms = 0
    for name in variants:
        want = spec["arms"].get(name)
        key = key0 + name
        if want is None:
            ctx.note("%s::%s has no row in spec/dispatch.json: not judged" % (spec["request"], name))
            continue
        V = spec["request"] + "::" + name
        sel, und = S.select(paths, {req: V})
        where = fn["sp"]
        if not ctx.oblige(key + "|one-arm", bool(sel), "%s::%s is not handled by %s" % (spec["request"], name, fn["path"]), cfg=cfg, where=where):
            continue
        n_arms += 1
        handlers = {}
        others = []
        for p in sel:
            for e in p.effects:
                if e.kind == "call" and (e.callee or "").startswith(trait + "::"):
                    handlers.setdefault(e.term, e)
                else:
                    others.append(e)
        hs = list(handlers.values())
        per_path_ok = all(len([e for e in p.effects if (e.callee or "").startswith(trait + "::")]) == 1 for p in sel)
        if not ctx.oblige(key + "|one-handler", len(hs) == 1 and per_path_ok and not any(p.done and p.done[0] == "panic" for p in sel),
                          "%s invokes %d distinct handler call(s) (%s) / not exactly one per path" % (name, len(hs), [x.callee for x in hs]), cfg=cfg, where=where):
            continue
        h = hs[0]
        ctx.oblige(key + "|method", h.callee == trait + "::" + want["method"], "%s is dispatched to %s, not %s::%s" % (name, h.callee, trait, want["method"]), cfg=cfg, where=H.line(h.node))
        args = list(h.args)
        if want.get("static"):
            recv_ok, rest = True, args
        else:
            recv_ok = len(args) >= 1 and args[0] == me
            rest = args[1:]
        ctx.oblige(key + "|receiver", recv_ok, "%s handler is not invoked on self" % name, cfg=cfg, where=H.line(h.node))
        binds = [("proj", req, V, i) for i in range(nfields.get(name, 0))]
        ctx.oblige(key + "|args", len(rest) == want["args"] and rest == binds, "%s handler does not receive exactly the request's parameters (receives %s)" % (name, [S.show(a) for a in rest]), cfg=cfg, where=H.line(h.node))
        ctx.oblige(key + "|no-other-effect", not others and not bad_closures, "%s arm has additional effects: %s" % (name, sorted({S.short_fn(e.callee) for e in others} | {"closure that does more than log" for _ in bad_closures})), cfg=cfg, where=where)
        ctx.oblige(key + "|handler-only-decides", all(a[1] in (req, h.term) and a[0] in ("is", "isnot") for a in und), "%s: the outcome depends on more than the handler's result: %s" % (name, [S.show_atom(a) for a in und if a[1] not in (req, h.term)][:2]), cfg=cfg, where=where, nontrivial=False)
        resp = spec["response"] + "::" + want["response"]
        oks = [p for p in sel if p.result is not None and p.result[0] == "ctor" and p.result[1] == S.OK]
        errs = [p for p in sel if p.result is not None and p.result[0] == "ctor" and p.result[1] == S.ERR]
        if not ctx.oblige(key + "|one-result", len(oks) == 1 and len(oks) + len(errs) == len(sel), "%s arm has %d Ok results among %d paths" % (name, len(oks), len(sel)), cfg=cfg, where=where):
            continue
        val = oks[0].result[2][0]
        ctx.oblige(key + "|response", val[0] == "ctor" and val[1] == resp, "%s answers with %s, not %s" % (name, S.show(val)[:80], resp), cfg=cfg, where=where)
        if want["fallible"]:
            good = len(errs) == 1 and sym.lookup(errs[0], h.term) == S.ERR and sym.lookup(oks[0], h.term) == S.OK
            msg = "%s: the handler's failure is not the only way to fail / its success not the only way to succeed" % name
            if good and errs[0].result != ("ctor", S.ERR, (sym.proj(h.term, S.ERR, 0),)):
                good, msg = False, "%s: the handler's error is changed on the way out (returns %s)" % (name, S.show(errs[0].result)[:100])
            want_err = out_ty[out_ty.rfind(", ") + 2:-1] if out_ty.startswith("core::result::Result<") else None
            hty = h.node.get("ty") or ""
            if good and not (hty.startswith("core::result::Result<") and want_err and hty.endswith(", " + want_err + ">")):
                good, msg = False, "%s: handler error type %s is converted on the way out (%s)" % (name, hty, out_ty)
            ctx.oblige(key + "|error-path", good, msg, cfg=cfg, where=where)
            if want["carries"]:
                ctx.oblige(key + "|carries", val[0] == "ctor" and val[2] == (sym.proj(h.term, S.OK, 0),), "%s response does not carry the handler's result (carries %s)" % (name, S.show(val)[:80]), cfg=cfg, where=where)
            else:
                ctx.oblige(key + "|unit", val == ("ctor", resp, ()), "%s must answer the unit response after its handler succeeded" % name, cfg=cfg, where=where)
        else:
            ctx.oblige(key + "|infallible", not errs and len(sel) == 1, "%s must not fail, but it has an error exit" % name, cfg=cfg, where=where)
            ctx.oblige(key + "|carries", val[0] == "ctor" and val[2] == (h.term,), "%s response does not carry the handler's result" % name, cfg=cfg, where=where)
            tm = F.trait_methods.get(trait + "::" + want["method"])
            ctx.oblige(key + "|signature", tm is not None and not tm["output"].startswith("core::result::Result<"),
                       "%s::%s is declared fallible" % (trait, want["method"]), cfg=cfg)
        ctx.sample({"cfg": cfg, "proto": proto, "request": name, "handler": h.callee, "paths": S.summarize(sel)}, limit=30)
    for name in spec["arms"]:
        ctx.oblige(key0 + name + "|variant", name in variants, "%s::%s no longer exists" % (spec["request"], name), cfg=cfg)
    ctx.extra.setdefault("helpers_expanded", {}).setdefault(cfg, {})[proto] = sorted(sym.inlined)
    return n_arms


def run(ctx):
    spec = json.load(open(os.path.join(VERIF, "spec", "dispatch.json")))
    ctx.explanation = ("Per-arm decision table of call_ctap2 / call_ctap1 read from typed HIR with resolved callees: one opaque trait-method call per request variant, "
                       "its receiver and arguments, the response constructor, the `?` plumbing and the absence of any other effect. Because handlers are opaque "
                       "trait calls, the result holds for every Authenticator implementation and every request value. Nothing is executed.")
    ctx.rule = "obligation = (dispatcher arm x clause) per configuration"
    ctx.trusted = ["rustc 1.97 nightly (method resolution, `?` desugaring, match exhaustiveness)", "core::result::Result::inspect_err only observes the error", "delog 0.1 macros expand to a no-op under the analysed log features"]
    ctx.assumptions = ["`?` on Result<T, E> in a function returning Result<_, E> uses the identity From<E> for E"]
    ctx.extra["exhaustive"] = True
    for cfg, F in ctx.facts.items():
        n2 = check_dispatcher(ctx, F, cfg, "ctap2", spec["ctap2"])
        n1 = check_dispatcher(ctx, F, cfg, "ctap1", spec["ctap1"])
        ctx.floor("ctap2 dispatcher arms", n2, 10, cfg=cfg)
        ctx.floor("ctap1 dispatcher arms", n1, 3, cfg=cfg)
        # default large_blobs
        lb = F.fn("ctap2::Authenticator::large_blobs")
        if ctx.oblige("C10|default|large_blobs|anchor", lb is not None, "anchor missing: default Authenticator::large_blobs", cfg=cfg):
            want = spec["ctap2"]["defaults"]["large_blobs"]
            sy = S.Sym(F, lb, is_effect=lambda callee, args, node, st: True)
            ps = sy.run()
            good = len(ps) == 1 and ps[0].result == ("ctor", S.ERR, (("ctor", want["value"], ()),)) and not ps[0].effects and not ps[0].atoms
            ctx.oblige("C10|default|large_blobs", good, "an authenticator without large blobs no longer answers Err(InvalidCommand) without side effect", cfg=cfg, where=lb["sp"])
        # default version()
        ver = F.fn("ctap1::Authenticator::version")
        if ctx.oblige("C10|default|version|anchor", ver is not None, "anchor missing: default Authenticator::version", cfg=cfg):
            ps = S.Sym(F, ver, is_effect=lambda callee, args, node, st: True).run()
            val = None
            if len(ps) == 1 and not ps[0].effects and ps[0].result is not None and ps[0].result[0] == "array" and all(x[0] == "lit" for x in ps[0].result[1]):
                val = [x[1] for x in ps[0].result[1]]
            ctx.oblige("C10|default|version", val == list(spec["ctap1"]["defaults"]["version"]["bytes"].encode()),
                       "default U2F version string is %r" % (val,), cfg=cfg, where=ver["sp"])
        # blanket Rpc impls
        n_rpc = 0
        for f in F.fns:
            im = f.get("impl") or {}
            if im.get("trait") == "Rpc" and f["name"] == "call":
                n_rpc += 1
                tr = im.get("trait_ref", "")
                proto = "ctap2" if "ctap2::Request" in tr else "ctap1" if "ctap1::Request" in tr else None
                want = {"ctap2": "ctap2::Authenticator::call_ctap2", "ctap1": "ctap1::Authenticator::call_ctap1"}.get(proto)
                pn = [n for p in f["params"] for n, _ in H.pat_bindings(p)]
                ps = S.Sym(F, f, is_effect=lambda callee, args, node, st: True, inline=lambda path, node: False).run()
                good = len(ps) == 1 and len(ps[0].effects) == 1 and not ps[0].atoms and len(pn) == 2
                if good:
                    e = ps[0].effects[0]
                    good = e.callee == want and tuple(e.args) == (("param", "self"), ("param", pn[1])) and ps[0].result == e.term
                ctx.oblige("C10|rpc|%s" % proto, good, "the generic Rpc::call entry point for %s is not a plain delegation to %s" % (proto, want), cfg=cfg, where=f["sp"])
        ctx.floor("blanket Rpc impls", n_rpc, 2, cfg=cfg)
