"""C11 — the command-byte table is total, exact and invertible.

Decides (rule kinds T, S, P; finite domain enumerated completely):
  * the pattern table of `TryFrom<u8> for Operation` expanded by pattern semantics to a total
    map 0..=255 -> operation | vendor(code) | reject, compared row by row with spec/commands.json;
  * `From<Operation> for u8` is its inverse on every recognised byte and every variant;
  * VendorOperation can only be built by its checked constructor (private field, constructor sites);
  * the command switch of ctap2::Request::deserialize gives every operation the request the
    oracle assigns, decodes the payload from the tail after the command byte, ignores it for
    parameter-less commands, and reports unsupported / unknown commands as InvalidCommand(op).
"""
import json
import os

from . import hirq as H
from . import tables as T
from .pathcond import Analysis, OK, ERR
from . import dispatch as D
from . import sym as S
from . import valueset as VS
from .engine import VERIF

LEVEL = "proof"

OPER = "operation::Operation"
VEND = "operation::VendorOperation"
TRY = "<operation::Operation as core::convert::TryFrom<u8>>"
INTO = "<u8 as core::convert::From<operation::Operation>>"
VTRY = "<operation::VendorOperation as core::convert::TryFrom<u8>>"
VINTO = "<u8 as core::convert::From<operation::VendorOperation>>"
DESER = "ctap2::Request::<'a>::deserialize"
INVALID = "ctap2::CtapMappingError::InvalidCommand"
PARSING = "ctap2::CtapMappingError::ParsingError"


def scrut_is_param(fn, m):
    lid = H.local_id(m["scrut"])
    ids = [pid for p in fn["params"] for _, pid in H.pat_bindings(p)]
    return lid is not None and lid in ids


def param_name(fn):
    names = [n for p in fn["params"] for n, _ in H.pat_bindings(p)]
    return names[0] if len(names) == 1 else None


def decode_table(F):
    """total map 0..=255 -> ('op', name) | ('vendor', b) | ('reject',) from the path summaries of Operation::try_from
    (VendorOperation::try_from expanded at its call site): each path admits a set of bytes (valueset) and returns one term"""
    fn = F.trait_impl_fn(TRY, "try_from")
    if fn is None:
        raise T.Unreadable("anchor missing: impl TryFrom<u8> for Operation")
    pn = param_name(fn)
    if pn is None:
        raise T.Unreadable("Operation::try_from does not take exactly one argument")
    var = ("param", pn)
    try:
        paths = S.Sym(F, fn).run()
    except S.TooManyPaths:
        raise T.Unreadable("Operation::try_from has too many paths")
    out = {}
    for p in paths:
        if p.done and p.done[0] == "panic":
            raise T.Unreadable("Operation::try_from can panic (%s)" % (p.done,))
        vals, bad = VS.path_set(p.atoms, var, range(256))
        other = [a for a in p.atoms if VS.atom_set(a, var, range(256)) is None]
        if bad or other:
            raise T.Unreadable("Operation::try_from decides on something that is not a comparison of its argument with constants: %s" % [S.show_atom(a) for a in bad + other][:2])
        r = p.result
        if not vals:
            continue
        if r is None or r[0] != "ctor" or r[1] not in (S.OK, S.ERR):
            raise T.Unreadable("Operation::try_from has a result that is neither Ok nor Err: %s" % S.show(r)[:80])
        if r[1] == S.ERR:
            row = lambda b: ("reject",)
        else:
            v = r[2][0]
            if v[0] != "ctor" or not v[1].startswith(OPER + "::"):
                raise T.Unreadable("result is not an Operation variant: %s" % S.show(v)[:80])
            name = v[1].split("::")[-1]
            if v[2]:
                if name != "Vendor" or len(v[2]) != 1:
                    raise T.Unreadable("unexpected data-carrying Operation variant " + name)
                if v[2][0] != ("ctor", VEND, (var,)):
                    raise T.Unreadable("Vendor payload is %s, not VendorOperation(<the matched byte>)" % S.show(v[2][0])[:80])
                row = lambda b: ("vendor", b)
            else:
                row = lambda b, name=name: ("op", name)
        for b in vals:
            if b in out:
                raise T.Unreadable("byte 0x%02x is served by two paths of Operation::try_from" % b)
            out[b] = row(b)
    missing = [b for b in range(256) if b not in out]
    if missing:
        raise T.Unreadable("bytes %s are not covered by any result of Operation::try_from" % missing[:4])
    return out, fn


def encode_table(F):
    """variant -> ('byte', n) | ('vendor_identity',) from the path summaries of From<Operation> for u8"""
    fn = F.trait_impl_fn(INTO, "from")
    if fn is None:
        raise T.Unreadable("anchor missing: impl From<Operation> for u8")
    pn = param_name(fn)
    var = ("param", pn)
    try:
        paths = S.Sym(F, fn).run()
    except S.TooManyPaths:
        raise T.Unreadable("From<Operation> for u8 has too many paths")
    enc = {}
    for v in F.adt(OPER)["variants"]:
        name = v["name"]
        sel, und = S.select(paths, {var: OPER + "::" + name})
        if und:
            raise T.Unreadable("From<Operation> for u8 decides on more than the variant: %s" % [S.show_atom(a) for a in und][:2])
        if len(sel) != 1:
            raise T.Unreadable("cannot read the byte for Operation::%s (%d paths)" % (name, len(sel)))
        r = sel[0].result
        if r is not None and r[0] == "lit" and isinstance(r[1], int) and not isinstance(r[1], bool):
            enc[name] = ("byte", r[1])
        elif r == ("field", ("proj", var, OPER + "::" + name, 0), "0") and name == "Vendor":
            enc[name] = ("vendor_identity",)
        else:
            raise T.Unreadable("cannot read the byte for Operation::%s: %s" % (name, S.show(r)[:80]))
    return enc, fn


def check_dispatch(ctx, F, cfg, spec, P="C11"):
    """the command switch of Request::deserialize as a decision table over the command byte (dispatch.build)"""
    m = D.build(F)
    if m.error:
        ctx.violation(P + "|anchor|Request::deserialize", m.error, cfg=cfg)
        return 0
    fn = m.fn
    where = fn["sp"]
    fixed = spec["fixed"]
    by_code = {v: k for k, v in fixed.items()}
    routes = [r for r in m.routes]
    ok = all(len(r.opbytes) <= 1 for r in routes) and any(r.op is not None for r in routes)
    if not ctx.oblige(P + "|dispatch|split_first", ok, "Request::deserialize no longer takes the command byte from the first byte of `data` (%s)" % sorted({S.show(x) for r in routes for x in r.opbytes})[:3], cfg=cfg, where=where):
        return 0
    for r in routes:
        ctx.oblige(P + "|dispatch|no-panic|" + str(r.p.done)[:50], not r.panics, "Request::deserialize can panic (%s)" % (r.p.done,), cfg=cfg, where=where, nontrivial=False)
    routes = [r for r in routes if not r.panics]
    # every result and every error exit depends on the command byte alone (besides the empty-message test): a guard on the
    # length or content of the bytes that follow would make parameter-less / unsupported / unassigned commands payload-dependent
    for i, r in enumerate(routes):
        bad = [S.show_atom(a) for a in r.foreign + r.unread]
        ctx.oblige(P + "|dispatch|byte-only|%s" % (";".join(bad)[:70] or i), not bad,
                   "a result of Request::deserialize depends on %s, not only on the command byte" % bad[:3], cfg=cfg, where=where, nontrivial=False)
        ctx.oblige(P + "|dispatch|classified|%d" % i, r.outcome in ("ok", "err"), "a path of Request::deserialize returns neither Ok(..) nor Err(..): %s" % S.show(r.p.result)[:100], cfg=cfg, where=where, nontrivial=False)
        if r.op is None:
            ctx.oblige(P + "|dispatch|empty|%d" % i, r.empty is True and r.outcome == "err", "a path that does not look at the command byte is not the rejection of an empty message", cfg=cfg, where=where, nontrivial=False)

    def klass(b):
        if b in by_code:
            return by_code[b]
        if spec["vendor_first"] <= b <= spec["vendor_last"]:
            return "Vendor"
        return "<unassigned>"

    by_class = {}
    for i, r in enumerate(routes):
        if r.op is None:
            continue
        ks = {klass(b) for b in r.bytes}
        if not r.bytes:
            continue    # infeasible combination of byte tests
        if not ctx.oblige(P + "|dispatch|one-command|%d" % i, len(ks) == 1, "one path of Request::deserialize serves the commands %s alike (bytes %s)" % (sorted(ks), D.compress(sorted(r.bytes))[:6]), cfg=cfg, where=where, nontrivial=False):
            for k in ks:
                by_class.setdefault(k, []).append(r)
            continue
        by_class.setdefault(next(iter(ks)), []).append(r)
    variants = [v["name"] for v in F.adt(OPER)["variants"]]
    req_adt = F.adt("ctap2::Request")
    req_fields = {v["name"]: [f["ty"]["s"] for f in v["fields"]] for v in (req_adt or {"variants": []})["variants"]}

    def invalid_command(r):
        return r.outcome == "err" and r.err == ("ctor", INVALID, (r.op,))

    # bytes that are no command at all
    un = by_class.get("<unassigned>", [])
    covered = set().union(*[r.bytes for r in un]) if un else set()
    want_un = {b for b in range(256) if klass(b) == "<unassigned>"}
    ctx.oblige(P + "|dispatch|unknown-byte", bool(un) and all(invalid_command(r) for r in un) and covered == want_un,
               "a byte that is not a recognised command is no longer reported as CtapMappingError::InvalidCommand(op) (%s)" % [D.show_route(r) for r in un if not invalid_command(r)][:2], cfg=cfg, where=where)
    for name in variants:
        want = spec["decode"].get(name)
        key = P + "|dispatch|" + name
        if want is None:
            ctx.note("Operation::%s has no row in spec/commands.json (new variant): its dispatch is not judged" % name)
            continue
        rs = by_class.get(name, [])
        wantb = {b for b in range(256) if klass(b) == name}
        cov = set().union(*[r.bytes for r in rs]) if rs else set()
        if not ctx.oblige(key + "|bytes", cov == wantb and bool(rs), "Operation::%s: the paths of Request::deserialize cover bytes %s, the command table says %s" % (name, D.compress(sorted(cov)), D.compress(sorted(wantb))), cfg=cfg, where=where, nontrivial=False):
            ctx.oblige(key, False, "Operation::%s is not dispatched for exactly its command byte" % name, cfg=cfg, where=where)
            continue
        oks = [r for r in rs if r.outcome == "ok"]
        errs = [r for r in rs if r.outcome == "err"]
        if want.get("unsupported"):
            ctx.oblige(key, not oks and errs and all(invalid_command(r) for r in errs), "unsupported command %s is not reported as InvalidCommand(op): %s" % (name, [D.show_route(r)["result"] for r in rs][:2]), cfg=cfg, where=where)
            continue
        if not oks:
            ctx.oblige(key, False, "Operation::%s does not produce Ok(request)" % name, cfg=cfg, where=where)
            continue
        good, msg = True, ""
        for r in oks:
            v = r.value
            c = v[1] if v and v[0] == "ctor" else None
            if c != "ctap2::Request::" + want["request"]:
                good, msg = False, "Operation::%s produces %s instead of Request::%s" % (name, S.show(v)[:80], want["request"])
                break
            if "payload" in want:
                if not (r.decode is not None and r.decode_known == S.OK and len(v[2]) == 1 and v[2][0] == m.sym.proj(r.decode.term, S.OK, 0)):
                    good, msg = False, "payload-bearing command %s does not carry the value decoded by cbor_deserialize (carries %s)" % (name, S.show(v)[:100])
                    break
                if not (len(r.decode.args) == 1 and D.is_tail(r.decode.args[0])):
                    good, msg = False, "%s payload is decoded from %s, not from the bytes after the command byte" % (name, S.show(r.decode.args[0])[:80] if r.decode.args else "nothing")
                    break
                ft = (req_fields.get(want["request"]) or [""])[0]
                if not ft.startswith(want["payload"]):
                    good, msg = False, "%s payload decodes as %s, expected %s" % (name, ft, want["payload"])
                    break
            elif want.get("carries_vendor_code"):
                if not (len(v[2]) == 1 and v[2][0] == ("ctor", VEND, (r.op,)) and not r.decodes):
                    good, msg = False, "Request::Vendor does not carry the vendor operation that was decoded (carries %s)" % S.show(v)[:80]
                    break
            else:
                if v[2] or r.decodes:
                    good, msg = False, "parameter-less command %s looks at the bytes that follow" % name
                    break
        if good and "payload" in want:
            # the only other exits of this command: the payload decoder failed
            bad = [r for r in errs if not (r.decode is not None and r.decode_known == S.ERR)]
            if bad or not errs or len(oks) != 1:
                good, msg = False, "command %s has %d Ok paths and error exits other than a failed payload decoder: %s" % (name, len(oks), [D.show_route(r)["result"] for r in bad][:2])
        elif good and errs:
            good, msg = False, "command %s without payload can be rejected: %s" % (name, [D.show_route(r)["result"] for r in errs][:2])
        ctx.oblige(key, good, msg, cfg=cfg, where=where)
        ctx.sample({"cfg": cfg, "operation": name, "routes": [D.show_route(r) for r in rs]}, limit=60)
    ctx.extra.setdefault("dispatch_helpers_expanded", {})[cfg] = sorted(m.sym.inlined)
    return len(routes)


def run(ctx):
    if ctx.tier == "thorough":
        from .witness import run_witness
        run_witness(ctx, "C11")
    spec = json.load(open(os.path.join(VERIF, "spec", "commands.json")))
    ctx.explanation = ("Finite-domain table proof. `TryFrom<u8> for Operation` (with `VendorOperation::try_from` expanded at its call site) and `From<Operation> for u8` are summarised by "
                       "path-sensitive value propagation over typed HIR (rules/sym.py); the comparisons on each path are interpreted as a set of bytes (rules/valueset.py: literals, evaluated consts, "
                       "ranges, contains, lookups in literal tables), giving total functions on 0..=255 / on the 14 variants that are compared row by row with spec/commands.json and with each other "
                       "(inverse, injective). The command switch of Request::deserialize is summarised the same way over the command byte (rules/dispatch.py). Nothing is executed.")
    ctx.rule = "one obligation per (byte | variant | dispatch arm | constructor site) per configuration; distinct = distinct (rule,key)"
    ctx.trusted = ["rustc 1.97 nightly type checker / const evaluator / match semantics", "cbor-smol 0.5.1 cbor_deserialize (payload decoding)"]
    ctx.assumptions = ["first-match semantics of `match`", "Operation::Vendor payload validity rests on VendorOperation's private constructor"]
    ctx.extra["exhaustive"] = True
    fixed = spec["fixed"]
    for cfg, F in ctx.facts.items():
        try:
            dec, dfn = decode_table(F)
            enc, efn = encode_table(F)
        except (T.Unreadable, ValueError) as e:
            ctx.violation("C11|unreadable", "UNREADABLE-IMPL: %s" % e, cfg=cfg)
            continue
        by_code = {v: k for k, v in fixed.items()}
        recognised = {}
        for b in range(256):
            got = dec[b]
            if b in by_code:
                want = ("op", by_code[b])
            elif spec["vendor_first"] <= b <= spec["vendor_last"]:
                want = ("vendor", b)
            else:
                want = ("reject",)
            ctx.oblige("C11|decode|0x%02x" % b, got == want,
                       "command byte 0x%02x decodes to %s, specification says %s" % (b, got, want), cfg=cfg, where=dfn["sp"])
            if got != ("reject",):
                recognised[b] = got
        # inverse on recognised bytes
        for b, got in recognised.items():
            if got[0] == "op":
                e = enc.get(got[1])
                back = e[1] if e and e[0] == "byte" else None
            else:
                e = enc.get("Vendor")
                back = b if e == ("vendor_identity",) else None
            ctx.oblige("C11|inverse|0x%02x" % b, back == b,
                       "byte 0x%02x decodes to %s which encodes back to %s" % (b, got, back), cfg=cfg, where=efn["sp"])
        # injectivity of decode
        inv = {}
        for b, got in recognised.items():
            inv.setdefault(got, []).append(b)
        for got, bs in inv.items():
            ctx.oblige("C11|injective|%s" % (got,), len(bs) == 1, "bytes %s share the operation %s" % (bs, got), cfg=cfg)
        # every variant encodes to its code and decodes back
        adt = F.adt(OPER)
        for v in adt["variants"]:
            name = v["name"]
            e = enc.get(name)
            if name == "Vendor":
                ctx.oblige("C11|encode|Vendor", e == ("vendor_identity",), "Operation::Vendor does not encode to the wrapped vendor byte", cfg=cfg)
                continue
            if name not in fixed:
                ctx.note("Operation::%s is not in spec/commands.json (new variant): not judged" % name)
                continue
            ctx.oblige("C11|encode|" + name, e == ("byte", fixed[name]),
                       "Operation::%s encodes to %s, specification says 0x%02x" % (name, e, fixed[name]), cfg=cfg, where=efn["sp"])
            ctx.oblige("C11|roundtrip|" + name, e is not None and e[0] == "byte" and dec.get(e[1]) == ("op", name),
                       "Operation::%s encodes to a byte that does not decode back to it" % name, cfg=cfg)
        for name in fixed:
            ctx.oblige("C11|variant|" + name, any(v["name"] == name for v in adt["variants"]), "Operation::%s is missing" % name, cfg=cfg)
        # vendor constants
        ctx.oblige("C11|const|FIRST", F.const_value(VEND + "::FIRST") == spec["vendor_first"], "VendorOperation::FIRST != 0x40", cfg=cfg)
        ctx.oblige("C11|const|LAST", F.const_value(VEND + "::LAST") == spec["vendor_last"], "VendorOperation::LAST != 0x7f", cfg=cfg)
        # private constructor + constructor sites
        vf = F.struct_fields(VEND)
        ctx.oblige("C11|vendor|private-field", vf is not None and len(vf) == 1 and vf[0]["vis"] != "pub",
                   "VendorOperation's byte is publicly constructible: codes outside 0x40..=0x7f can be forged", cfg=cfg)
        vtry = F.trait_impl_fn(VTRY, "try_from")
        for f in F.fns:
            for n in H.walk(f["body"]):
                c = None
                if n.get("k") == "call" and n.get("ctor") in (VEND, "Self:" + VEND):
                    c = n
                elif n.get("k") == "struct" and n["res"].get("path") == VEND:
                    c = n
                if c is None:
                    continue
                allowed = (vtry is not None and f["id"] == vtry["id"]) or "derive:Arbitrary" in (c.get("pv") or "") or "derive:" in (c.get("pv") or "")
                ctx.oblige("C11|vendor|ctor-site|" + f["path"], allowed,
                           "VendorOperation is constructed outside its checked constructor, in " + f["path"], cfg=cfg, where=H.line(c))
        n = check_dispatch(ctx, F, cfg, spec)
        ctx.floor("dispatch result sites", n, 3, cfg=cfg)
        if ctx.tier == "thorough":
            # second, independent reading of the same table (result sites with dominating literals, rules/tables.site_table):
            # where that older extractor can read the function, it must agree byte for byte with the path-summary table
            try:
                A2, rows2 = T.site_table(dfn, F)
                alt = {}
                for r2 in rows2:
                    for b in r2["vals"]:
                        k2, c2 = T.result_value(H.strip_block(r2["res"]), F) if r2["kind"] == "ok" else (None, None)
                        alt[b] = "reject" if r2["kind"] == "err" else (c2 or "?").split("::")[-1]
                mine = {b: ("reject" if v[0] == "reject" else "Vendor" if v[0] == "vendor" else v[1]) for b, v in dec.items()}
                diff = [b for b in range(256) if b in alt and alt[b] != mine[b]]
                ctx.extra.setdefault("cross_check_site_table", {})[cfg] = {"bytes_compared": len(alt), "disagreements": ["0x%02x" % b for b in diff]}
                ctx.oblige("C11|cross-check|site-table", not diff, "two independent extractions of the byte table disagree on %s" % ["0x%02x: %s vs %s" % (b, alt[b], mine[b]) for b in diff][:4], cfg=cfg, nontrivial=False)
            except (T.Unreadable, Exception) as e:
                ctx.extra.setdefault("cross_check_site_table", {})[cfg] = {"unreadable_by_the_older_extractor": str(e)[:120]}
        ctx.floor("Operation variants", len(adt["variants"]), 14, cfg=cfg)
        ctx.floor("recognised bytes", len(recognised), 75, cfg=cfg)
        if cfg == "k0":
            ctx.sample({"decode_table": {("0x%02x" % b): list(v) for b, v in sorted(recognised.items()) if v[0] == "op"}})
            ctx.sample({"vendor_bytes": ["0x%02x" % b for b, v in sorted(recognised.items()) if v[0] == "vendor"]})
            ctx.sample({"encode_table": {k: list(v) for k, v in enc.items()}})
