"""C11 — the command-byte table is total, exact and invertible.

Decides (rule kinds T, S, P; finite domain enumerated completely):
  * the pattern table of `TryFrom<u8> for Operation` expanded by pattern semantics to a total
    map 0..=255 -> operation | vendor(code) | reject, compared row by row with spec/commands.json;
  * `From<Operation> for u8` is its inverse on every recognised byte and every variant;
  * VendorOperation can only be built by its checked constructor (private field, constructor sites);
  * the command switch of ctap2::Request::deserialize gives every operation the request the
    oracle assigns, decodes the payload from the tail after the command byte, ignores it for
    parameter-less commands, and reports unsupported / unknown commands as InvalidCommand(op).
"""
import json
import os

from . import hirq as H
from . import tables as T
from .pathcond import Analysis, OK, ERR
from .engine import VERIF

LEVEL = "proof"

OPER = "operation::Operation"
VEND = "operation::VendorOperation"
TRY = "<operation::Operation as core::convert::TryFrom<u8>>"
INTO = "<u8 as core::convert::From<operation::Operation>>"
VTRY = "<operation::VendorOperation as core::convert::TryFrom<u8>>"
VINTO = "<u8 as core::convert::From<operation::VendorOperation>>"
DESER = "ctap2::Request::<'a>::deserialize"
INVALID = "ctap2::CtapMappingError::InvalidCommand"
PARSING = "ctap2::CtapMappingError::ParsingError"


def scrut_is_param(fn, m):
    lid = H.local_id(m["scrut"])
    ids = [pid for p in fn["params"] for _, pid in H.pat_bindings(p)]
    return lid is not None and lid in ids


def vendor_decode(F):
    """set of bytes b with VendorOperation::try_from(b) = Ok(VendorOperation(b)) — from the path literals
    of the function (match table, if/else chain, range.contains ... all normalise to value sets)"""
    fn = F.trait_impl_fn(VTRY, "try_from")
    if fn is None:
        raise T.Unreadable("anchor missing: impl TryFrom<u8> for VendorOperation")
    A, rows = T.site_table(fn, F)
    if A.tries:
        raise T.Unreadable("VendorOperation::try_from has `?` exits")
    ok = set()
    for r in rows:
        if r["kind"] != "ok":
            continue
        res = H.strip_block(r["res"])
        if not (res.get("k") == "call" and res.get("ctor") in (VEND, "Self:" + VEND) and len(res["args"]) == 1):
            raise T.Unreadable("VendorOperation::try_from Ok result is not VendorOperation(code)")
        if H.local_id(A.subst(res["args"][0])) not in r["var_ids"]:
            raise T.Unreadable("VendorOperation::try_from wraps something other than the byte it was given")
        ok |= r["vals"]
    return ok


def decode_table(F):
    fn = F.trait_impl_fn(TRY, "try_from")
    if fn is None:
        raise T.Unreadable("anchor missing: impl TryFrom<u8> for Operation")
    A, rows = T.site_table(fn, F)
    vtry = F.trait_impl_fn(VTRY, "try_from")
    vend_ok = None
    out = {}
    for r in rows:
        if not r["vals"]:
            continue
        if r["kind"] == "err":
            for b in r["vals"]:
                out[b] = ("reject",)
            continue
        if r["kind"] != "ok":
            raise T.Unreadable("Operation::try_from has a result that is neither Ok nor Err")
        res = H.strip_block(r["res"])
        kind, c = T.result_value(res, F)
        if kind != "ctor" or not c.startswith(OPER + "::"):
            raise T.Unreadable("result is not an Operation variant")
        name = c.split("::")[-1]
        if res.get("k") == "call":
            if name != "Vendor" or len(res["args"]) != 1:
                raise T.Unreadable("unexpected data-carrying Operation variant " + name)
            a = H.strip_block(A.subst(res["args"][0]))
            if a.get("k") != "try":
                raise T.Unreadable("Vendor payload is not `VendorOperation::try_from(code)?`")
            call = H.strip_block(a["e"])
            target = H.conversion_impl(call) if call.get("k") in ("call", "mcall") else None
            if target != VTRY and call.get("resolved", call.get("callee")) != (vtry["path"] if vtry else None):
                raise T.Unreadable("Vendor payload does not come from VendorOperation::try_from")
            if H.local_id(A.subst(H.call_args(call)[0])) not in r["var_ids"]:
                raise T.Unreadable("Vendor payload is built from something other than the matched byte")
            if vend_ok is None:
                vend_ok = vendor_decode(F)
            for b in r["vals"]:
                out[b] = ("vendor", b) if b in vend_ok else ("reject",)
        else:
            for b in r["vals"]:
                out[b] = ("op", name)
    missing = [b for b in range(256) if b not in out]
    if missing:
        raise T.Unreadable("bytes %s are not covered by any result of Operation::try_from" % missing[:4])
    return out, fn


def encode_table(F):
    fn = F.trait_impl_fn(INTO, "from")
    if fn is None:
        raise T.Unreadable("anchor missing: impl From<Operation> for u8")
    m, rows = T.variant_table(fn, F)
    if not scrut_is_param(fn, m):
        raise T.Unreadable("From<Operation> for u8 does not match on its argument")
    vinto = F.trait_impl_fn(VINTO, "from")
    enc = {}
    for r in rows:
        if r["variant"] is None:
            raise T.Unreadable("catch-all arm in From<Operation> for u8")
        name = r["variant"].split("::")[-1]
        if name in enc:
            continue  # first match wins
        res = H.strip_block(r["res"])
        v = H.lit(res)
        if isinstance(v, int) and not isinstance(v, bool):
            enc[name] = ("byte", v)
            continue
        # Vendor(operation) => operation.into()
        if res.get("k") in ("mcall", "call") and vinto is not None and H.conversion_impl(res) == VINTO:
            args = ([res["recv"]] if res["k"] == "mcall" else []) + res["args"]
            bid = H.local_id(args[0])
            if bid in [i for _, i in r["binds"]]:
                # From<VendorOperation> for u8 must return the wrapped byte
                body = H.strip_block(vinto["body"])
                ch = H.field_chain(body)
                pnames = [n for p in vinto["params"] for n, _ in H.pat_bindings(p)]
                if ch and len(ch) == 2 and ch[0] in pnames and ch[1] == "0":
                    enc[name] = ("vendor_identity",)
                    continue
        raise T.Unreadable("cannot read the byte for Operation::" + name)
    return enc, fn


def check_dispatch(ctx, F, cfg, spec, P="C11"):
    fn = F.fn(DESER)
    if fn is None:
        ctx.violation(P + "|anchor|Request::deserialize", "anchor missing: ctap2::Request::deserialize", cfg=cfg)
        return 0
    A = Analysis(fn)
    # --- the command byte and the tail
    op_id = tail_id = None
    for pid, (pat, init) in A.pat_of.items():
        i = H.strip_block(init)
        if i.get("k") == "try":
            i = H.strip_block(i["e"])
        d = A.desc(i)
        if "split_first(param:data)" in d.replace("core::slice::<impl [T]>::", ""):
            if pat.get("k") == "tuple" and len(pat["pats"]) == 2:
                b0 = H.pat_bindings(pat["pats"][0])
                b1 = H.pat_bindings(pat["pats"][1])
                if len(b0) == 1 and len(b1) == 1:
                    op_id, tail_id = b0[0][1], b1[0][1]
    ok = ctx.oblige(P + "|dispatch|split_first", op_id is not None,
                    "Request::deserialize no longer takes the command byte and the payload tail from `data.split_first()`", cfg=cfg, where=fn["sp"])
    if not ok:
        return 0
    tryfn = F.trait_impl_fn(TRY, "try_from")
    # --- locate the dispatch match: scrutinee = Operation::try_from(op).map_err(..)?
    variants = [v["name"] for v in F.adt(OPER)["variants"]]
    seen = {}
    n_sites = 0
    disp_closure_ok = None
    for s in A.sites:
        mc = None
        for c in s.conds:
            if c.kind == "match":
                sc = A.subst(c.scrut)
                if sc.get("k") == "try":
                    inner = H.strip_block(sc["e"])
                    call = inner
                    clos = None
                    if inner.get("k") == "mcall" and inner.get("callee") == "core::result::Result::<T, E>::map_err":
                        call = H.strip_block(inner["recv"])
                        clos = inner["args"][0]
                    if call.get("k") in ("call", "mcall") and call.get("resolved", call.get("callee")) == tryfn["path"]:
                        args = ([call["recv"]] if call["k"] == "mcall" else []) + call["args"]
                        if H.local_id(args[0]) == op_id:
                            mc = c
                            if clos is not None and disp_closure_ok is None:
                                cb = H.strip_block(H.strip(clos).get("body", {}))
                                tail = cb.get("expr", cb) if cb.get("k") == "block" else cb
                                tail = H.strip_block(tail)
                                disp_closure_ok = (tail.get("k") == "call" and tail.get("ctor") == INVALID and H.local_id(tail["args"][0]) == op_id)
        if mc is None:
            continue
        n_sites += 1
        pats = mc.pat["pats"] if mc.pat.get("k") == "or" else [mc.pat]
        for p in pats:
            v = H.pat_ctor(p)
            if v is None and H.pat_is_catchall(p):
                # catch-all arm covers every variant not matched before
                prior = set()
                for q in mc.prior:
                    for qq in (q["pats"] if q.get("k") == "or" else [q]):
                        pv = H.pat_ctor(qq)
                        if pv:
                            prior.add(pv.split("::")[-1])
                for name in variants:
                    if name not in prior:
                        seen.setdefault(name, []).append((s, p))
            elif v:
                seen.setdefault(v.split("::")[-1], []).append((s, p))
    # every result and every error exit depends on the command byte alone (besides the empty-message guard): a guard on the
    # length or content of the bytes that follow would make parameter-less / unsupported / unassigned commands payload-dependent
    def literal_ok(c):
        if c.kind == "match":
            sc = A.subst(c.scrut)
            if sc.get("k") == "try":
                return True   # the dispatch match (validated per arm below)
            return False
        if c.kind == "expr":
            d = A.desc(c.e)
            return d in ("core::slice::<impl [T]>::is_empty(param:data)",)
        if c.kind == "let":
            return "split_first(param:data)" in A.desc(c.init) if c.init is not None else False
        return False
    for s in list(A.sites) + list(A.tries):
        badc = [A.cond_str(c) for c in s.conds if not literal_ok(c)]
        ctx.oblige(P + "|dispatch|byte-only|%d" % s.seq, not badc,
                   "a result of Request::deserialize depends on %s, not only on the command byte" % badc, cfg=cfg, where=H.line(s.node) if s.node else fn["sp"], nontrivial=False)
    ctx.oblige(P + "|dispatch|unknown-byte", bool(disp_closure_ok),
               "a byte that is not a recognised command is no longer reported as CtapMappingError::InvalidCommand(op)", cfg=cfg, where=fn["sp"])
    for name in variants:
        want = spec["decode"].get(name)
        key = P + "|dispatch|" + name
        sites = seen.get(name, [])
        if want is None:
            ctx.note("Operation::%s has no row in spec/commands.json (new variant): its dispatch is not judged" % name)
            continue
        if len(sites) != 1:
            ctx.oblige(key, False, "Operation::%s is handled by %d result sites of Request::deserialize (expected exactly 1)" % (name, len(sites)), cfg=cfg, where=fn["sp"])
            continue
        s, p = sites[0]
        node = H.strip_block(s.node) if s.node else {}
        where = H.line(node)
        if want.get("unsupported"):
            good = s.wrappers == [ERR]
            if good:
                # Err(CtapMappingError::InvalidCommand(op).into())
                n = node
                if n.get("k") in ("mcall", "call") and n.get("callee") == "core::convert::Into::into":
                    n = H.strip_block(([n["recv"]] if n["k"] == "mcall" else n["args"])[0])
                good = n.get("k") == "call" and n.get("ctor") == INVALID and H.local_id(n["args"][0]) == op_id
            ctx.oblige(key, good, "unsupported command %s is not reported as InvalidCommand(op)" % name, cfg=cfg, where=where)
            continue
        if s.wrappers != [OK]:
            ctx.oblige(key, False, "Operation::%s does not produce Ok(request)" % name, cfg=cfg, where=where)
            continue
        c = H.ctor(node)
        if c != "ctap2::Request::" + want["request"]:
            ctx.oblige(key, False, "Operation::%s produces %s instead of Request::%s" % (name, c, want["request"]), cfg=cfg, where=where)
            continue
        if "payload" in want:
            good = node.get("k") == "call" and len(node["args"]) == 1
            msg = "payload-bearing command %s does not decode its parameters" % name
            if good:
                a = H.strip_block(node["args"][0])
                good = a.get("k") == "try"
                if good:
                    inner = H.strip_block(a["e"])
                    if inner.get("k") == "mcall" and inner.get("callee") == "core::result::Result::<T, E>::map_err":
                        wrapper = H.def_path(inner["args"][0]) or H.ctor(inner["args"][0])
                        if wrapper != PARSING:
                            good, msg = False, "CBOR errors of %s are not wrapped by the bare CtapMappingError::ParsingError constructor" % name
                        inner = H.strip_block(inner["recv"])
                    if good and not (inner.get("k") == "call" and inner.get("callee") == "cbor_smol::de::cbor_deserialize" or inner.get("callee") == "cbor_smol::cbor_deserialize"):
                        good, msg = False, "%s payload is not decoded with cbor_deserialize" % name
                    if good:
                        if H.local_id(inner["args"][0]) != tail_id:
                            good, msg = False, "%s payload is decoded from something other than the bytes after the command byte" % name
                        ty = a.get("ty", "")
                        if good and not ty.startswith(want["payload"]):
                            good, msg = False, "%s payload decodes as %s, expected %s" % (name, ty, want["payload"])
            ctx.oblige(key, good, msg, cfg=cfg, where=where)
        elif want.get("carries_vendor_code"):
            good = node.get("k") == "call" and len(node["args"]) == 1 and H.local_id(node["args"][0]) in [i for _, i in H.pat_bindings(p)]
            ctx.oblige(key, good, "Request::Vendor does not carry the vendor operation that was decoded", cfg=cfg, where=where)
        else:
            # parameter-less: unit variant, payload bytes not looked at
            mentions = [x for x in H.walk(node) if H.local_id(x) == tail_id] if node.get("k") != "path" else []
            ctx.oblige(key, node.get("k") == "path" and not mentions, "parameter-less command %s looks at the bytes that follow" % name, cfg=cfg, where=where)
        ctx.sample({"cfg": cfg, "operation": name, "site": A.site_str(s)}, limit=60)
    return n_sites


def run(ctx):
    if ctx.tier == "thorough":
        from .witness import run_witness
        run_witness(ctx, "C11")
    spec = json.load(open(os.path.join(VERIF, "spec", "commands.json")))
    ctx.explanation = ("Finite-domain table proof. The match patterns of `TryFrom<u8> for Operation`, `TryFrom<u8> for VendorOperation`, "
                       "`From<Operation> for u8` and `From<VendorOperation> for u8` are read from typed HIR (literals, evaluated consts, "
                       "ranges, first-match order) and expanded by pattern semantics into total functions on 0..=255 / on the 14 variants; "
                       "these are compared row by row with spec/commands.json and with each other (inverse, injective). The command switch "
                       "of Request::deserialize is read as path literals per result site. Nothing is executed.")
    ctx.rule = "one obligation per (byte | variant | dispatch arm | constructor site) per configuration; distinct = distinct (rule,key)"
    ctx.trusted = ["rustc 1.97 nightly type checker / const evaluator / match semantics", "cbor-smol 0.5.1 cbor_deserialize (payload decoding)"]
    ctx.assumptions = ["first-match semantics of `match`", "Operation::Vendor payload validity rests on VendorOperation's private constructor"]
    ctx.extra["exhaustive"] = True
    fixed = spec["fixed"]
    for cfg, F in ctx.facts.items():
        try:
            dec, dfn = decode_table(F)
            enc, efn = encode_table(F)
        except (T.Unreadable, ValueError) as e:
            ctx.violation("C11|unreadable", "UNREADABLE-IMPL: %s" % e, cfg=cfg)
            continue
        by_code = {v: k for k, v in fixed.items()}
        recognised = {}
        for b in range(256):
            got = dec[b]
            if b in by_code:
                want = ("op", by_code[b])
            elif spec["vendor_first"] <= b <= spec["vendor_last"]:
                want = ("vendor", b)
            else:
                want = ("reject",)
            ctx.oblige("C11|decode|0x%02x" % b, got == want,
                       "command byte 0x%02x decodes to %s, specification says %s" % (b, got, want), cfg=cfg, where=dfn["sp"])
            if got != ("reject",):
                recognised[b] = got
        # inverse on recognised bytes
        for b, got in recognised.items():
            if got[0] == "op":
                e = enc.get(got[1])
                back = e[1] if e and e[0] == "byte" else None
            else:
                e = enc.get("Vendor")
                back = b if e == ("vendor_identity",) else None
            ctx.oblige("C11|inverse|0x%02x" % b, back == b,
                       "byte 0x%02x decodes to %s which encodes back to %s" % (b, got, back), cfg=cfg, where=efn["sp"])
        # injectivity of decode
        inv = {}
        for b, got in recognised.items():
            inv.setdefault(got, []).append(b)
        for got, bs in inv.items():
            ctx.oblige("C11|injective|%s" % (got,), len(bs) == 1, "bytes %s share the operation %s" % (bs, got), cfg=cfg)
        # every variant encodes to its code and decodes back
        adt = F.adt(OPER)
        for v in adt["variants"]:
            name = v["name"]
            e = enc.get(name)
            if name == "Vendor":
                ctx.oblige("C11|encode|Vendor", e == ("vendor_identity",), "Operation::Vendor does not encode to the wrapped vendor byte", cfg=cfg)
                continue
            if name not in fixed:
                ctx.note("Operation::%s is not in spec/commands.json (new variant): not judged" % name)
                continue
            ctx.oblige("C11|encode|" + name, e == ("byte", fixed[name]),
                       "Operation::%s encodes to %s, specification says 0x%02x" % (name, e, fixed[name]), cfg=cfg, where=efn["sp"])
            ctx.oblige("C11|roundtrip|" + name, e is not None and e[0] == "byte" and dec.get(e[1]) == ("op", name),
                       "Operation::%s encodes to a byte that does not decode back to it" % name, cfg=cfg)
        for name in fixed:
            ctx.oblige("C11|variant|" + name, any(v["name"] == name for v in adt["variants"]), "Operation::%s is missing" % name, cfg=cfg)
        # vendor constants
        ctx.oblige("C11|const|FIRST", F.const_value(VEND + "::FIRST") == spec["vendor_first"], "VendorOperation::FIRST != 0x40", cfg=cfg)
        ctx.oblige("C11|const|LAST", F.const_value(VEND + "::LAST") == spec["vendor_last"], "VendorOperation::LAST != 0x7f", cfg=cfg)
        # private constructor + constructor sites
        vf = F.struct_fields(VEND)
        ctx.oblige("C11|vendor|private-field", vf is not None and len(vf) == 1 and vf[0]["vis"] != "pub",
                   "VendorOperation's byte is publicly constructible: codes outside 0x40..=0x7f can be forged", cfg=cfg)
        vtry = F.trait_impl_fn(VTRY, "try_from")
        for f in F.fns:
            for n in H.walk(f["body"]):
                c = None
                if n.get("k") == "call" and n.get("ctor") in (VEND, "Self:" + VEND):
                    c = n
                elif n.get("k") == "struct" and n["res"].get("path") == VEND:
                    c = n
                if c is None:
                    continue
                allowed = (vtry is not None and f["id"] == vtry["id"]) or "derive:Arbitrary" in (c.get("pv") or "") or "derive:" in (c.get("pv") or "")
                ctx.oblige("C11|vendor|ctor-site|" + f["path"], allowed,
                           "VendorOperation is constructed outside its checked constructor, in " + f["path"], cfg=cfg, where=H.line(c))
        n = check_dispatch(ctx, F, cfg, spec)
        ctx.floor("dispatch result sites", n, 3, cfg=cfg)
        ctx.floor("Operation variants", len(adt["variants"]), 14, cfg=cfg)
        ctx.floor("recognised bytes", len(recognised), 75, cfg=cfg)
        if cfg == "k0":
            ctx.sample({"decode_table": {("0x%02x" % b): list(v) for b, v in sorted(recognised.items()) if v[0] == "op"}})
            ctx.sample({"vendor_bytes": ["0x%02x" % b for b, v in sorted(recognised.items()) if v[0] == "vendor"]})
            ctx.sample({"encode_table": {k: list(v) for k, v in enc.items()}})
