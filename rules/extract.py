"""E1 runner: build /repo's current working tree under the ctapfacts driver for every
feature configuration and cache the fact files by content hash of the tree."""
import fcntl
import hashlib
import json
import os
import shutil
import subprocess
import sys
import time
import uuid
from concurrent.futures import ThreadPoolExecutor

VERIF = os.path.dirname(os.path.dirname(os.path.abspath(__file__)))
REPO = os.environ.get("CTAP_REPO", "/repo")
BUILD = os.path.join(VERIF, ".build")
DRIVER = os.path.join(VERIF, "driver", "target", "debug", "ctapfacts")

WIRE_FEATURES = ["get-info-full", "large-blobs", "third-party-payment"]

def _configs():
    cfgs = {}
    for m in range(8):
        feats = [f for i, f in enumerate(WIRE_FEATURES) if m >> i & 1]
        cfgs["k%d" % m] = feats
    cfgs["k9"] = WIRE_FEATURES + ["arbitrary"]
    cfgs["k8"] = ["arbitrary"]     # the fuzzing feature alone (feature-dependent constants take their default values)
    cfgs["kL"] = ["log-all"]       # logging compiled in: the arguments of the delog macros exist only here (used by the no-panic clauses)
    return cfgs

CONFIGS = _configs()           # k0..k7 = the 8 wire configurations, k9 = all + arbitrary (+std)
WIRE_CONFIGS = ["k%d" % m for m in range(8)]
ALL_CONFIGS = WIRE_CONFIGS + ["k9"]
EXTRACT_CONFIGS = ALL_CONFIGS + ["k8", "kL"]

# generic roots that need an explicit instantiation (see driver/src/mono.rs)
ROOTS = ";".join([
    "*nongeneric",
    "ctap2::Response::serialize@usize:1024",
    "ctap1::Response::serialize@usize:1024",
    "ctap2::AuthenticatorData::<'a, A, E>::serialize@alias:ctap2::make_credential::AuthenticatorData",
    "ctap2::AuthenticatorData::<'a, A, E>::serialize@alias:ctap2::get_assertion::AuthenticatorData",
])


def cfg_label(cfg):
    f = CONFIGS[cfg]
    return cfg + "[" + (",".join(f) if f else "default") + "]"


def tree_hash():
    """sha256 over every file of the working tree that can influence the library build."""
    h = hashlib.sha256()
    files = []
    for root, dirs, names in os.walk(REPO):
        dirs[:] = sorted(d for d in dirs if d not in (".git", "target"))
        for n in sorted(names):
            files.append(os.path.join(root, n))
    for p in files:
        rel = os.path.relpath(p, REPO)
        if rel.startswith("fuzz" + os.sep) and not rel.endswith(".rs") and not rel.endswith(".toml"):
            continue
        try:
            with open(p, "rb") as f:
                data = f.read()
        except OSError:
            continue
        h.update(rel.encode() + b"\0" + str(len(data)).encode() + b"\0")
        h.update(data)
    for p in (DRIVER, __file__):
        with open(p, "rb") as f:
            h.update(hashlib.sha256(f.read()).digest())
    h.update(ROOTS.encode())
    return h.hexdigest()[:24]


def sysroot_lib():
    out = subprocess.run(["rustc", "+nightly", "--print", "sysroot"], capture_output=True, text=True, check=True)
    return os.path.join(out.stdout.strip(), "lib")


def _run_one(cfg, outdir, nonce, libdir, log):
    target = os.path.join(BUILD, "target", cfg)
    os.makedirs(target, exist_ok=True)
    # cargo's freshness cache would silently skip the wrapper: forget the workspace member
    fp = os.path.join(target, "debug", ".fingerprint")
    if os.path.isdir(fp):
        for d in os.listdir(fp):
            if d.startswith("ctap-types-"):
                shutil.rmtree(os.path.join(fp, d), ignore_errors=True)
    out = os.path.join(outdir, cfg + ".json")
    env = dict(os.environ)
    env.update({
        "LD_LIBRARY_PATH": libdir + (":" + env["LD_LIBRARY_PATH"] if env.get("LD_LIBRARY_PATH") else ""),
        "RUSTFLAGS": "-Zmir-opt-level=0 -Zalways-encode-mir -Awarnings",
        "RUSTC_WORKSPACE_WRAPPER": DRIVER,
        "CARGO_TARGET_DIR": target,
        "CARGO_NET_OFFLINE": "true",
        "CTAPFACTS_OUT": out,
        "CTAPFACTS_NONCE": nonce,
        "CTAPFACTS_ROOTS": ROOTS,
        "CARGO_INCREMENTAL": "0",
    })
    env.pop("RUSTC_WRAPPER", None)
    cmd = ["cargo", "+nightly", "check", "--offline", "--lib", "--manifest-path", os.path.join(REPO, "Cargo.toml")]
    feats = CONFIGS[cfg]
    if feats:
        cmd += ["--features", ",".join(feats)]
    t0 = time.time()
    p = subprocess.run(cmd, env=env, capture_output=True, text=True)
    dt = time.time() - t0
    with open(os.path.join(log, cfg + ".log"), "w") as f:
        f.write("$ " + " ".join(cmd) + "\n" + p.stdout + p.stderr)
    ok = p.returncode == 0 and os.path.exists(out)
    return cfg, ok, dt, p.stderr[-4000:]


def ensure_facts(configs=ALL_CONFIGS, verbose=False, force=False):
    """Returns (dir, meta). dir contains <cfg>.json for each configuration.  Raises
    RuntimeError (infrastructure failure) if the driver cannot be run; a configuration
    that does not *compile* is reported in meta['failed'] (the rules turn that into a
    violation: the tree does not build in a configuration the property quantifies over)."""
    if not os.path.exists(DRIVER):
        raise RuntimeError("driver not built: run bin/setup")
    os.makedirs(BUILD, exist_ok=True)
    key = tree_hash()
    outdir = os.path.join(BUILD, "facts", key)
    lockf = open(os.path.join(BUILD, "extract.lock"), "w")
    fcntl.flock(lockf, fcntl.LOCK_EX)
    try:
        metap = os.path.join(outdir, "meta.json")
        if os.path.exists(metap) and not force:
            meta = json.load(open(metap))
            if all(c in meta["done"] or c in meta["failed"] for c in configs):
                meta["cached"] = True
                return outdir, meta
        os.makedirs(outdir, exist_ok=True)
        log = os.path.join(outdir, "log")
        os.makedirs(log, exist_ok=True)
        nonce = uuid.uuid4().hex
        libdir = sysroot_lib()
        t0 = time.time()
        done, failed = {}, {}
        with ThreadPoolExecutor(max_workers=10) as ex:
            for cfg, ok, dt, err in ex.map(lambda c: _run_one(c, outdir, nonce, libdir, log), EXTRACT_CONFIGS):
                if ok:
                    # freshness: the fact file must carry the nonce issued for this run
                    with open(os.path.join(outdir, cfg + ".json")) as f:
                        head = f.read(200)
                    if nonce not in head:
                        raise RuntimeError("stale fact file for %s (nonce mismatch)" % cfg)
                    done[cfg] = round(dt, 2)
                else:
                    failed[cfg] = err
                if verbose:
                    print("extract %s: %s %.1fs" % (cfg, "ok" if ok else "FAILED", dt), file=sys.stderr)
        meta = {"key": key, "nonce": nonce, "done": done, "failed": failed, "wall_s": round(time.time() - t0, 2), "cached": False}
        # distinguish "tree does not compile" from "driver broken": if every configuration
        # failed and plain rustc can build the default one, it is the driver.
        if len(failed) == len(EXTRACT_CONFIGS):
            err = next(iter(failed.values()))
            if "error[E" not in err and "error:" not in err:
                raise RuntimeError("driver failure:\n" + err)
        json.dump(meta, open(metap, "w"))
        _prune(os.path.join(BUILD, "facts"), keep=int(os.environ.get("CTAP_FACTS_KEEP", "6")))
        return outdir, meta
    finally:
        fcntl.flock(lockf, fcntl.LOCK_UN)
        lockf.close()


def _prune(d, keep):
    ents = [(os.path.getmtime(os.path.join(d, e)), e) for e in os.listdir(d)]
    ents.sort(reverse=True)
    for _, e in ents[keep:]:
        shutil.rmtree(os.path.join(d, e), ignore_errors=True)


if __name__ == "__main__":
    d, meta = ensure_facts(verbose=True)
    print(d)
    print(json.dumps({k: v for k, v in meta.items() if k != "failed"}, indent=1))
    for c, e in meta["failed"].items():
        print("FAILED", c, e[-1500:])
