"""Check context: collects violations (keyed, never by line number), obligations,
samples and floors; applies the committed known-findings file; writes the evidence."""
import json
import os
import sys
import time

from . import extract
from .facts import load_all

VERIF = extract.VERIF
KNOWN = os.path.join(VERIF, "known_findings.json")


class Infra(Exception):
    pass


class Ctx:
    def __init__(self, prop, tier="quick", level="other", configs=None):
        self.prop = prop
        self.tier = tier
        self.level = level
        self.t0 = time.time()
        self.seed = int(os.environ.get("VERIF_SEED", "0") or 0)
        self.violations = {}   # key -> dict(msg, cfgs, where)
        self.obligations = 0
        self.discharged = 0
        self.evaluations = 0
        self.nontrivial = set()
        self.samples = []
        self.floors = []
        self.notes = []
        self.assumptions = []
        self.explanation = ""
        self.rule = ""
        self.extra = {}
        self.trusted = []
        cfgs = configs or extract.ALL_CONFIGS
        try:
            # thorough tier: never trust the content-addressed fact cache, extract again
            outdir, meta = extract.ensure_facts(cfgs, force=(tier == "thorough"))
        except RuntimeError as e:
            raise Infra(str(e))
        self.meta = meta
        self.failed_cfgs = {c: e for c, e in meta["failed"].items() if c in cfgs}
        self.cfgs = [c for c in cfgs if c not in self.failed_cfgs]
        self.facts = load_all(outdir, self.cfgs)
        for c, err in self.failed_cfgs.items():
            line = next((l for l in err.splitlines() if l.startswith("error")), "error")
            self.violation("build|" + extract.cfg_label(c),
                           "the tree does not compile in configuration %s, which the property quantifies over: %s" % (extract.cfg_label(c), line))

    # ---- recording
    def violation(self, key, msg, cfg=None, where=None):
        v = self.violations.setdefault(key, {"key": key, "msg": msg, "cfgs": [], "where": where})
        if cfg and cfg not in v["cfgs"]:
            v["cfgs"].append(cfg)

    def oblige(self, key, ok, msg=None, cfg=None, where=None, nontrivial=True):
        """one obligation (rule instance); ok=False makes it a violation"""
        self.obligations += 1
        self.evaluations += 1
        if ok:
            self.discharged += 1
            if nontrivial:
                self.nontrivial.add(key)
        else:
            self.violation(key, msg or key, cfg=cfg, where=where)
        return ok

    def floor(self, name, got, minimum, cfg=None):
        self.floors.append({"name": name, "got": got, "min": minimum, "cfg": cfg})
        if got < minimum:
            self.violation("floor|%s" % name,
                           "analysed population below the hand-counted floor: %s = %d < %d (anchor missing or renamed; the rule would pass vacuously)" % (name, got, minimum), cfg=cfg)

    def sample(self, obj, limit=40):
        if len(self.samples) < limit:
            self.samples.append(obj)

    def note(self, s):
        if s not in self.notes:
            self.notes.append(s)

    # ---- finishing
    def finish(self):
        known = {"open": [], "fixed": []}
        if os.path.exists(KNOWN):
            known = json.load(open(KNOWN))
        open_keys = {}
        for e in known.get("open", []):
            if e.get("property") == self.prop:
                open_keys[e["key"]] = e
        new, listed = [], []
        for key, v in sorted(self.violations.items()):
            if key in open_keys:
                listed.append(v)
            else:
                new.append(v)
        for v in listed:
            print("KNOWN-FINDING: property=%s %s :: %s" % (self.prop, v["key"], v["msg"]))
        # runs against a scratch copy (mutant testing, CTAP_REPO=...) must never overwrite the evidence of /repo
        evdir = os.path.join(VERIF, "evidence") if extract.REPO == "/repo" else os.path.join(extract.BUILD, "scratch-evidence")
        replay_dir = os.path.join(evdir, "replay")
        os.makedirs(replay_dir, exist_ok=True)
        # remove stale replay files of this property
        for fn in os.listdir(replay_dir):
            if fn.startswith(self.prop + "-"):
                os.remove(os.path.join(replay_dir, fn))
        for i, v in enumerate(new):
            rp = os.path.join(replay_dir, "%s-%d.json" % (self.prop, i))
            json.dump({"property": self.prop, **v}, open(rp, "w"), indent=1)
            cf = (" [" + ",".join(v["cfgs"]) + "]") if v["cfgs"] else ""
            print("VIOLATION property=%s replay=%s" % (self.prop, rp))
            print("  %s%s: %s%s" % (v["key"], cf, v["msg"], (" @ " + v["where"]) if v.get("where") else ""))
        wall = time.time() - self.t0
        cov = {
            "explanation": self.explanation,
            "rule": self.rule,
            "evaluations": self.evaluations,
            "distinct_nontrivial": len(self.nontrivial),
            "obligations": self.obligations,
            "discharged": self.discharged,
            "checker_cmd": "bin/check %s --tier %s" % (self.prop, self.tier),
            "trusted_base": self.trusted,
            "samples": self.samples or ["(no sample recorded)"],
            "configurations": [extract.cfg_label(c) for c in self.cfgs],
            "floors": self.floors,
            "notes": self.notes,
            "facts_key": self.meta.get("key"),
            "facts_cached": self.meta.get("cached"),
            "known_findings_listed": [v["key"] for v in listed],
            "exhaustive": bool(self.extra.pop("exhaustive", False)),
        }
        cov.update(self.extra)
        ev = {
            "property_id": self.prop,
            "tier": self.tier,
            "seed": self.seed,
            "level": self.level,
            "coverage": cov,
            "assumptions": self.assumptions,
            "wall_s": round(wall, 3),
            "violations": len(new),
        }
        os.makedirs(evdir, exist_ok=True)
        with open(os.path.join(evdir, self.prop + ".json"), "w") as f:
            json.dump(ev, f, indent=1)
        print("%s: %d obligations, %d discharged, %d violations (%d known), %d configurations, %.1fs" % (
            self.prop, self.obligations, self.discharged, len(new), len(listed), len(self.cfgs), wall))
        return 1 if new else 0


class Probe:
    """stand-in for Ctx used when one property's rule re-uses another's template as a discharge
    rule: records failures, writes nothing"""

    def __init__(self, facts=None, tier="quick"):
        self.failed = []
        self.count = 0
        self.facts = facts or {}
        self.tier = tier
        self.extra = {}
        self.trusted = []
        self.assumptions = []
        self.explanation = ""
        self.rule = ""

    def oblige(self, key, ok, msg=None, cfg=None, where=None, nontrivial=True):
        self.count += 1
        if not ok:
            self.failed.append((key, msg or key))
        return ok

    def violation(self, key, msg, cfg=None, where=None):
        self.failed.append((key, msg))

    def floor(self, name, got, minimum, cfg=None):
        if got < minimum:
            self.failed.append(("floor|" + name, "%s = %d < %d" % (name, got, minimum)))

    def note(self, s):
        pass

    def sample(self, obj, limit=0):
        pass
