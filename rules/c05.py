"""C05 — rejected CTAP2 requests report exactly the status code their fault calls for.

Decides (T, P, E):
  * the total decision table of `impl From<CtapMappingError> for Error`, expanded by pattern
    semantics over every variant of cbor_smol::Error: InvalidCommand(_) -> InvalidCommand (0x01),
    ParsingError(SerdeMissingField) -> MissingParameter (0x14), ParsingError(every other) ->
    InvalidCbor (0x12); the three discriminants from the ADT table;
  * the funnel rule: every error that leaves ctap2::Request::deserialize is produced by that
    conversion from a CtapMappingError whose constructor is fixed by the exit (empty input /
    split_first -> ParsingError(DeserializeUnexpectedEnd), unknown or unsupported command ->
    InvalidCommand(op), CBOR errors wrapped by the bare ParsingError constructor) — so the image is
    exactly the three-element set;
  * required sets: every member the specification requires has a `missing_field` exit and no
    default in the generated decoders (all request and nested types), every optional member has
    none; no hand-written decoder raises missing_field.
Not decided: which cbor_smol::Error a given malformed byte string raises (all of them except
SerdeMissingField map to 0x12 through the catch-all, which is what the property needs).
"""
import json
import os

from . import hirq as H
from . import tables as T
from . import wire as W
from .pathcond import Analysis, OK, ERR
from . import sym as S
from . import dispatch as D
from .engine import VERIF

LEVEL = "other"
CONV = "<ctap2::Error as core::convert::From<ctap2::CtapMappingError>>"
CME = "ctap2::CtapMappingError"
CBORERR = "cbor_smol::error::Error"


def conversion_function(ctx, F, cfg):
    """decision table of From<CtapMappingError> for Error from its path summaries: for every (outer variant, cbor_smol::Error
    variant) the unique path whose variant tests admit it, and the Error it returns"""
    fn = F.trait_impl_fn(CONV, "from")
    if not ctx.oblige("C05|conv|anchor", fn is not None, "anchor missing: impl From<CtapMappingError> for Error", cfg=cfg):
        return 0
    cbor = F.adt(CBORERR)
    cme = F.adt(CME)
    if not ctx.oblige("C05|conv|adts", cbor is not None and cme is not None, "anchor missing: CtapMappingError / cbor_smol::Error ADT", cfg=cfg):
        return 0
    names = [n for p in fn["params"] for n, _ in H.pat_bindings(p)]
    var = ("param", names[0]) if names else None
    try:
        paths = S.Sym(F, fn).run()
    except S.TooManyPaths:
        ctx.violation("C05|conv|paths", "the conversion has too many paths to enumerate", cfg=cfg)
        return 0
    rows = 0
    want_codes = {"InvalidCommand": 0x01, "MissingParameter": 0x14, "InvalidCbor": 0x12}
    err = F.adt("ctap2::Error")
    discr = {v["name"]: v.get("discr") for v in err["variants"]} if err else {}
    for name, code in want_codes.items():
        ctx.oblige("C05|code|" + name, discr.get(name) == code, "ctap2::Error::%s = %s, specification says 0x%02x" % (name, discr.get(name), code), cfg=cfg)
    cases = [("InvalidCommand", None, "InvalidCommand")]
    for v in cbor["variants"]:
        cases.append(("ParsingError", v["name"], "MissingParameter" if v["name"] == "SerdeMissingField" else "InvalidCbor"))
    for outer, inner, want in cases:
        rows += 1
        asg = {var: CME + "::" + outer}
        if inner:
            asg[("proj", var, CME + "::" + outer, 0)] = CBORERR + "::" + inner
        sel, und = S.select(paths, asg)
        got = None
        if len(sel) == 1 and not und:
            r = sel[0].result
            if r is not None and r[0] == "ctor" and r[1].startswith("ctap2::Error::") and not (sel[0].done and sel[0].done[0] == "panic"):
                got = r[1].split("::")[-1]
            else:
                got = S.show(r)[:60]
        elif und:
            got = "undecided (%s)" % S.show_atom(und[0])[:60]
        else:
            got = "%d paths" % len(sel)
        ctx.oblige("C05|conv|%s|%s" % (outer, inner), got == want,
                   "CtapMappingError::%s%s is reported as %s, the property requires %s" % (outer, "(%s)" % inner if inner else "(_)", got, want), cfg=cfg, where=fn["sp"])
    ctx.oblige("C05|conv|variants", sorted(v["name"] for v in cme["variants"]) == ["InvalidCommand", "ParsingError"],
               "CtapMappingError has variants %s: a new fault class needs a status decision" % [v["name"] for v in cme["variants"]], cfg=cfg)
    ctx.sample({"cfg": cfg, "conversion": S.summarize(paths)}, limit=3)
    return rows


def funnel(ctx, F, cfg):
    """every error that leaves Request::deserialize is the conversion of a CtapMappingError fixed by the exit"""
    m = D.build(F)
    if not ctx.oblige("C05|funnel|anchor", m.error is None, m.error or "", cfg=cfg):
        return 0
    n = 0
    out_ty = m.fn.get("output") or ""
    for i, r in enumerate(m.routes):
        if r.panics:
            ctx.oblige("C05|funnel|panic|%d" % i, False, "Request::deserialize can panic instead of reporting a status (%s)" % (r.p.done,), cfg=cfg, where=m.fn["sp"])
            continue
        if r.outcome == "ok":
            continue
        if r.outcome != "err":
            ctx.oblige("C05|funnel|ok-site|%d" % i, False, "Request::deserialize has a result that is neither Ok(..) nor Err(..): %s" % S.show(r.p.result)[:100], cfg=cfg, where=m.fn["sp"], nontrivial=False)
            continue
        n += 1
        e = r.err
        var = e[1].split("::")[-1] if e is not None and e[0] == "ctor" and e[1].startswith(CME + "::") else None
        converted = r.value is not None and r.value != e      # went through `?` / .into() / From::from
        label = var or S.show(r.value)[:60]
        ctx.oblige("C05|funnel|err-site|%s" % label, var in ("InvalidCommand", "ParsingError") and converted,
                   "an error leaves Request::deserialize without going through From<CtapMappingError>: %s" % S.show(r.value)[:120], cfg=cfg, where=m.fn["sp"])
        if var == "ParsingError":
            pay = e[2][0] if e[2] else None
            from_decoder = r.decode is not None and r.decode_known == S.ERR and pay == m.sym.proj(r.decode.term, S.ERR, 0)
            hand_made = pay == ("ctor", D.UNEXPECTED_END, ()) and r.op is None
            ctx.oblige("C05|funnel|err-site|ParsingError|payload|%d" % i, from_decoder or hand_made,
                       "a ParsingError carries %s: neither the payload decoder's own error nor DeserializeUnexpectedEnd for an empty message" % S.show(pay)[:100], cfg=cfg, where=m.fn["sp"], nontrivial=False)
        elif var == "InvalidCommand":
            ctx.oblige("C05|funnel|err-site|InvalidCommand|payload|%d" % i, r.op is not None and e[2] == (r.op,) and r.decode is None,
                       "InvalidCommand does not carry the command byte, or is raised after the payload was looked at: %s" % S.show(e)[:100], cfg=cfg, where=m.fn["sp"], nontrivial=False)
    ctx.oblige("C05|funnel|return-type", out_ty.endswith("ctap2::Error>") or "ctap2::Error" in out_ty or out_ty.startswith("core::result::Result<"), "Request::deserialize returns %s" % out_ty, cfg=cfg, nontrivial=False)
    return n


def run(ctx):
    spec = json.load(open(os.path.join(VERIF, "spec", "ctap2_messages.json")))
    ctx.explanation = ("Decision table of the error conversion: its path summaries (rules/sym.py) selected for every (outer variant, cbor_smol::Error variant) pair of the foreign ADT table; funnel rule over "
                       "every error path of Request::deserialize as described over the command byte (rules/dispatch.py: which CtapMappingError each exit carries, converted on the way out); the byte-level "
                       "table of which bytes are rejected with InvalidCommand; required-set agreement of every generated decoder with the specification tables.")
    ctx.rule = "obligation = conversion row | error exit | required member, per configuration"
    ctx.trusted = ["cbor-smol 0.5.1: serde::de::Error::missing_field -> Error::SerdeMissingField; which Error a malformed input raises", "serde-indexed 0.1.1 / serde_derive 1.0.229 (missing_field exits read from typed HIR)"]
    for cfg, F in ctx.facts.items():
        rows = conversion_function(ctx, F, cfg)
        ctx.floor("conversion rows (cbor_smol::Error variants + 1)", rows, 20, cfg=cfg)
        exits = funnel(ctx, F, cfg)
        ctx.floor("error exits of Request::deserialize", exits, 3, cfg=cfg)
        # which command bytes are rejected with InvalidCommand at all: the byte-level decision table of the command switch
        # (every unassigned and every unsupported byte, and no other)
        from . import c11
        cmds = json.load(open(os.path.join(VERIF, "spec", "commands.json")))
        c11.check_dispatch(ctx, F, cfg, cmds, P="C05")
        # required sets
        n_req = 0
        for path, s in spec["requests"].items():
            try:
                tab = W.decode_table(F, path)
            except T.Unreadable as e:
                ctx.violation("C05|unreadable|" + path, "UNREADABLE-IMPL: %s" % e, cfg=cfg)
                continue
            if tab is None:
                ctx.violation("C05|anchor|" + path, "anchor missing: decoder of " + path, cfg=cfg)
                continue
            by_field = {m["field"]: m for m in tab["members"]}
            for w in W.oracle_members(s, F.features):
                m = by_field.get(w["field"])
                if m is None:
                    ctx.oblige("C05|required|%s|%s" % (path, w["field"]), not w["required"], "required member %s.%s is not decoded at all" % (path, w["field"]), cfg=cfg)
                    continue
                if w["required"]:
                    n_req += 1
                    ctx.oblige("C05|required|%s|%s" % (path, w["field"]), m["required"] is True,
                               "a message lacking the required %s.%s would be accepted (no missing_field exit / has a default)" % (path, w["field"]), cfg=cfg, where=tab["fn"]["sp"])
                else:
                    ctx.oblige("C05|optional|%s|%s" % (path, w["field"]), m["required"] is False,
                               "a message lacking the optional %s.%s would be rejected as MissingParameter" % (path, w["field"]), cfg=cfg, where=tab["fn"]["sp"], nontrivial=False)
        ctx.floor("required members", n_req, 19, cfg=cfg)
        # hand-written decoders decode exactly the documented leaf types: a wrong CBOR type must fail in the leaf
        # decoder (-> InvalidCbor), so none of them may accept "anything" (IgnoredAny) or another type
        got_leaves = W.handwritten_leaves(F)
        want_leaves = W.want_leaves(F)
        for key in sorted(set(got_leaves) | set(want_leaves)):
            label = "::".join(key[1:])
            ctx.oblige("C05|handwritten-leaf|" + label, got_leaves.get(key) == want_leaves.get(key),
                       "hand-written decoder %s decodes %s, documented %s: a value of the wrong CBOR type may be accepted instead of rejected with InvalidCbor" % (label, sorted(got_leaves.get(key, [])), sorted(want_leaves.get(key, []))), cfg=cfg)
        # hand-written decoders never raise missing_field
        for f in F.fns:
            if f["pv"] != "user":
                continue
            for x in H.walk(f["body"]):
                if x.get("callee") in ("serde_core::de::Error::missing_field", "serde::private::de::missing_field") and x.get("pv") == "user":
                    ctx.oblige("C05|handwritten-missing-field|" + f["path"], False, "%s raises missing_field by hand: reported as MissingParameter (0x14)" % f["path"], cfg=cfg, where=H.line(x))
