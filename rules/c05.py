"""C05 — rejected CTAP2 requests report exactly the status code their fault calls for.

Decides (T, P, E):
  * the total decision table of `impl From<CtapMappingError> for Error`, expanded by pattern
    semantics over every variant of cbor_smol::Error: InvalidCommand(_) -> InvalidCommand (0x01),
    ParsingError(SerdeMissingField) -> MissingParameter (0x14), ParsingError(every other) ->
    InvalidCbor (0x12); the three discriminants from the ADT table;
  * the funnel rule: every error that leaves ctap2::Request::deserialize is produced by that
    conversion from a CtapMappingError whose constructor is fixed by the exit (empty input /
    split_first -> ParsingError(DeserializeUnexpectedEnd), unknown or unsupported command ->
    InvalidCommand(op), CBOR errors wrapped by the bare ParsingError constructor) — so the image is
    exactly the three-element set;
  * required sets: every member the specification requires has a `missing_field` exit and no
    default in the generated decoders (all request and nested types), every optional member has
    none; no hand-written decoder raises missing_field.
Not decided: which cbor_smol::Error a given malformed byte string raises (all of them except
SerdeMissingField map to 0x12 through the catch-all, which is what the property needs).
"""
import json
import os

from . import hirq as H
from . import tables as T
from . import wire as W
from .pathcond import Analysis, OK, ERR
from .engine import VERIF

LEVEL = "other"
CONV = "<ctap2::Error as core::convert::From<ctap2::CtapMappingError>>"
CME = "ctap2::CtapMappingError"
CBORERR = "cbor_smol::error::Error"


def conversion_function(ctx, F, cfg):
    fn = F.trait_impl_fn(CONV, "from")
    if not ctx.oblige("C05|conv|anchor", fn is not None, "anchor missing: impl From<CtapMappingError> for Error", cfg=cfg):
        return 0
    A = Analysis(fn)
    cbor = F.adt(CBORERR)
    cme = F.adt(CME)
    if not ctx.oblige("C05|conv|adts", cbor is not None and cme is not None, "anchor missing: CtapMappingError / cbor_smol::Error ADT", cfg=cfg):
        return 0
    param_ids = set(A.param_ids)

    def root_is_param(n):
        n = A.subst(n)
        return H.local_id(n) in param_ids

    def lookup(outer, inner):
        """first result site whose path conditions admit (outer variant, inner cbor variant)"""
        for s in A.sites:
            ok = True
            for c in s.conds:
                if c.kind != "match":
                    ok = False
                    break
                if root_is_param(c.scrut):
                    want = CME + "::" + outer
                else:
                    # the payload binding of ParsingError(..)
                    want = CBORERR + "::" + inner if inner else None
                if want is None:
                    ok = False
                    break
                pats = c.pat["pats"] if c.pat.get("k") == "or" else [c.pat]
                hit = any(H.pat_is_catchall(p) or H.pat_ctor(p) == want for p in pats)
                pri = any(H.pat_is_catchall(p) or H.pat_ctor(p) == want for q in c.prior for p in (q["pats"] if q.get("k") == "or" else [q]))
                if not hit or pri:
                    ok = False
                    break
            if ok:
                return s
        return None

    rows = 0
    want_codes = {"InvalidCommand": 0x01, "MissingParameter": 0x14, "InvalidCbor": 0x12}
    err = F.adt("ctap2::Error")
    discr = {v["name"]: v.get("discr") for v in err["variants"]} if err else {}
    for name, code in want_codes.items():
        ctx.oblige("C05|code|" + name, discr.get(name) == code, "ctap2::Error::%s = %s, specification says 0x%02x" % (name, discr.get(name), code), cfg=cfg)
    cases = [("InvalidCommand", None, "InvalidCommand")]
    for v in cbor["variants"]:
        cases.append(("ParsingError", v["name"], "MissingParameter" if v["name"] == "SerdeMissingField" else "InvalidCbor"))
    for outer, inner, want in cases:
        rows += 1
        s = lookup(outer, inner)
        got = None
        if s is not None and not s.wrappers and s.node is not None:
            c = H.ctor(H.strip_block(s.node))
            got = c.split("::")[-1] if c and c.startswith("ctap2::Error::") else c
        ctx.oblige("C05|conv|%s|%s" % (outer, inner), got == want,
                   "CtapMappingError::%s%s is reported as %s, the property requires %s" % (outer, "(%s)" % inner if inner else "(_)", got, want), cfg=cfg, where=fn["sp"])
    ctx.oblige("C05|conv|variants", sorted(v["name"] for v in cme["variants"]) == ["InvalidCommand", "ParsingError"],
               "CtapMappingError has variants %s: a new fault class needs a status decision" % [v["name"] for v in cme["variants"]], cfg=cfg)
    ctx.sample({"cfg": cfg, "conversion": [A.site_str(s) for s in A.sites]}, limit=3)
    return rows


def funnel(ctx, F, cfg):
    fn = F.fn("ctap2::Request::<'a>::deserialize")
    if not ctx.oblige("C05|funnel|anchor", fn is not None, "anchor missing: ctap2::Request::deserialize", cfg=cfg):
        return 0
    A = Analysis(fn)
    n = 0

    def mapping_ctor(e):
        """CtapMappingError constructor (variant, payload desc) an expression evaluates to"""
        e = H.strip_block(A.subst(e))
        if e.get("k") == "call" and (e.get("ctor") or "").startswith(CME + "::"):
            return e["ctor"].split("::")[-1], A.desc(e["args"][0]) if e["args"] else ""
        return None, None

    # explicit Err(..) results
    for s in A.sites:
        if not s.wrappers or s.wrappers[0] != ERR:
            ctx.oblige("C05|funnel|ok-site|%d" % s.seq, s.wrappers[:1] == [OK], "Request::deserialize has a result that is neither Ok(..) nor Err(..)", cfg=cfg, where=H.line(s.node) if s.node else None, nontrivial=False)
            continue
        n += 1
        node = H.strip_block(s.node)
        good = node.get("k") in ("call", "mcall") and H.conversion_impl(node) == CONV
        var = payload = None
        if good:
            var, payload = mapping_ctor(H.call_args(node)[0])
            good = var in ("InvalidCommand", "ParsingError")
        ctx.oblige("C05|funnel|err-site|%s" % (var or A.desc(node)[:60]), good,
                   "an error leaves Request::deserialize without going through From<CtapMappingError>: %s" % A.desc(node)[:120], cfg=cfg, where=H.line(node))
        if var == "ParsingError":
            ctx.oblige("C05|funnel|err-site|ParsingError|payload", payload == "cbor_smol::error::Error::DeserializeUnexpectedEnd",
                       "a hand-made ParsingError carries %s" % payload, cfg=cfg, where=H.line(node), nontrivial=False)
    # `?` exits
    for t in A.tries:
        n += 1
        ty = t.node.get("ty", "")
        d = A.desc(t.node)[:100]
        ctx.oblige("C05|funnel|try|%d" % n, ty.startswith("core::result::Result<") and ty.endswith(", ctap2::CtapMappingError>"),
                   "a `?` in Request::deserialize propagates an error of type %s, not a CtapMappingError: %s" % (ty, d), cfg=cfg, where=H.line(t.node))
        e = H.strip_block(t.node)
        if e.get("k") == "mcall" and e.get("callee") == "core::result::Result::<T, E>::map_err":
            f = H.strip(e["args"][0])
            if f.get("k") == "closure":
                b = H.strip_block(f["body"])
                tail = H.strip_block(b.get("expr", b)) if b.get("k") == "block" else b
                var, payload = mapping_ctor(tail)
                ctx.oblige("C05|funnel|try|closure|%d" % n, var == "InvalidCommand", "an error is rewritten by a closure into %s" % (var or A.desc(tail)[:60]), cfg=cfg, where=H.line(f))
            else:
                p = H.def_path(f)
                ctx.oblige("C05|funnel|try|wrapper|%d" % n, p == CME + "::ParsingError", "CBOR errors are wrapped by %s instead of the bare ParsingError constructor" % p, cfg=cfg, where=H.line(e))
        elif e.get("k") == "mcall" and e.get("callee") in ("core::option::Option::<T>::ok_or", "core::option::Option::<T>::ok_or_else"):
            var, payload = mapping_ctor(e["args"][0])
            ctx.oblige("C05|funnel|try|ok_or|%d" % n, var == "ParsingError" and payload == "cbor_smol::error::Error::DeserializeUnexpectedEnd",
                       "a missing command byte is reported as %s(%s)" % (var, payload), cfg=cfg, where=H.line(e))
        else:
            ctx.oblige("C05|funnel|try|shape|%d" % n, False, "unrecognised error exit: %s" % d, cfg=cfg, where=H.line(e))
    return n


def run(ctx):
    spec = json.load(open(os.path.join(VERIF, "spec", "ctap2_messages.json")))
    ctx.explanation = ("Decision table of the error conversion expanded over every cbor_smol::Error variant (foreign ADT table), funnel rule over every error exit of "
                       "Request::deserialize (result sites and `?` sites with their path literals), and required-set agreement of every generated decoder with the specification tables.")
    ctx.rule = "obligation = conversion row | error exit | required member, per configuration"
    ctx.trusted = ["cbor-smol 0.5.1: serde::de::Error::missing_field -> Error::SerdeMissingField; which Error a malformed input raises", "serde-indexed 0.1.1 / serde_derive 1.0.229 (missing_field exits read from typed HIR)"]
    for cfg, F in ctx.facts.items():
        rows = conversion_function(ctx, F, cfg)
        ctx.floor("conversion rows (cbor_smol::Error variants + 1)", rows, 20, cfg=cfg)
        exits = funnel(ctx, F, cfg)
        ctx.floor("error exits of Request::deserialize", exits, 3, cfg=cfg)
        # required sets
        n_req = 0
        for path, s in spec["requests"].items():
            try:
                tab = W.decode_table(F, path)
            except T.Unreadable as e:
                ctx.violation("C05|unreadable|" + path, "UNREADABLE-IMPL: %s" % e, cfg=cfg)
                continue
            if tab is None:
                ctx.violation("C05|anchor|" + path, "anchor missing: decoder of " + path, cfg=cfg)
                continue
            by_field = {m["field"]: m for m in tab["members"]}
            for w in W.oracle_members(s, F.features):
                m = by_field.get(w["field"])
                if m is None:
                    ctx.oblige("C05|required|%s|%s" % (path, w["field"]), not w["required"], "required member %s.%s is not decoded at all" % (path, w["field"]), cfg=cfg)
                    continue
                if w["required"]:
                    n_req += 1
                    ctx.oblige("C05|required|%s|%s" % (path, w["field"]), m["required"] is True,
                               "a message lacking the required %s.%s would be accepted (no missing_field exit / has a default)" % (path, w["field"]), cfg=cfg, where=tab["fn"]["sp"])
                else:
                    ctx.oblige("C05|optional|%s|%s" % (path, w["field"]), m["required"] is False,
                               "a message lacking the optional %s.%s would be rejected as MissingParameter" % (path, w["field"]), cfg=cfg, where=tab["fn"]["sp"], nontrivial=False)
        ctx.floor("required members", n_req, 19, cfg=cfg)
        # hand-written decoders decode exactly the documented leaf types: a wrong CBOR type must fail in the leaf
        # decoder (-> InvalidCbor), so none of them may accept "anything" (IgnoredAny) or another type
        want_leaves = {
            "<webauthn::Icon as serde_core::de::Deserialize<'de>>::deserialize": {"&str"},
            "webauthn::deserialize_from_str_and_skip_if_too_long": {"&str"},
            "webauthn::deserialize_from_str_and_truncate": {"core::option::Option<&str>"},
            "<<ctap2::AttestationFormatsPreference as serde_core::de::Deserialize<'de>>::deserialize::ValueVisitor as serde_core::de::Visitor<'de>>::visit_seq": {"&str"},
            "<<webauthn::FilteredPublicKeyCredentialParameters as serde_core::de::Deserialize<'de>>::deserialize::ValueVisitor as serde_core::de::Visitor<'de>>::visit_seq": {"webauthn::PublicKeyCredentialParameters"},
        }
        got_leaves = {}
        for f in F.fns:
            if f["pv"] != "user":
                continue
            for x in H.walk(f["body"]):
                if x.get("pv") != "user":
                    continue
                c = x.get("callee")
                ta = x.get("targs") or []
                t = None
                if c == "serde_core::de::Deserialize::deserialize" and ta:
                    t = ta[0]
                elif c in ("serde_core::de::SeqAccess::next_element", "serde_core::de::MapAccess::next_value", "serde_core::de::MapAccess::next_key") and len(ta) > 1:
                    t = ta[1]
                elif c in ("serde_core::de::MapAccess::next_entry",) and len(ta) > 2:
                    t = ta[1] + " / " + ta[2]
                if t is not None:
                    got_leaves.setdefault(f["path"], set()).add(W.erase_lt(t))
        for path in sorted(set(got_leaves) | set(want_leaves)):
            ctx.oblige("C05|handwritten-leaf|" + path, got_leaves.get(path) == want_leaves.get(path),
                       "hand-written decoder %s decodes %s, documented %s: a value of the wrong CBOR type may be accepted instead of rejected with InvalidCbor" %
                       (path, sorted(got_leaves.get(path, [])), sorted(want_leaves.get(path, []))), cfg=cfg)
        # hand-written decoders never raise missing_field
        for f in F.fns:
            if f["pv"] != "user":
                continue
            for x in H.walk(f["body"]):
                if x.get("callee") in ("serde_core::de::Error::missing_field", "serde::private::de::missing_field") and x.get("pv") == "user":
                    ctx.oblige("C05|handwritten-missing-field|" + f["path"], False, "%s raises missing_field by hand: reported as MissingParameter (0x14)" % f["path"], cfg=cfg, where=H.line(x))
