"""Obligation discharge rules (kind B) over path literals: interval facts about slice lengths."""
from . import hirq as H

UNWRAPS = ("core::result::Result::<T, E>::unwrap", "core::result::Result::<T, E>::expect", "core::option::Option::<T>::unwrap", "core::option::Option::<T>::expect")
LEN = "core::slice::<impl [T]>::len"


def is_slice_point(n):
    if n.get("k") == "index":
        return True
    if n.get("k") == "mcall" and n.get("callee") in UNWRAPS:
        return True
    return False


def len_facts(A, conds, base_desc):
    """(exact, lower_bound) for len(base) implied by the path literals; exact=None if unknown"""
    exact, lb = None, 0
    want = "%s(%s)" % (LEN, base_desc)
    for c in conds:
        cmp_ = A.comparison(c)
        if not cmp_:
            continue
        l, op, r = cmp_
        if l != want and r == want:
            l, r = r, l
            op = {"==": "==", "!=": "!=", "<": ">", ">": "<", "<=": ">=", ">=": "<="}[op]
        if l != want:
            continue
        try:
            v = int(r)
        except ValueError:
            v = None
        if v is not None:
            if op == "==":
                exact = v
                lb = max(lb, v)
            elif op == ">=":
                lb = max(lb, v)
            elif op == ">":
                lb = max(lb, v + 1)
        else:
            # len == c + <usize term>   =>  len >= c
            rn = r.strip()
            if op == "==" and rn.startswith("(") and " + " in rn:
                inner = rn[1:-1]
                a, b = inner.split(" + ", 1)
                for x, y in ((a, b), (b, a)):
                    try:
                        cval = int(x)
                    except ValueError:
                        continue
                    if " as usize)" in y or y.startswith("core::slice"):
                        lb = max(lb, cval)
    return exact, lb


def range_of(idx):
    """('index', i) | ('range', a, b) with None for open ends | None"""
    i = H.strip_block(idx)
    v = H.lit(i)
    if isinstance(v, int) and not isinstance(v, bool):
        return ("index", v)
    if i.get("k") == "struct":
        p = i["res"].get("path", "")
        f = {x["name"]: H.lit(x["e"]) for x in i["fields"]}
        if p == "core::ops::range::RangeTo":
            return ("range", 0, f.get("end"))
        if p == "core::ops::range::RangeFrom":
            return ("range", f.get("start"), None)
        if p == "core::ops::range::Range":
            return ("range", f.get("start"), f.get("end"))
        if p == "core::ops::range::RangeToInclusive":
            e = f.get("end")
            return ("range", 0, e + 1 if isinstance(e, int) else None)
    if i.get("k") == "call" and i.get("callee") == "core::ops::range::RangeInclusive::<Idx>::new":
        a, b = H.lit(i["args"][0]), H.lit(i["args"][1])
        return ("range", a, b + 1 if isinstance(b, int) else None)
    return None


def discharge_index(A, node, conds):
    """B-guard for `base[idx]` on a slice: returns (ok, reason, resulting_len or None)"""
    base = A.desc(node["base"])
    exact, lb = len_facts(A, conds, base)
    r = range_of(node["idx"])
    if r is None:
        return False, "index expression is not a constant index / constant range", None
    if r[0] == "index":
        return (lb >= r[1] + 1), "needs len >= %d, path gives len >= %d" % (r[1] + 1, lb), None
    _, a, b = r
    if a is None or (b is None and a is None):
        return False, "range bound is not a constant", None
    if b is not None:
        if not isinstance(a, int) or not isinstance(b, int) or a > b:
            return False, "malformed constant range", None
        return (lb >= b), "needs len >= %d, path gives len >= %d" % (b, lb), b - a
    # a..
    ok = lb >= a
    return ok, "needs len >= %d, path gives len >= %d" % (a, lb), (exact - a if exact is not None else None)
