"""C17 — a response fits the transport buffer completely or becomes a one-byte error.

Decides (P, E, W, B) on every control-flow path of ctap2::Response::serialize (loop-free; all
paths enumerated):
  * the first operation on the buffer grows it to its capacity, then the status byte and the body
    are split off (`split_first_mut().unwrap()` is discharged by the property's own precondition
    N >= 1 because the grow dominates it);
  * the body is produced only by cbor_serialize(payload, <tail>) — nothing else writes the buffer;
  * the status byte is assigned exactly once on every path: 0 exactly on the Ok path,
    `Error::Other as u8` (= 0x7F from the ADT table) exactly on the Err path;
  * the *last* buffer operation of every path is resize_default(n) with n = 1 on the Err path and
    on the [0xA0] path, n = slice.len() + 1 otherwise (slice = the encoder's returned prefix);
  * no resize result is unwrapped; `l + 1` cannot overflow (l <= N - 1);
  * per response variant (clause shared with C02): a data-bearing variant's arm is
    cbor_serialize(<its own payload>, <tail>), a parameter-less one yields the empty body -- a
    "complete message" is the variant's whole body, in every configuration.
Independence from prior contents follows: every byte of the final [0, n) range is written on the
path that selects n.  Not decided: that cbor_serialize fails rather than truncates (cbor-smol).
"""
import json
import os

from . import hirq as H
from .engine import VERIF
from . import respser as R
from . import sym as S
from .pathcond import Analysis
from . import oblig_rules as OR
from .oblig_mono import node_at, hir_fn_for

LEVEL = "other"


def check(ctx, F, cfg, P="C17", clauses="all"):
    m, problems = R.build(F)
    for suffix, msg in problems:
        ctx.oblige("%s|frame|%s" % (P, suffix), False, msg, cfg=cfg)
    if m is None:
        return 0
    other = F.adt("ctap2::Error")
    other_val = None
    if other:
        other_val = next((v.get("discr") for v in other["variants"] if v["name"] == "Other"), None)
    ctx.oblige("%s|frame|other-code" % P, other_val == 0x7F, "ctap2::Error::Other is %r, not 0x7F" % (other_val,), cfg=cfg, nontrivial=False)
    kinds = set()
    where = m.fn["sp"]
    for v in m.paths:
        p = v.p
        label = "%s|%s" % (v.variant, v.kind)
        key = "%s|frame|path|%s" % (P, label)
        if not ctx.oblige(key + "|classified", v.kind in ("ok", "ok-a0", "err", "ok-empty") and v.variant != "?" and not p.loops,
                          "a path of Response::serialize is not one of {Ok & [0xA0], Ok, Err, no parameters} (kind=%s, loops=%d): %s" % (v.kind, p.loops, [S.show_atom(a) for a in p.atoms][:8]), cfg=cfg, where=where):
            continue
        kinds.add(v.kind)
        ops = v.buf_ops
        # 1. grow first
        good = len(ops) >= 1 and R.is_grow(m, ops[0])
        ctx.oblige(key + "|grow-first", good, "the buffer is not first grown to its full capacity", cfg=cfg, where=where)
        # 2. split second, nothing else on the buffer than grow, split, final shrink
        shape_ok = len(ops) == 3 and R.is_grow(m, ops[0]) and ops[1] in v.split and ops[2].callee in (R.RESIZE, R.TRUNCATE)
        ctx.oblige(key + "|buffer-ops", shape_ok, "buffer operations on this path are %s, expected [grow, split_first_mut, final resize/truncate]" % [S.short_fn(e.callee) for e in ops], cfg=cfg, where=where)
        if not shape_ok:
            continue
        # 3. body written only by cbor_serialize into the tail
        foreign = [e for e in v.effects if e not in ops and e not in v.encoders and e not in v.status_writes and e not in v.body_reads]
        ctx.oblige(key + "|only-encoder-writes", not foreign and len(v.encoders) <= 1 and all(len(e.args) == 2 and e.args[1] == v.data_place for e in v.encoders),
                   "something other than cbor_serialize(payload, <tail after the status byte>) touches the buffer: %s" % ["%s(%s)" % (S.short_fn(e.callee), ", ".join(S.show(a)[:40] for a in e.args)) for e in foreign][:4], cfg=cfg, where=where)
        # 4. status assigned exactly once, right constant
        good = len(v.status_writes) == 1 and len(v.assigns) == 1
        val = v.status_writes[0].args[1] if v.status_writes else None
        if good:
            good = val == ("lit", 0x7F if v.kind == "err" else 0)
        ctx.oblige(key + "|status", good, "status byte on the %s path is %s (expected %s, assigned exactly once)" % (v.kind, S.show(val) if val else "never assigned", "Error::Other as u8" if v.kind == "err" else "0"), cfg=cfg, where=where)
        # 5. final length
        last = ops[2]
        ctx.oblige(key + "|resize-last", v.effects[-1] is last, "the final resize is not the last operation on the buffer", cfg=cfg, where=where)
        n = last.args[1] if len(last.args) == 2 else None
        if v.kind in ("err", "ok-a0", "ok-empty"):
            good = n == ("lit", 1)
            msg = "on the %s path the message is resized to %s, expected exactly 1 byte" % (v.kind, S.show(n))
        else:
            def same_len(t):
                if v.body_len is not None and v.body_len[0] == "call":
                    return t[0] == "call" and t[1] == R.LEN and t[2] == v.body_len[2]      # <written slice>.len(), whatever its call site
                return t == v.body_len                                                      # the byte count returned by the writer form
            good = bool(n) and n[0] == "bin" and n[1] == "+" and ((n[2] == ("lit", 1) and same_len(n[3])) or (n[3] == ("lit", 1) and same_len(n[2])))
            msg = "on the Ok path the message is resized to %s, expected <length of the encoded body> + 1" % S.show(n)
        ctx.oblige(key + "|final-length", good, msg, cfg=cfg, where=H.line(last.node))
        # 6. results of the resizes are discarded, never unwrapped
        for i, rz in enumerate((ops[0], last)):
            if rz.callee == R.TRUNCATE:
                continue
            ctx.oblige(key + "|resize-discarded|%d" % i, R.discarded(m, rz.node), "the Result of resize_default is not simply discarded (a panic or an early exit on failure)", cfg=cfg, where=H.line(rz.node), nontrivial=False)
        ctx.sample({"cfg": cfg, "variant": v.variant, "path": v.kind, "when": [S.show_atom(a) for a in p.atoms][-3:], "effects": ["%s(%s)" % (S.short_fn(e.callee), ", ".join(S.show(a)[:50] for a in e.args)) for e in v.effects]}, limit=24)
    ctx.oblige("%s|frame|all-kinds" % P, kinds >= {"ok", "ok-a0", "err"}, "Response::serialize no longer has the three exits Ok, Ok&[0xA0], Err (found %s)" % sorted(kinds), cfg=cfg)
    # panicking paths: only the unwrap of split_first_mut (discharged by N >= 1: the buffer was grown to capacity first)
    for v in m.panic_paths:
        sp_ok = len(v.split) == 1 and v.p.known.get(v.split[0].term) == S.NONE and v.buf_ops[:1] and R.is_grow(m, v.buf_ops[0])
        ctx.oblige("%s|frame|panic|%s" % (P, str(v.p.done[1])[:60]), bool(sp_ok), "Response::serialize can panic at %s (%s)" % (v.p.done[1], v.p.done[2]), cfg=cfg, where=where)
    if m.panic_paths:
        ctx.note("split_first_mut().unwrap() is discharged by the property's precondition N >= 1: on every path the buffer was grown to capacity first")
    ctx.extra.setdefault("helpers_expanded", {})[cfg] = sorted(m.sym.inlined)
    return len(m.paths)


def forwards_own_payload(F, en):
    """the hand-written Serialize impl of the one-field-per-variant enum `en` does, for every variant, exactly
    `<the variant's own field>.serialize(<the serializer argument>)` and returns its result"""
    cache = F.__dict__.setdefault("_forwards_own_payload", {})
    if en in cache:
        return cache[en]
    ok = False
    fns = F.impl_fn("serde_core::ser::Serialize", en, "serialize")
    adt = F.adt(en)
    if len(fns) == 1 and adt is not None and all(len(v["fields"]) == 1 for v in adt["variants"]):
        fn = fns[0]
        names = [n for p in fn["params"] for n, _ in H.pat_bindings(p)]
        ok = True
        for v in adt["variants"]:
            probe = ("unk", -7, "payload")
            sy = S.Sym(F, fn, is_effect=lambda c, a, n, st: (n.get("callee") or "").startswith("serde_core::ser::") if isinstance(n, dict) else False,
                       param_terms={names[0]: ("ctor", en + "::" + v["name"], (probe,))})
            try:
                ps = sy.run()
            except S.TooManyPaths:
                ps = []
            if not (len(ps) == 1 and len(ps[0].effects) == 1 and ps[0].effects[0].tcallee == "serde_core::ser::Serialize::serialize"
                    and tuple(ps[0].effects[0].args) == (probe, ("param", names[1])) and ps[0].result == ps[0].effects[0].term):
                ok = False
    cache[en] = ok
    return ok


def payload(ctx, F, cfg, spec, P="C17"):
    """body wiring per response variant: on every path of a data-bearing variant the body is cbor_serialize(<its own payload>, <tail>),
    a parameter-less one never calls the encoder -- in every configuration in which the variant exists"""
    from .wire import erase_lt
    m, problems = R.build(F)
    if m is None:
        return
    seen = {}
    for v in m.paths:
        seen.setdefault(v.variant, []).append(v)
    for name, vs in sorted(seen.items()):
        want = spec["response_variants"].get(name, "?")
        key = "%s|frame|payload|%s" % (P, name)
        if want == "?":
            ctx.note("Response::%s is not in the specification table: not judged" % name)
            continue
        if want is None:
            ctx.oblige(key, all(not v.encoders and v.kind == "ok-empty" for v in vs), "parameter-less response %s no longer has an empty body" % name, cfg=cfg, where=m.fn["sp"])
        else:
            pay = ("proj", R.ME, "ctap2::Response::" + name, 0)

            def encoded(v):
                """(value term, its type) handed to the encoder; a borrowed *view* enum whose hand-written Serialize forwards every
                variant's payload to the same serializer (an untagged enum) stands for the payload it wraps"""
                t = v.enc.args[0]
                ty = erase_lt(m.sym.type_arg(v.enc, (v.enc.node.get("targs") or [""])[0]) or "")
                if t[0] == "ctor" and len(t[2]) == 1:
                    en, _, var = t[1].rpartition("::")
                    adt = F.adt(en)
                    from . import c03
                    if adt is not None and adt.get("local") and adt["kind"] == "enum" and c03.classify_ser(F, en)[0] == "untagged" and forwards_own_payload(F, en):
                        fty = next((f["ty"]["s"] for x in adt["variants"] if x["name"] == var for f in x["fields"]), "")
                        return t[2][0], erase_lt(fty).lstrip("&").strip()
                return t, ty

            good = all(v.enc is not None and encoded(v)[0] == pay for v in vs)
            tys = sorted({encoded(v)[1] for v in vs if v.enc is not None})
            ctx.oblige(key, good and tys == [want], "response %s is encoded from %s (%s), expected its own payload of type %s" % (name, sorted({S.show(v.enc.args[0]) if v.enc is not None else "nothing" for v in vs}), tys, want), cfg=cfg, where=m.fn["sp"])
    for name in spec["response_variants"]:
        ctx.oblige("%s|frame|variant|%s" % (P, name), name in seen, "Response::%s has no path in Response::serialize" % name, cfg=cfg, nontrivial=False)


def run(ctx):
    ctx.explanation = ("All control-flow paths of the loop-free ctap2::Response::serialize are enumerated from typed HIR; on each the ordered operations on the buffer, "
                       "the status byte and the body tail are extracted and decided clause by clause (grow first, split, only the encoder writes the tail, status assigned "
                       "exactly once with the right constant, final resize last with the right length, resize results discarded).")
    ctx.rule = "obligation = (path, clause) per configuration; paths = response-variant arm x {Ok&[0xA0], Ok, Err}"
    ctx.trusted = ["cbor-smol 0.5.1: cbor_serialize returns Err (not a truncated prefix) when the body does not fit, and Ok(prefix written)", "cbor-smol 0.5.1: cbor_serialize_to(value, &mut <&mut [u8]>) writes at the front of the slice and returns the number of bytes written (at most its length), Err when the body does not fit", "heapless 0.7.17 Vec::resize_default"]
    ctx.assumptions = ["buffer capacity N >= 1 (the property's precondition)", "slice.len() <= N - 1 so slice.len() + 1 cannot overflow"]
    spec = json.load(open(os.path.join(VERIF, "spec", "ctap2_messages.json")))
    for cfg, F in ctx.facts.items():
        n = check(ctx, F, cfg)
        payload(ctx, F, cfg, spec)
        ctx.floor("enumerated paths", n, 3, cfg=cfg)
        # "never panics": obligations in every /repo instance reachable from Response::serialize (monomorphic call graph,
        # instantiated at N = 1024 only to resolve callees; the MIR of serialize::<N> is the same for every N)
        m, _ = R.build(F)

        def local_rules(inst, ev, kind, m=m, F=F):
            fn = hir_fn_for(F, inst)
            if fn is None or m is None:
                return None, None
            nodes = node_at(fn, ev["sp"])
            if kind == "call:core::option::Option::<T>::unwrap":
                for x in nodes:
                    if x.get("k") == "mcall" and x.get("callee") == "core::option::Option::<T>::unwrap" and H.strip_block(x["recv"]).get("callee") == R.SPLIT and all(v.buf_ops[:1] and R.is_grow(m, v.buf_ops[0]) for v in m.views):
                        # every path grows the buffer to capacity before the split (clause grow-first above)
                        return "B-pre", "split_first_mut() after resize_default(capacity()) is Some for N >= 1 (the property's precondition)"
            if kind == "call:core::ops::index::Index::index":
                # data[..written] / data[..0]: the count returned by cbor_serialize_to(_, <writer over this very tail>) is at most its length
                from .oblig_mono import nodes_covering
                inodes = nodes_covering(fn, ev["sp"], ("index",))[:1]
                reads = [e for v in m.views for e in v.body_reads if any(e.node is x for x in inodes)]
                others = [e for v in m.views for e in v.effects if e.kind == "index" and any(e.node is x for x in inodes) and e not in v.body_reads]
                if reads and not others and all(v.enc is None or v.enc.callee in R.CBOR_SER_COUNT and len(v.enc.args) == 2 and v.enc.args[1] == v.data_place for v in m.views if any(e in v.body_reads for e in reads)):
                    return "B-contract", "tail[..n] with n the byte count cbor_serialize_to returned for a writer over this tail (cbor-smol contract: n <= tail.len()), or 0"
            if kind == "call:" + R.SPLIT_AT:
                for x in nodes:
                    if x.get("k") == "mcall" and x.get("callee") == R.SPLIT_AT and all(v.buf_ops[:1] and R.is_grow(m, v.buf_ops[0]) and len(v.split) == 1 and v.split[0].node is x for v in m.views):
                        return "B-pre", "split_at_mut(1) after the buffer was grown to its capacity N >= 1 (the property's precondition)"
            if kind == "assert:overflow:Add" and m.sym.arith.get(ev["sp"]):
                # every pair of operand terms seen on the paths: a slice length or a small literal on each side
                def small(t):
                    return t[0] == "lit" and isinstance(t[1], int) and 0 <= t[1] <= 0xFFFF
                counts = {v.body_len for v in m.views if v.enc is not None and v.enc.callee in R.CBOR_SER_COUNT}

                def length(t):
                    # a slice length, or the byte count the writer form of the encoder returned (at most the tail's length)
                    return t[0] == "call" and t[1] in ("core::slice::<impl [T]>::len",) or t in counts
                seen = m.sym.arith[ev["sp"]]
                if all(op == "+" and ((small(l) and (small(r) or length(r))) or (small(r) and length(l))) for op, l, r in seen):
                    return "B-len1", "on every path the sum is <slice length or literal> + <literal <= 65535> (%d operand pairs): a slice length is at most isize::MAX" % len(seen)
            if kind == "assert:overflow:Add":
                A = Analysis(fn)
                for x in nodes:
                    if x.get("k") == "binary" and x["op"] == "+":
                        l, r = A.subst(x["l"]), A.subst(x["r"])
                        for a, b in ((l, r), (r, l)):
                            one = H.lit(b) == 1 or (b.get("k") == "path" and F.const_value(b["res"].get("path") or "") == 1)
                            if one and a.get("k") == "mcall" and a.get("callee") == "core::slice::<impl [T]>::len":
                                return "B-len1", "slice.len() + 1: a slice length is at most isize::MAX"
            return None, None

        # a body that does not fit must fail as a whole: every hand-written Serialize impl propagates its serializer's errors
        # (a swallowed error inside a nested list would let Response::serialize see Ok for an incomplete body)
        from . import wire as W
        from . import tables as T
        for f in F.fns:
            im = f.get("impl") or {}
            if im.get("trait") == "serde_core::ser::Serialize" and f["name"] == "serialize" and im.get("impl_pv") == "user":
                tyname = im["self_ty"].get("path") or im["self_ty"]["s"]
                callees = {c.get("callee") for c, _, _ in T.ordered_calls(f["body"])}
                if callees & {"serde_core::ser::Serializer::serialize_seq", "serde_core::ser::Serializer::collect_seq"}:
                    se = W.seq_emitter(F, f)
                    ctx.oblige("C17|nested-emitter|" + tyname, se["ok"], "hand-written sequence emitter %s: %s -- a failure inside it may not reach Response::serialize" % (tyname, se.get("why")), cfg=cfg, where=f["sp"])
                elif callees & {"serde_core::ser::Serializer::serialize_map", "serde_core::ser::Serializer::serialize_struct"}:
                    try:
                        W.map_emitter_sym(F, f)
                        okm, whym = True, ""
                    except T.Unreadable as e:
                        okm, whym = False, str(e)
                    ctx.oblige("C17|nested-emitter|" + tyname, okm, "hand-written map emitter %s: %s" % (tyname, whym), cfg=cfg, where=f["sp"])
        nloc = OR.check_root(ctx, F, cfg, "C17", "ctap2::Response::serialize@usize:1024", local_rules, what="while encoding a response")
        ctx.floor("/repo instances reachable from Response::serialize", nloc, 25, cfg=cfg)
