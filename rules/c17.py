"""C17 — a response fits the transport buffer completely or becomes a one-byte error.

Decides (P, E, W, B) on every control-flow path of ctap2::Response::serialize (loop-free; all
paths enumerated):
  * the first operation on the buffer grows it to its capacity, then the status byte and the body
    are split off (`split_first_mut().unwrap()` is discharged by the property's own precondition
    N >= 1 because the grow dominates it);
  * the body is produced only by cbor_serialize(payload, <tail>) — nothing else writes the buffer;
  * the status byte is assigned exactly once on every path: 0 exactly on the Ok path,
    `Error::Other as u8` (= 0x7F from the ADT table) exactly on the Err path;
  * the *last* buffer operation of every path is resize_default(n) with n = 1 on the Err path and
    on the [0xA0] path, n = slice.len() + 1 otherwise (slice = the encoder's returned prefix);
  * no resize result is unwrapped; `l + 1` cannot overflow (l <= N - 1);
  * per response variant (clause shared with C02): a data-bearing variant's arm is
    cbor_serialize(<its own payload>, <tail>), a parameter-less one yields the empty body -- a
    "complete message" is the variant's whole body, in every configuration.
Independence from prior contents follows: every byte of the final [0, n) range is written on the
path that selects n.  Not decided: that cbor_serialize fails rather than truncates (cbor-smol).
"""
import json
import os

from . import hirq as H
from .engine import VERIF
from . import respser as R
from . import oblig_rules as OR
from .oblig_mono import node_at

LEVEL = "other"


def check(ctx, F, cfg, P="C17", clauses="all"):
    m, problems = R.build(F)
    for suffix, msg in problems:
        ctx.oblige("%s|frame|%s" % (P, suffix), False, msg, cfg=cfg)
    if m is None:
        return 0
    A = m.A
    other = F.adt("ctap2::Error")
    other_val = None
    if other:
        other_val = next((v.get("discr") for v in other["variants"] if v["name"] == "Other"), None)
    ctx.oblige("%s|frame|other-code" % P, other_val == 0x7F, "ctap2::Error::Other is %r, not 0x7F" % (other_val,), cfg=cfg, nontrivial=False)
    kinds = set()
    for p in m.paths:
        vs, vpat = R.variant_of(m, p)
        kind, slice_id = R.classify(m, p)
        label = "%s|%s" % ("+".join(vs or ["?"]), kind)
        key = "%s|frame|path|%s" % (P, label)
        where = m.fn["sp"]
        if not ctx.oblige(key + "|classified", kind in ("ok", "ok-a0", "err") and vs is not None and not p.loops and p.done is None,
                          "a path of Response::serialize is not one of {Ok & [0xA0], Ok, Err} (kind=%s, done=%s, loops=%d): %s" % (kind, p.done, p.loops, [A.cond_str(c) for c in p.conds]), cfg=cfg, where=where):
            continue
        kinds.add(kind)
        eff = list(p.effects)
        buf_ops = [e for e in eff if e.get("k") == "mcall" and H.local_id(e["recv"]) == m.buf_id]
        mutating = [e for e in buf_ops if e.get("callee") != R.CAPACITY]
        # 1. grow first
        good = len(mutating) >= 1 and mutating[0].get("callee") == R.RESIZE
        if good:
            a = H.strip_block(mutating[0]["args"][0])
            good = a.get("k") == "mcall" and a.get("callee") == R.CAPACITY and H.local_id(a["recv"]) == m.buf_id
        ctx.oblige(key + "|grow-first", good, "the buffer is not first grown to its full capacity", cfg=cfg, where=where)
        # 2. split second, nothing else on the buffer than grow, split, final resize
        shape_ok = [e.get("callee") for e in mutating] == [R.RESIZE, R.SPLIT, R.RESIZE] and mutating[1] is m.split_node
        ctx.oblige(key + "|buffer-ops", shape_ok, "buffer operations on this path are %s, expected [grow, split_first_mut, final resize]" % [e.get("callee", "?").split("::")[-1] for e in mutating], cfg=cfg, where=where)
        if not shape_ok:
            continue
        # 3. body written only by cbor_serialize into the tail
        sers = [e for e in eff if e.get("callee") in R.CBOR_SER]
        foreign = [e for e in eff if e not in buf_ops and e not in sers and e.get("k") not in ("assign",)]
        ctx.oblige(key + "|only-encoder-writes", not foreign and all(H.local_id(H.call_args(s)[1]) == m.data_id for s in sers) and len(sers) <= 1,
                   "something other than cbor_serialize(payload, <tail after the status byte>) touches the buffer: %s" % [A.desc(e)[:80] for e in foreign], cfg=cfg, where=where)
        # 4. status assigned exactly once, right constant
        assigns = [e for e in eff if e.get("k") in ("assign", "assignop")]
        st = [e for e in assigns if H.local_id(H.strip(e["l"])) == m.status_id]
        good = len(st) == 1 and len(assigns) == 1 and st[0]["k"] == "assign" and H.strip_block(st[0]["l"]).get("k") == "unary"
        val = None
        if good:
            r = H.strip_block(st[0]["r"])
            if kind == "err":
                val = "Other" if (r.get("k") == "cast" and H.ctor(r["e"]) == "ctap2::Error::Other" and r.get("ty") == "u8") else A.desc(r)
                good = val == "Other"
            else:
                val = H.lit(r)
                good = val == 0 and not isinstance(val, bool)
        ctx.oblige(key + "|status", good, "status byte on the %s path is %r (expected %s, assigned exactly once)" % (kind, val, "Error::Other as u8" if kind == "err" else "0"), cfg=cfg, where=where)
        # 5. final length
        last = mutating[-1]
        ctx.oblige(key + "|resize-last", eff[-1] is last or all(e.get("callee") == R.CAPACITY or e.get("k") == "assign" for e in eff[eff.index(last) + 1:]) and eff[-1] is last,
                   "the final resize is not the last operation on the buffer", cfg=cfg, where=where)
        n = H.strip_block(last["args"][0])
        n = A.subst(n)
        if kind in ("err", "ok-a0"):
            good = H.lit(n) == 1
            msg = "on the %s path the message is resized to %s, expected exactly 1 byte" % (kind, A.desc(n))
        else:
            good = False
            if n.get("k") == "binary" and n["op"] == "+":
                l, r = A.subst(n["l"]), A.subst(n["r"])
                for x, y in ((l, r), (r, l)):
                    if H.lit(y) == 1 and x.get("k") == "mcall" and x.get("callee") == "core::slice::<impl [T]>::len" and H.local_id(x["recv"]) == slice_id:
                        good = True
            msg = "on the Ok path the message is resized to %s, expected <written slice>.len() + 1" % A.desc(n)
        ctx.oblige(key + "|final-length", good, msg, cfg=cfg, where=H.line(last))
        # 6. results of the resizes are discarded, never unwrapped
        for i, rz in enumerate((mutating[0], last)):
            ctx.oblige(key + "|resize-discarded|%d" % i, R.discarded(m, rz), "the Result of resize_default is not simply discarded (a panic or an early exit on failure)", cfg=cfg, where=H.line(rz), nontrivial=False)
        ctx.sample({"cfg": cfg, "variants": vs, "path": kind, "conds": [A.cond_str(c) for c in p.conds], "effects": [A.desc(e)[:90] for e in eff]}, limit=24)
    ctx.oblige("%s|frame|all-kinds" % P, kinds >= {"ok", "ok-a0", "err"}, "Response::serialize no longer has the three exits Ok, Ok&[0xA0], Err (found %s)" % sorted(kinds), cfg=cfg)
    # the unwrap on split_first_mut: discharged by N >= 1 + grow-first (recorded as an assumption)
    if m.split_unwrap is not None:
        ctx.note("split_first_mut().unwrap() is discharged by the property's precondition N >= 1: on every path the buffer was grown to capacity first")
    return len(m.paths)


def payload(ctx, F, cfg, spec, P="C17"):
    """body wiring per response variant: a data-bearing variant's arm is cbor_serialize(<its own bound payload>, <tail>),
    a parameter-less one is Ok(<empty slice>) -- in every configuration in which the variant exists"""
    from .wire import erase_lt
    m, problems = R.build(F)
    if m is not None and m.self_match is not None:
        seen = set()
        for a in m.self_match["arms"]:
            pats = a["pat"]["pats"] if a["pat"].get("k") == "or" else [a["pat"]]
            body = H.strip_block(a["body"])
            for p in pats:
                v = (H.pat_ctor(p) or "?").split("::")[-1]
                seen.add(v)
                want = spec["response_variants"].get(v, "?")
                key = "%s|frame|payload|%s" % (P, v)
                if want == "?":
                    ctx.note("Response::%s is not in the specification table: not judged" % v)
                    continue
                if want is None:
                    # Ok(<empty slice>)
                    good = body.get("k") == "call" and body.get("ctor") == R.OK
                    if good:
                        x = H.strip(body["args"][0])
                        if x.get("k") == "mcall" and x.get("callee") in ("core::array::<impl [T; N]>::as_slice", "core::slice::<impl [T]>::as_ref"):
                            x = H.strip(x["recv"])
                        good = x.get("k") == "array" and len(x["elems"]) == 0
                    ctx.oblige(key, good, "parameter-less response %s no longer has an empty body" % v, cfg=cfg, where=a["sp"])
                else:
                    binds = H.pat_bindings(p)
                    good = body.get("callee") in R.CBOR_SER and len(binds) == 1 and H.local_id(H.call_args(body)[0]) == binds[0][1] and H.local_id(H.call_args(body)[1]) == m.data_id
                    ty = (body.get("targs") or [""])[0]
                    ctx.oblige(key, good and erase_lt(ty) == want, "response %s is encoded from %s, expected its own payload of type %s" % (v, ty, want), cfg=cfg, where=a["sp"])
        for v in spec["response_variants"]:
            ctx.oblige("%s|frame|variant|%s" % (P, v), v in seen, "Response::%s has no arm in Response::serialize" % v, cfg=cfg, nontrivial=False)


def run(ctx):
    ctx.explanation = ("All control-flow paths of the loop-free ctap2::Response::serialize are enumerated from typed HIR; on each the ordered operations on the buffer, "
                       "the status byte and the body tail are extracted and decided clause by clause (grow first, split, only the encoder writes the tail, status assigned "
                       "exactly once with the right constant, final resize last with the right length, resize results discarded).")
    ctx.rule = "obligation = (path, clause) per configuration; paths = response-variant arm x {Ok&[0xA0], Ok, Err}"
    ctx.trusted = ["cbor-smol 0.5.1: cbor_serialize returns Err (not a truncated prefix) when the body does not fit, and Ok(prefix written)", "heapless 0.7.17 Vec::resize_default"]
    ctx.assumptions = ["buffer capacity N >= 1 (the property's precondition)", "slice.len() <= N - 1 so slice.len() + 1 cannot overflow"]
    spec = json.load(open(os.path.join(VERIF, "spec", "ctap2_messages.json")))
    for cfg, F in ctx.facts.items():
        n = check(ctx, F, cfg)
        payload(ctx, F, cfg, spec)
        ctx.floor("enumerated paths", n, 3, cfg=cfg)
        # "never panics": obligations in every /repo instance reachable from Response::serialize (monomorphic call graph,
        # instantiated at N = 1024 only to resolve callees; the MIR of serialize::<N> is the same for every N)
        m, _ = R.build(F)

        def local_rules(inst, ev, kind, m=m, F=F):
            if inst["def"] != R.FN or m is None:
                return None, None
            nodes = node_at(m.fn, ev["sp"])
            if kind == "call:core::option::Option::<T>::unwrap" and m.split_unwrap is not None and any(x is m.split_unwrap for x in nodes):
                # every path grows the buffer to capacity before the split (clause grow-first above)
                return "B-pre", "split_first_mut() after resize_default(capacity()) is Some for N >= 1 (the property's precondition)"
            if kind == "assert:overflow:Add":
                for x in nodes:
                    if x.get("k") == "binary" and x["op"] == "+":
                        l, r = m.A.subst(x["l"]), m.A.subst(x["r"])
                        for a, b in ((l, r), (r, l)):
                            if H.lit(b) == 1 and a.get("k") == "mcall" and a.get("callee") == "core::slice::<impl [T]>::len":
                                return "B-len1", "slice.len() + 1: a slice length is at most isize::MAX"
            return None, None

        nloc = OR.check_root(ctx, F, cfg, "C17", "ctap2::Response::serialize@usize:1024", local_rules, what="while encoding a response")
        ctx.floor("/repo instances reachable from Response::serialize", nloc, 25, cfg=cfg)
