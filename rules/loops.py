"""Input-consuming loops (rule kinds P, E): a loop in a decoder must advance its container on every iteration
and may be left only because the container is exhausted (next_*() returned None) or next_*() itself failed.
Decided on path summaries (sym.Sym, one symbolic iteration per loop), so that `while let Some(x) = a.next()?`,
`loop { match a.next()? { Some(x) => .., None => break } }`, `loop { let x = match a.next() { Ok(Some(x)) => x,
Ok(None) => break, Err(e) => return Err(e) }; .. }` and helper-extracted variants are all the same loop."""
from . import hirq as H
from . import sym as S
from .dispatch import strip_conv

NEXT_CALLS = set(H.NEXT_CALLS)


def drains(F, fn, visitor_calls=False):
    """(problems, n_loops): problems is a list of human-readable reasons (empty = every loop drains its container).
    visitor_calls: fn is a decoder that hands a shared visitor to `deserialize_seq`; the visitor's visit_seq is expanded in place."""
    n_loops = len([x for x in H.walk(fn["body"]) if x.get("k") == "loop"])
    sym = S.Sym(F, fn, is_effect=lambda callee, args, node, st: callee in NEXT_CALLS)
    sym.visitor_calls = visitor_calls
    try:
        paths = sym.run()
    except S.TooManyPaths:
        return ["too many paths to enumerate"], n_loops
    # a loop that lives in an expanded helper (`filter_seq(seq, |x| ..)`) counts as the function's loop
    n_loops = max([n_loops] + [p.loops for p in paths])
    problems = []
    for p in paths:
        if not p.loops:
            continue
        nexts = list(p.effects)
        when = [S.show_atom(a) for a in p.atoms][-2:]
        if p.done and p.done[0] == "panic":
            problems.append("can panic inside/after the loop (%s)" % (p.done,))
            continue
        if not nexts:
            problems.append("a loop iteration does not read from the container (termination is not evident)")
            continue
        none_seen = any(sym.lookup(p, N.term) == S.OK and sym.lookup(p, sym.proj(N.term, S.OK, 0)) == S.NONE for N in nexts) or \
            any(sym.lookup(p, N.term) == S.NONE for N in nexts)
        err_seen = [N for N in nexts if sym.lookup(p, N.term) == S.ERR]
        if p.ret_loop_depth > 0:
            r = p.result
            ok = bool(err_seen) and r is not None and r[0] == "ctor" and r[1] == S.ERR and any(strip_conv(r[2][0]) == sym.proj(N.term, S.ERR, 0) for N in err_seen)
            if not ok:
                problems.append("returns from inside the loop when %s (result %s): elements that were not read stay in the input" % (when, S.show(r)[:60]))
            continue
        r0 = p.result
        if err_seen and p.ret_loop_depth == 0 and not (r0 is not None and r0[0] == "ctor" and r0[1] == S.ERR):
            # next_*() failed and the function neither returns from the loop nor fails: the error is swallowed and the loop asks the
            # broken container again
            problems.append("the loop goes on after the container reported an error (when %s): the error is swallowed and termination is not evident" % when)
            continue
        if any(t[0] == "abort" for t in p.trace):
            # try_for_each stopped at a callback error: acceptable only when the function fails with it
            r = p.result
            if not (r is not None and r[0] == "ctor" and r[1] == S.ERR):
                problems.append("the iteration is abandoned at an error when %s but the function goes on (result %s): elements that were not read stay in the input" % (when, S.show(r)[:60]))
            continue
        if any(t[0] == "break" for t in p.trace) and not none_seen:
            problems.append("the loop is left when %s although the container is not known to be exhausted" % when)
    return problems, n_loops
