"""C08 — CTAP1/U2F APDU parsing is total and follows the U2F raw message format.

Decides (P, T, B) on the path summaries of `TryFrom<CommandView> for ctap1::Request` (sym.Sym: helper functions such as an
extracted `parse_register(data)` are expanded at their call sites, named constants are evaluated):
every path is described over four independent inputs -- the class byte, the instruction byte, whether
ControlByte::try_from(p1) succeeds, and the data field, of which the parser only looks at its length L and at the byte at
offset 64 (K).  The comparisons on a path are evaluated as sets: class and instruction by value sets over 0..=255
(valueset), the data conditions over the complete grid (L, K) in [0, 1100] x [0, 255] -- every constant the parser compares
with is far below 1100 and narrowing casts are periodic in 256, so larger lengths behave like one of these.  On every (class, instruction, control byte ok, L, K) the path that admits
it must return what the U2F raw message format prescribes, with the fields taken from exactly the prescribed sub-slices.
B-grid: every slice operation on a path (index, split_at, get, try_into + unwrap) has its bounds precondition checked on
the grid region admitted by the comparisons *before* it; a path that ends in a panic must have an empty region.
Not decided: Lc/Le framing and iso7816::Instruction::from (iso7816, trusted).
"""
import re

from . import hirq as H
from . import sym as S
from . import valueset as VS
from .dispatch import strip_conv

LEVEL = "other"
CONFIGS = ["k0", "k1", "k2", "k3", "k4", "k5", "k6", "k7", "k9", "kL"]      # kL: logging compiled in -- the arguments of a log statement on the parse path must be total too

FN = "<ctap1::Request<'a> as core::convert::TryFrom<iso7816::command::CommandView<'a>>>"
FN2 = "<ctap1::Request<'a> as core::convert::TryFrom<&'a iso7816::command::Command<S>>>"
STATUS = "iso7816::response::status::Status::"
TRY_INTO = "core::convert::TryInto::try_into"
CB_REF = "<ctap1::ControlByte as core::convert::TryFrom<u8>>"
UNKNOWN = "iso7816::command::instruction::Instruction::Unknown"
LMAX = 1100
LEN_CALLS = ("core::slice::<impl [T]>::len",)


def lin_add(a, b, sign=1):
    return (a[0] + sign * b[0], a[1] + sign * b[1], a[2] + sign * b[2])


class Parser:
    """interpretation of the parser's terms: DATA sub-slices as (lo, hi) with affine bounds c + l*L + k*K"""

    def __init__(self, F, fn, sym):
        self.F, self.fn, self.sym = F, fn, sym
        self.classifiers = control_byte_classifiers(F)
        self.apdu = ("param", [n for p in fn["params"] for n, _ in H.pat_bindings(p)][0])
        self.nodes = {}
        for g in [fn] + [F.fn(q) for q in sym.inlined if F.fn(q) is not None]:
            for n in H.walk(g["body"]):
                if n.get("sp") and n.get("k") in ("call", "mcall"):
                    self.nodes.setdefault(n["sp"], n)

    def is_data(self, t):
        return t[0] == "call" and t[1].endswith("CommandView::<'a>::data") and t[2] == (self.apdu,)

    def is_cla(self, t):
        return t[0] == "call" and t[1].endswith("Class::into_inner") and len(t[2]) == 1 and t[2][0][0] == "call" and t[2][0][1].endswith("CommandView::<'a>::class") and t[2][0][2] == (self.apdu,)

    def is_instr(self, t):
        return t[0] == "call" and t[1].endswith("CommandView::<'a>::instruction") and t[2] == (self.apdu,)

    def is_ins(self, t):
        """the instruction byte: the payload of Instruction::Unknown(i), or u8::from(instruction) (iso7816's own conversion, the
        inverse of its From<u8>; for the eleven instructions iso7816 knows by name it yields their byte, none of which is 1, 2 or 3)"""
        if t[0] == "proj" and t[2] == UNKNOWN and t[3] == 0 and self.is_instr(t[1]):
            return True
        return t[0] == "call" and len(t[2]) == 1 and self.is_instr(t[2][0]) and t[1].endswith("::from") and "Instruction" in t[1] and "u8" in t[1]

    def is_cb(self, t):
        return t[0] == "call" and (t[1].startswith(CB_REF) or t[1] in self.classifiers) and t[2] == (("field", self.apdu, "p1"),)

    # ---- slices
    def slice_of(self, t):
        """(lo, hi) of a sub-slice of DATA, or None"""
        if t[0] in ("copy",):
            return self.slice_of(t[1])
        if self.is_data(t):
            return (0, 0, 0), (0, 1, 0)
        if t[0] == "index":
            b = self.slice_of(t[1])
            r = t[2]
            if b is None or r[0] not in ("struct", "call"):
                return None
            lo, hi = b
            if r[0] == "call" and r[1].endswith("RangeInclusive::<Idx>::new") and len(r[2]) == 2:
                a, e = self.lin(r[2][0]), self.lin(r[2][1])
                return None if a is None or e is None else (lin_add(lo, a), lin_add(lin_add(lo, e), (1, 0, 0)))
            if r[0] != "struct":
                return None
            f = dict(r[2])
            name = r[1].split("::")[-1]
            if name == "RangeFull":
                return b
            a = self.lin(f["start"]) if "start" in f else (0, 0, 0)
            e = self.lin(f["end"]) if "end" in f else None
            if a is None or ("end" in f and e is None):
                return None
            nlo = lin_add(lo, a)
            nhi = hi if e is None else lin_add(lo, e)
            if name == "RangeToInclusive" or name == "RangeInclusive":
                nhi = lin_add(nhi, (1, 0, 0))
            return nlo, nhi
        if t[0] == "tproj" and t[1][0] == "call" and t[1][1].endswith("::split_at") and len(t[1][2]) == 2:
            b = self.slice_of(t[1][2][0])
            n = self.lin(t[1][2][1])
            if b is None or n is None:
                return None
            mid = lin_add(b[0], n)
            return (b[0], mid) if t[2] == 0 else (mid, b[1])
        sp_ = self.split_call(t)
        if sp_ is not None:
            kind, base, n, which = sp_
            if kind == "first_chunk":
                mid = lin_add(base[0], (n, 0, 0))
                return (base[0], mid) if which == 0 else (mid, base[1])
            if kind == "last_chunk":
                mid = lin_add(base[1], (n, 0, 0), -1)
                return (base[0], mid) if which == 0 else (mid, base[1])
            if kind == "first" and which == 1:
                return (lin_add(base[0], (1, 0, 0)), base[1])
            if kind == "last" and which == 1:
                return (base[0], lin_add(base[1], (1, 0, 0), -1))
            return None
        if t[0] == "proj" and t[2] == S.OK and t[1][0] == "call" and (t[1][1] == TRY_INTO or "TryFrom<&" in t[1][1] or t[1][1].endswith("::try_into") or t[1][1].endswith("::try_from")) and len(t[1][2]) == 1:
            return self.slice_of(t[1][2][0])
        return None

    SPLITS = {"split_first_chunk": "first_chunk", "split_last_chunk": "last_chunk", "split_first": "first", "split_last": "last"}

    def split_call(self, t):
        """t = <split call>(X)/Some.<which> for the non-panicking splitters of a DATA sub-slice X: (kind, (lo, hi) of X, chunk length, which)"""
        if not (t[0] == "tproj" and t[2] in (0, 1) and t[1][0] == "proj" and t[1][2] == S.SOME and t[1][3] == 0):
            return None
        c = t[1][1]
        if c[0] != "call" or len(c[2]) != 1:
            return None
        kind = self.SPLITS.get(c[1].split("::")[-1]) if c[1].startswith("core::slice::<impl [T]>::") else None
        if kind is None:
            return None
        base = self.slice_of(c[2][0])
        if base is None:
            return None
        n = self.array_len(c) if kind.endswith("chunk") else 1
        if n is None:
            return None
        return kind, base, n, t[2]

    def split_min(self, c):
        """c = a splitter call on a DATA sub-slice: (lo, hi) of the sub-slice and the length it needs to be Some"""
        if c[0] != "call" or len(c[2]) != 1 or not c[1].startswith("core::slice::<impl [T]>::"):
            return None
        kind = self.SPLITS.get(c[1].split("::")[-1])
        base = self.slice_of(c[2][0]) if kind else None
        if base is None:
            return None
        n = self.array_len(c) if kind.endswith("chunk") else 1
        return None if n is None else (base, n)

    def byte_pos(self, t):
        """affine position in DATA of a byte term: data[i], *data.get(i)?, first()"""
        sp_ = self.split_call(t)
        if sp_ is not None and sp_[0] == "first" and sp_[3] == 0:
            return sp_[1][0]
        if sp_ is not None and sp_[0] == "last" and sp_[3] == 0:
            return lin_add(sp_[1][1], (1, 0, 0), -1)
        if t[0] == "index" and not (t[2][0] in ("struct",) or (t[2][0] == "call" and "Range" in t[2][1])):
            b = self.slice_of(t[1])
            i = self.lin(t[2])
            return None if b is None or i is None else lin_add(b[0], i)
        if t[0] == "proj" and t[2] == S.SOME and t[1][0] == "call" and t[1][1].endswith("::get") and len(t[1][2]) == 2:
            b = self.slice_of(t[1][2][0])
            i = self.lin(t[1][2][1])
            return None if b is None or i is None else lin_add(b[0], i)
        return None

    def lin(self, t):
        """affine form (c, l, k) of an integer term over L = len(DATA) and K = DATA[64]"""
        if t[0] == "lit" and isinstance(t[1], int) and not isinstance(t[1], bool):
            return (t[1], 0, 0)
        if t[0] == "cast":
            inner = self.lin(t[1])
            # widening only: a byte (K) or a constant below 256 survives any integer cast; anything with a length component does not survive `as u8`
            if inner is not None and (t[2] not in ("u8", "i8") or (inner[1] == 0 and inner[2] in (0, 1) and (inner[2] == 0 and 0 <= inner[0] < 128 or inner == (0, 0, 1)))):
                return inner
            return None
        if t[0] == "call" and t[1] in LEN_CALLS and len(t[2]) == 1:
            b = self.slice_of(t[2][0])
            return None if b is None else lin_add(b[1], b[0], -1)
        if t[0] == "call" and len(t[2]) == 1 and ("convert::From<u8>" in t[1] or t[1] in ("core::convert::From::from", "core::convert::Into::into")):
            return self.lin(t[2][0])
        if t[0] == "bin" and t[1] in ("+", "-"):
            a, b = self.lin(t[2]), self.lin(t[3])
            return None if a is None or b is None else lin_add(a, b, 1 if t[1] == "+" else -1)
        if t[0] == "bin" and t[1] == "*":
            a, b = self.lin(t[2]), self.lin(t[3])
            if a is not None and b is not None:
                if a[1] == a[2] == 0:
                    return (a[0] * b[0], a[0] * b[1], a[0] * b[2])
                if b[1] == b[2] == 0:
                    return (b[0] * a[0], b[0] * a[1], b[0] * a[2])
            return None
        p = self.byte_pos(t)
        if p == (64, 0, 0):
            return (0, 0, 1)
        return None

    @staticmethod
    def val(a, L, K):
        return a[0] + a[1] * L + a[2] * K

    def fun(self, t):
        """integer term as a function of (L, K): affine forms, plus narrowing casts (mod 2^8) and bit operations on them"""
        if t[0] == "cast":
            f = self.fun(t[1])
            if f is None:
                return None
            if t[2] == "u8":
                return lambda L, K: f(L, K) & 0xFF
            if t[2] == "i8":
                return lambda L, K: ((f(L, K) & 0xFF) ^ 0x80) - 0x80
            if t[2] == "u16":
                return lambda L, K: f(L, K) & 0xFFFF
            return f
        a = self.lin(t)
        if a is not None:
            return lambda L, K: a[0] + a[1] * L + a[2] * K
        if t[0] == "bin" and t[1] in ("+", "-", "*", "&", "|", "^", ">>", "<<", "%", "/"):
            f, g = self.fun(t[2]), self.fun(t[3])
            if f is None or g is None:
                return None
            op = t[1]
            import operator
            fn_ = {"+": operator.add, "-": operator.sub, "*": operator.mul, "&": operator.and_, "|": operator.or_, "^": operator.xor,
                   ">>": operator.rshift, "<<": operator.lshift, "%": lambda x, y: x % y if y else 0, "/": lambda x, y: x // y if y else 0}[op]
            return lambda L, K: fn_(f(L, K), g(L, K))
        if t[0] == "call" and len(t[2]) == 1 and ("convert::From<" in t[1] or t[1] in ("core::convert::From::from", "core::convert::Into::into")):
            return self.fun(t[2][0])
        return None

    # ---- data atoms as predicates over (L, K): returns a function or None (not a data atom) or "unknown"
    def data_pred(self, a):
        k = a[0]
        if k == "true":
            t, pol = a[1], a[2]
            if t[0] == "bin" and t[1] in ("<", "<=", "==", "!="):
                x, y = self.fun(t[2]), self.fun(t[3])
                if x is None or y is None:
                    return "unknown" if self.mentions_data(t) else None
                op = t[1]
                f = {"<": lambda u, v: u < v, "<=": lambda u, v: u <= v, "==": lambda u, v: u == v, "!=": lambda u, v: u != v}[op]
                return lambda L, K: f(x(L, K), y(L, K)) == pol
            if t[0] == "call" and t[1].endswith("::is_empty") and len(t[2]) == 1:
                b = self.slice_of(t[2][0])
                if b is not None:
                    return lambda L, K: (self.val(b[1], L, K) - self.val(b[0], L, K) == 0) == pol
            return "unknown" if self.mentions_data(t) else None
        if k == "eq":
            x, y = self.fun(a[1]), self.fun(a[2])
            if x is not None and y is not None:
                return lambda L, K: (x(L, K) == y(L, K)) == a[3]
            return "unknown" if self.mentions_data(a[1]) or self.mentions_data(a[2]) else None
        if k in ("is", "isnot"):
            t, c = a[1], a[2]
            yes = (k == "is")
            if t[0] == "call" and t[1].endswith("::get") and len(t[2]) == 2:
                b = self.slice_of(t[2][0])
                i = self.lin(t[2][1])
                if b is None or i is None:
                    return "unknown"
                some = c == S.SOME
                return lambda L, K: ((self.val(i, L, K) < self.val(b[1], L, K) - self.val(b[0], L, K)) == some) == yes
            sm = self.split_min(t)
            if sm is not None:
                (blo, bhi), need = sm
                some = c == S.SOME
                return lambda L, K: ((self.val(bhi, L, K) - self.val(blo, L, K) >= need) == some) == yes
            if t[0] == "call" and (t[1] == TRY_INTO or t[1].endswith("::try_into") or "TryFrom<&" in t[1]) and len(t[2]) == 1 and self.slice_of(t[2][0]) is not None:
                b = self.slice_of(t[2][0])
                n = self.array_len(t)
                if n is None:
                    return "unknown"
                ok = c == S.OK
                return lambda L, K: ((self.val(b[1], L, K) - self.val(b[0], L, K) == n) == ok) == yes
            return "unknown" if self.mentions_data(t) else None
        if k == "in":
            x = self.lin(a[1])
            if x is not None:
                lo, hi, pol = a[2], a[3], a[4]
                return lambda L, K: ((lo is None or lo <= self.val(x, L, K)) and (hi is None or self.val(x, L, K) <= hi)) == pol
            return "unknown" if self.mentions_data(a[1]) else None
        return "unknown" if self.mentions_data(a[1]) else None

    def array_len(self, t):
        """N of the `&[u8; N]` a try_into call converts to (from the call node's type)"""
        sp = (t[3] if len(t) > 3 else "").split("@")[0]
        n = self.nodes.get(sp)
        ty = (n or {}).get("ty") or ""
        m = re.search(r"\[u8; (\d+)\]", ty)
        return int(m.group(1)) if m else None

    def mentions_data(self, t):
        return any(self.is_data(x) for x in S.subterms(t))


GRID = [(L, K) for L in range(LMAX + 1) for K in range(256)]


def region(P, atoms):
    """grid points admitted by the data atoms among `atoms`; (set, unread atoms)"""
    preds = []
    bad = []
    for a in atoms:
        f = P.data_pred(a)
        if f is None:
            continue
        if f == "unknown":
            bad.append(a)
            continue
        preds.append(f)
    if not preds:
        return None, bad     # None = the whole grid
    pts = GRID
    for f in preds:
        pts = [pt for pt in pts if f(pt[0], pt[1])]
    return set(pts), bad


_CACHE = {}


def control_byte_classifiers(F):
    """the functions that decide whether P1 is a control byte: TryFrom<u8> for ControlByte and any other hand-written
    u8 -> Option/Result<ControlByte> (`ControlByte::from_p1`); they are not expanded, their table is a clause of its own"""
    out = []
    for f in F.fns:
        if (f.get("pv") or "user") == "user" and f.get("inputs") == ["u8"] and re.search(r"^core::(option::Option|result::Result)<ctap1::ControlByte\b", f.get("output") or ""):
            out.append(f["path"])
    return out


def analyse(F, fn):
    """decoded paths of the parser; cached per function text (the parser is the same in every feature configuration)"""
    cb_fn = F.trait_impl_fn(CB_REF, "try_from")
    cb_path = cb_fn["path"] if cb_fn else None
    holder = {}

    def inline(path, node):
        f = holder["sym"].body_for(path)
        return f is not None and (f.get("pv") or "user") == "user" and path != cb_path and path not in control_byte_classifiers(F)

    def is_effect(callee, args, node, st):
        if callee == "<index>":
            return True
        m = (callee or "").split("::")[-1]
        if m in ("split_first", "split_last") and (callee or "").startswith("core::slice::<impl [T]>::"):
            return False      # Option-returning, cannot go out of bounds
        return m in ("split_at", "split_at_mut", "copy_from_slice", "split_first", "split_last", "get_unchecked")

    sym = S.Sym(F, fn, is_effect=is_effect, inline=inline)
    holder["sym"] = sym
    paths = sym.run(split_result=True)
    key = repr([(p.atoms, p.result, p.done, [(e.kind, e.callee, e.args, e.natoms) for e in p.effects]) for p in paths])
    if key in _CACHE:
        return _CACHE[key]
    P = Parser(F, fn, sym)
    out = []
    for p in paths:
        d = {"p": p, "unread": []}
        cla = [x for a in p.atoms for x in S.subterms(a[1]) if P.is_cla(x)]
        cla_t = cla[0] if cla else None
        ins_known = sym.lookup(p, next((x for a in p.atoms for x in S.subterms(a[1]) if P.is_instr(x)), ("x",)))
        ins_t = next((x for a in p.atoms for x in S.subterms(a[1]) if P.is_ins(x)), None)
        d["cla"], bad1 = VS.path_set([a for a in p.atoms if cla_t is not None and VS.mentions(a[1], cla_t)], cla_t, range(256)) if cla_t is not None else (set(range(256)), [])
        if (ins_known is not None and ins_known != UNKNOWN) or any(a[0] == "isnot" and P.is_instr(a[1]) and a[2] == UNKNOWN for a in p.atoms):
            d["ins"] = None          # not an Unknown(..) instruction
            bad2 = []
        elif ins_t is not None:
            d["ins"], bad2 = VS.path_set([a for a in p.atoms if VS.mentions(a[1], ins_t)], ins_t, range(256))
        else:
            d["ins"], bad2 = set(range(256)), []
        cbs = [a for a in p.atoms if a[0] in ("is", "isnot") and P.is_cb(a[1])]
        d["cb"] = None
        d["cb_term"] = cbs[0][1] if cbs else None
        if cbs:
            d["cb"] = sym.lookup(p, cbs[0][1]) in (S.OK, S.SOME)
        data_atoms = []
        for i, a in enumerate(p.atoms):
            if is_log_atom(a):
                continue          # whether a log statement is enabled (configuration kL) decides nothing about the result
            if cla_t is not None and VS.mentions(a[1], cla_t) or ins_t is not None and VS.mentions(a[1], ins_t) or a in cbs or (a[0] in ("is", "isnot") and P.is_instr(a[1])):
                continue
            data_atoms.append((i, a))
        d["region"], bad3 = region(P, [a for _, a in data_atoms])
        d["unread"] = bad1 + bad2 + bad3 + [a for _, a in data_atoms if P.data_pred(a) is None]
        # obligations: bounds of every slice operation, on the region admitted by the atoms that precede it
        obs = []
        for e in p.effects:
            pre = [a for i, a in data_atoms if i < e.natoms]
            reg, _ = region(P, pre)
            cond = None
            what = S.show(e.term if e.term is not None else e.args[0])[:70]
            if e.kind == "index":
                base, idx = e.args
                b = P.slice_of(base)
                whole = P.slice_of(("index", base, idx))
                pos = P.byte_pos(("index", base, idx))
                if b is not None and whole is not None:
                    cond = lambda L, K, b=b, w=whole: P.val(b[0], L, K) <= P.val(w[0], L, K) <= P.val(w[1], L, K) <= P.val(b[1], L, K)
                elif b is not None and pos is not None:
                    cond = lambda L, K, b=b, q=pos: P.val(b[0], L, K) <= P.val(q, L, K) < P.val(b[1], L, K)
                what = S.show(("index", base, idx))[:70]
            elif (e.callee or "").endswith("::split_at"):
                b = P.slice_of(e.args[0])
                n = P.lin(e.args[1])
                if b is not None and n is not None:
                    cond = lambda L, K, b=b, n=n: 0 <= P.val(n, L, K) <= P.val(b[1], L, K) - P.val(b[0], L, K)
            pts = GRID if reg is None else reg
            if cond is None:
                obs.append((what, False, "bounds of this slice operation are not affine in the data length"))
            else:
                badpt = next((pt for pt in pts if not cond(pt[0], pt[1])), None)
                obs.append((what, badpt is None, "out of bounds for a data field of %s bytes%s" % (badpt[0], " whose byte 64 is %d" % badpt[1] if badpt and badpt[1] else "") if badpt else ""))
        d["obligations"] = obs
        r = p.result
        d["outcome"] = "panic" if (p.done and p.done[0] == "panic") or p.done == "diverge" else "ok" if r and r[0] == "ctor" and r[1] == S.OK else "err" if r and r[0] == "ctor" and r[1] == S.ERR else "other"
        d["value"] = r[2][0] if d["outcome"] in ("ok", "err") and r[2] else None
        out.append(d)
    # paths that differ only in whether a log statement was enabled are one path of the parser; the bounds obligations of the
    # arguments of the log statement (evaluated only when it is enabled) are kept
    merged, order = {}, []
    for d in out:
        k2 = (tuple(a for a in d["p"].atoms if not is_log_atom(a)), d["p"].result, d["p"].done)
        if k2 in merged:
            have = {(w, ok, why) for w, ok, why in merged[k2]["obligations"]}
            merged[k2]["obligations"] = merged[k2]["obligations"] + [o for o in d["obligations"] if o not in have]
            merged[k2]["unread"] = merged[k2]["unread"] + [u for u in d["unread"] if u not in merged[k2]["unread"]]
        else:
            merged[k2] = d
            order.append(k2)
    out = [merged[k2] for k2 in order]
    res = (sym, P, out)
    _CACHE[key] = res
    return res


def is_log_atom(a):
    """a path condition of the `log` crate's level filter (`Debug <= log::max_level()`), present when logging is compiled in"""
    return any(x[0] in ("call", "path", "static", "const") and len(x) > 1 and isinstance(x[1], str) and x[1].startswith("log::") for x in S.subterms(a[1]))


def expected(ins, cb_ok, L, K):
    """the U2F raw message format: what the parser must return for class 0"""
    if ins == 3:
        return ("ok", "Version")
    if ins == 1:
        return ("ok", "Register") if L == 64 else ("err", "IncorrectDataParameter")
    if ins == 2:
        if not cb_ok or L < 65 or L != 65 + K:
            return ("err", "IncorrectDataParameter")
        return ("ok", "Authenticate")
    return ("err", "InstructionNotSupportedOrInvalid")


FIELDS = {
    "Register": {"challenge": ((0, 0, 0), (32, 0, 0)), "app_id": ((32, 0, 0), (64, 0, 0))},
    "Authenticate": {"challenge": ((0, 0, 0), (32, 0, 0)), "app_id": ((32, 0, 0), (64, 0, 0)), "key_handle": ((65, 0, 0), (0, 1, 0))},
}


def run(ctx):
    ctx.explanation = ("Path summaries of the APDU parser (typed HIR, helpers expanded, constants evaluated); the comparisons on each path evaluated as sets over the class byte, the instruction byte, "
                       "the outcome of ControlByte::try_from(p1) and the complete grid (data length 0..=1100) x (byte 64: 0..=255); on every combination the admitting path must return what the U2F raw "
                       "message format prescribes, with fields from the prescribed sub-slices; bounds of every slice operation checked on the region admitted before it. No execution of the parser, no solver.")
    ctx.rule = "obligation = (path, clause) | (instruction class x control-byte outcome x grid) | (slice operation), per configuration"
    ctx.trusted = ["iso7816 0.1.4: CommandView accessors, Lc/Le framing, Instruction::from (1, 2, 3 are Unknown(_)) and its inverse From<Instruction> for u8", "core slice indexing / split_at / get / TryFrom<&[T]> for &[T; N] semantics"]
    ctx.assumptions = ["every constant the parser compares the data length with is < 1100 - 2*256 (checked: larger constants make the analysis report the path as unread)"]
    from . import ftable as FT
    for cfg, F in ctx.facts.items():
        fn = F.trait_impl_fn(FN, "try_from")
        if not ctx.oblige("C08|anchor", fn is not None, "anchor missing: TryFrom<CommandView> for ctap1::Request", cfg=cfg):
            continue
        where = fn["sp"]
        try:
            sym, P, paths = analyse(F, fn)
        except S.TooManyPaths:
            ctx.violation("C08|paths", "the APDU parser has too many paths to enumerate", cfg=cfg, where=where)
            continue
        # constants out of the grid's range would make the grid incomplete
        big = [x for d in paths for a in d["p"].atoms for x in S.subterms(a[1]) if x[0] == "lit" and isinstance(x[1], int) and not isinstance(x[1], bool) and x[1] >= LMAX - 512 and P.mentions_data(a[1])]
        ctx.oblige("C08|grid-complete", not big, "the parser compares the data field with %s: beyond the analysed grid" % [b[1] for b in big][:3], cfg=cfg, where=where, nontrivial=False)
        unread = [a for d in paths for a in d["unread"]]
        ctx.oblige("C08|readable", not unread, "the parser decides on conditions that are not comparisons of class, instruction, P1 validity, data length or data[64]: %s" % sorted({S.show_atom(a) for a in unread})[:3], cfg=cfg, where=where)
        # 0. the instruction byte: a non-Unknown instruction is treated as an unsupported one
        for i, d in enumerate(paths):
            if d["ins"] is None and d["outcome"] != "panic" and (not d["cla"] or 0 in d["cla"]):
                v = d["value"]
                ctx.oblige("C08|ins-byte|%d" % i, d["outcome"] == "err" and v == ("ctor", STATUS + "InstructionNotSupportedOrInvalid", ()) if 0 in d["cla"] and len(d["cla"]) == 1 else True,
                           "an instruction that iso7816 already recognises is answered with %s" % S.show(d["p"].result)[:60], cfg=cfg, where=where, nontrivial=False)
        # 1. B-grid: slice obligations and panic paths
        n_ob = 0
        for i, d in enumerate(paths):
            for what, ok, why in d["obligations"]:
                n_ob += 1
                ctx.oblige("C08|bounds|%s" % what, ok, "slice access %s can be out of bounds: %s" % (what, why), cfg=cfg, where=where)
            if d["outcome"] == "panic":
                n_ob += 1
                reg = d["region"]
                empty = reg is not None and not reg
                pt = None if empty else (next(iter(sorted(reg))) if reg else (0, 0))
                ctx.oblige("C08|unwrap|%s" % str(d["p"].done[1])[-40:], empty or not d["ins"] or not d["cla"],
                           "the parser can panic at %s (%s), e.g. for a data field of %s bytes" % (d["p"].done[1], d["p"].done[2].split("::")[-1], pt[0] if pt else "?"), cfg=cfg, where=where)
        ctx.extra.setdefault("slice_obligations", {})[cfg] = n_ob
        # 2. decision table: class
        live = [d for d in paths if d["outcome"] != "panic"]
        for i, d in enumerate(live):
            v = d["value"]
            is_cls_err = d["outcome"] == "err" and v == ("ctor", STATUS + "ClassNotSupported", ())
            nz = d["cla"] - {0}
            if nz:
                ctx.oblige("C08|class|site|%d" % i, is_cls_err and 0 not in d["cla"] and d["ins"] != set() and d["region"] is None and d["cb"] is None if True else True,
                           "class != 0 -> ClassNotSupported is not decided by the class byte alone (path admits class %s, returns %s%s)" % (sorted(d["cla"])[:3], S.show(d["p"].result)[:50], ", after looking at the instruction/data" if (d["region"] is not None or d["cb"] is not None) else ""), cfg=cfg, where=where)
            else:
                ctx.oblige("C08|class|precedence|%d" % i, not is_cls_err, "ClassNotSupported is returned for class 0", cfg=cfg, where=where, nontrivial=False)
        covered = set().union(*[d["cla"] for d in live]) if live else set()
        ctx.oblige("C08|class|total", covered == set(range(256)), "class bytes %s reach no result" % sorted(set(range(256)) - covered)[:4], cfg=cfg, where=where, nontrivial=False)
        # 3. decision table for class 0: instruction x control byte x grid
        zero = [d for d in live if 0 in d["cla"] and d["ins"] is not None]
        for ins_class, ins_vals in (("ins1", [1]), ("ins2", [2]), ("version", [3]), ("default", [0, 4, 5, 127, 128, 255])):
            for ins in ins_vals:
                for cb in (True, False):
                    sel = [d for d in zero if ins in d["ins"] and (d["cb"] is None or d["cb"] == cb)]
                    # every grid point must be admitted by exactly one of them, with the prescribed outcome
                    seen = {}
                    wrong = None
                    for d in sel:
                        pts = GRID if d["region"] is None else d["region"]
                        v = d["value"]
                        name = v[1].split("::")[-1] if v and v[0] == "ctor" else None
                        if d["outcome"] == "err" and d["cb_term"] is not None and d["cb"] is False and v is not None and strip_conv(v) == sym.proj(d["cb_term"], S.ERR, 0):
                            name = "IncorrectDataParameter"     # the control byte's own rejection (its table is clause control-byte|table)
                        got = (d["outcome"], name)
                        if wrong is None:
                            # compare on the corner points of the region first, then all of it
                            for (L, K) in pts:
                                if got != expected(ins, cb, L, K):
                                    wrong = (L, K, got, expected(ins, cb, L, K))
                                    break
                        for pt in (pts if len(sel) > 1 else ()):
                            seen[pt] = seen.get(pt, 0) + 1
                    total = sum(len(GRID) if d["region"] is None else len(d["region"]) for d in sel)
                    key = "C08|%s|table|ins=%d|p1-%s" % (ins_class, ins, "valid" if cb else "invalid")
                    ctx.oblige(key, wrong is None and total == len(GRID),
                               ("instruction %d (P1 %s): a data field of %d bytes%s is answered with %s, the raw message format says %s" % (ins, "valid" if cb else "invalid", wrong[0], " whose byte 64 is %d" % wrong[1] if ins == 2 else "", wrong[2], wrong[3])) if wrong else
                               "instruction %d (P1 %s): %d of %d (length, byte 64) combinations reach a result" % (ins, "valid" if cb else "invalid", total, len(GRID)), cfg=cfg, where=where)
        # 4. fields of the successful requests
        for d in zero:
            v = d["value"]
            if d["outcome"] != "ok" or not v or v[0] != "ctor":
                continue
            name = v[1].split("::")[-1]
            if name not in FIELDS:
                continue
            st = v[2][0] if v[2] else None
            fl = dict(st[2]) if st and st[0] == "struct" else {}
            for fname, want in FIELDS[name].items():
                got = P.slice_of(fl[fname]) if fname in fl else None
                if got is not None and name == "Register" and fname == "app_id" and got == ((32, 0, 0), (0, 1, 0)):
                    got = want      # data[32..] with len == 64
                ctx.oblige("C08|%s|field|%s" % ("ins1" if name == "Register" else "ins2", fname), got == want,
                           "%s.%s is taken from %s, the raw message format says data[%d..%s]" % (name, fname, S.show(fl.get(fname))[:70] if fname in fl else "nothing", want[0][0], want[1][0] if not want[1][1] else ""), cfg=cfg, where=where)
            if name == "Authenticate":
                cb = fl.get("control_byte")
                ctx.oblige("C08|ins2|field|control_byte", d["cb_term"] is not None and cb in (sym.proj(d["cb_term"], S.OK, 0), sym.proj(d["cb_term"], S.SOME, 0)), "control_byte is not the validated P1 (%s)" % S.show(cb)[:60], cfg=cfg, where=where)
            ctx.sample({"cfg": cfg, "request": name, "when": [S.show_atom(a) for a in d["p"].atoms][-4:]}, limit=6)
        known = {STATUS + "ClassNotSupported", STATUS + "IncorrectDataParameter", STATUS + "InstructionNotSupportedOrInvalid", "ctap1::Request::Version", "ctap1::Request::Register", "ctap1::Request::Authenticate"}
        for i, d in enumerate(live):
            v = d["value"]
            cb_err = d["cb_term"] is not None and v is not None and strip_conv(v) == sym.proj(d["cb_term"], S.ERR, 0)
            ctx.oblige("C08|closed|%d" % i, cb_err or (v is not None and v[0] == "ctor" and v[1] in known), "unexpected result %s" % S.show(d["p"].result)[:60], cfg=cfg, where=where, nontrivial=False)
        # 5. arithmetic: every sum / product in the parser is bounded by the grid (no component in L), so it cannot overflow
        for sp, seen in sorted(sym.arith.items(), key=lambda kv: str(kv[0])):
            for op, l, r in seen:
                a, b = P.lin(l), P.lin(r)
                small = a is not None and b is not None and a[1] == b[1] == 0 and op in ("+", "*")
                ctx.oblige("C08|arith|%s" % S.show(("bin", op, l, r))[:60], small, "arithmetic %s may overflow / underflow" % S.show(("bin", op, l, r))[:80], cfg=cfg, where=sp, nontrivial=False)
        ctx.floor("paths of the parser", len(paths), 8, cfg=cfg)
        ctx.extra.setdefault("helpers_expanded", {})[cfg] = sorted(sym.inlined)
        # 7. control byte table
        cb = F.trait_impl_fn(CB_REF, "try_from")
        if ctx.oblige("C08|control-byte|anchor", cb is not None, "anchor missing: TryFrom<u8> for ControlByte", cfg=cfg):
            try:
                tab = FT.value_table(F, cb, range(256))
                acc = {b for b, r in tab.items() if FT.classify(r)[0] == "ok"}
                rej = {(FT.classify(r)[1] or ("x", None))[1] for b, r in tab.items() if b not in acc}
                ctx.oblige("C08|control-byte|table", acc == {3, 7, 8} and rej == {STATUS + "IncorrectDataParameter"}, "control bytes accepted: %s, rejection: %s" % (sorted(acc), rej), cfg=cfg, where=cb["sp"])
            except FT.Unreadable as e:
                ctx.violation("C08|control-byte|unreadable", "UNREADABLE-IMPL: %s" % e, cfg=cfg)
        for cpath in control_byte_classifiers(F):
            if cb is not None and cpath == cb["path"]:
                continue
            cf = F.fn(cpath)
            try:
                tab = FT.value_table(F, cf, range(256))
                acc = set()
                for b, r in tab.items():
                    kind, pay = FT.classify(r)
                    if kind == "ok" or (kind == "value" and r is not None and r[0] == "ctor" and r[1] == S.SOME):
                        acc.add(b)
                ctx.oblige("C08|control-byte|table|" + cpath, acc == {3, 7, 8}, "%s accepts the control bytes %s" % (cpath, sorted(acc)), cfg=cfg, where=cf["sp"])
            except FT.Unreadable as e:
                ctx.violation("C08|control-byte|unreadable|" + cpath, "UNREADABLE-IMPL: %s" % e, cfg=cfg)
        # 8. Command<S> delegates to the view
        f2 = F.trait_impl_fn(FN2, "try_from")
        good = False
        if f2 is not None:
            ps = S.Sym(F, f2, is_effect=lambda callee, args, node, st: True, inline=lambda path, node: False).run()
            if len(ps) == 1 and not ps[0].atoms:
                r = ps[0].result
                pn = [n for p in f2["params"] for n, _ in H.pat_bindings(p)]
                conv_ok = r is not None and r[0] == "call" and (r[1] == fn["path"] or r[1].endswith("::try_into") or r[1].endswith("::try_from"))
                # the conversion target is fixed by the types: CommandView -> ctap1::Request has exactly one impl (the parser)
                node = next((x for x in H.walk(f2["body"]) if x.get("k") in ("call", "mcall") and x.get("callee") in ("core::convert::TryInto::try_into", "core::convert::TryFrom::try_from")), None)
                ta = (node or {}).get("targs") or []
                tys_ok = node is not None and any("CommandView" in t for t in ta) and any(t.startswith("ctap1::Request") for t in ta)
                good = conv_ok and tys_ok and len(r[2]) == 1 and r[2][0][0] == "call" and r[2][0][1].endswith("::as_view") and r[2][0][2] == (("param", pn[0]),)
        ctx.oblige("C08|command-delegates", good, "TryFrom<&Command<S>> does not delegate to the CommandView parser", cfg=cfg)
