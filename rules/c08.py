"""C08 — CTAP1/U2F APDU parsing is total and follows the U2F raw message format.

Decides (P, T, B) from the path literals of every result site of
`TryFrom<CommandView> for ctap1::Request`:
  * class != 0 -> ClassNotSupported, and that guard dominates every other result (precedence);
  * instruction 3 -> Version on a site that depends on nothing but class and instruction;
  * instruction 1 -> Register iff data.len() == 64, fields at [..32] and [32..];
  * instruction 2 -> Authenticate iff ControlByte::try_from(p1) succeeds, data.len() >= 65 and
    data.len() == 65 + data[64]; fields at [..32], [32..64], [65..];
  * within each instruction arm the error sites are exactly the single negations of the success
    site's guard chain (so: success iff all guards hold, IncorrectDataParameter otherwise);
  * any other instruction -> InstructionNotSupportedOrInvalid;
  * B-guard: every index / constant range / try_into().unwrap() in the parser is discharged by an
    interval fact on data.len() derived from the dominating guards (this forces the guards to be
    exact: `!= 64` weakened to `< 64` leaves data[32..] of unknown length and the obligation open);
  * `TryFrom<&Command<S>>` delegates to the view parser.
Not decided: Lc/Le framing and iso7816::Instruction::from (iso7816, trusted).
"""
from . import hirq as H
from . import tables as T
from . import obligations as O
from .pathcond import Analysis, OK, ERR

LEVEL = "other"

FN = "<ctap1::Request<'a> as core::convert::TryFrom<iso7816::command::CommandView<'a>>>"
FN2 = "<ctap1::Request<'a> as core::convert::TryFrom<&'a iso7816::command::Command<S>>>"
STATUS = "iso7816::response::status::Status::"
CLA = "iso7816::command::class::Class::into_inner(iso7816::command::CommandView::<'a>::class(param:apdu))"
INSTR = "iso7816::command::CommandView::<'a>::instruction(param:apdu)"
INS = "match(%s)" % INSTR
DATA = "iso7816::command::CommandView::<'a>::data(param:apdu)"
LEN = "core::slice::<impl [T]>::len(%s)" % DATA
TRY_INTO = "core::convert::TryInto::try_into"


def lit_of(A, c, F=None):
    """canonical literal: ('cmp', l, op, r) | ('ins', frozenset(values) , negated) | None"""
    if c.kind == "expr":
        t = A.comparison(c)
        if t:
            l, op, r = t
            if l == INS and op in ("==", "!="):
                try:
                    return ("ins", frozenset([int(r)]), op == "!=")
                except ValueError:
                    pass
            return ("cmp", l, op, r)
        return ("expr", A.desc(c.e), c.pol)
    if c.kind == "match" and A.desc(c.scrut) == INS:
        try:
            if H.pat_is_catchall(c.pat):
                vals = set()
                for q in c.prior:
                    vals |= T.pat_values(q, F)[0]
                return ("ins", frozenset(vals), True)
            return ("ins", frozenset(T.pat_values(c.pat, F)[0]), False)
        except T.Unreadable:
            return None
    return None


def neg(l):
    if l[0] == "cmp":
        return ("cmp", l[1], {"==": "!=", "!=": "==", "<": ">=", ">=": "<", ">": "<=", "<=": ">"}[l[3 - 1]], l[3])
    return None


def slice_field(A, node):
    """('slice', a, b) for DATA[a..b] through try_into().unwrap() or plain slicing; else None"""
    n = H.strip(node)
    arr = False
    if n.get("k") == "mcall" and n.get("callee") in O.UNWRAPS:
        n = H.strip(n["recv"])
        if n.get("k") in ("mcall", "call") and n.get("callee") == TRY_INTO:
            arr = True
            n = H.strip(H.call_args(n)[0])
    if n.get("k") == "index" and A.desc(n["base"]) == DATA:
        r = O.range_of(n["idx"])
        if r and r[0] == "range":
            return (r[1], r[2], arr)
    return None


def run(ctx):
    ctx.explanation = ("Path-literal analysis of the APDU parser: every result site and `?` site with the canonicalised branch literals that dominate it (typed HIR, let-substituted), "
                       "compared as sets with the literals the U2F raw message format requires; guard-chain rule for totality; interval discharge of every slice obligation. No execution, no solver.")
    ctx.rule = "obligation = (result site, literal) | (guard chain position) | (slice obligation), per configuration"
    ctx.trusted = ["iso7816 0.1.4: CommandView accessors, Lc/Le framing, Instruction::from (1, 2, 3 are Unknown(_))", "core slice indexing / TryFrom<&[T]> for &[T; N] semantics"]
    ctx.assumptions = ["usize-typed terms are >= 0 (so len == 65 + t implies len >= 65)"]
    for cfg, F in ctx.facts.items():
        fn = F.trait_impl_fn(FN, "try_from")
        if not ctx.oblige("C08|anchor", fn is not None, "anchor missing: TryFrom<CommandView> for ctap1::Request", cfg=cfg):
            continue
        A = Analysis(fn, point_pred=O.is_slice_point)
        where = fn["sp"]
        # ---- the instruction byte
        ins_ok = False
        for lid, init in A.env.items():
            i = H.strip_block(init)
            if i.get("k") == "match" and A.desc(i["scrut"]) == INSTR:
                arms = i["arms"]
                if len(arms) == 2:
                    p0 = arms[0]["pat"]
                    b0 = H.pat_bindings(p0)
                    v1 = H.lit(arms[1]["body"])
                    ins_ok = (H.pat_ctor(p0) or "").endswith("Instruction::Unknown") and len(b0) == 1 and H.local_id(arms[0]["body"]) == b0[0][1] \
                        and H.pat_is_catchall(arms[1]["pat"]) and isinstance(v1, int) and v1 not in (1, 2, 3)
        ctx.oblige("C08|ins-byte", ins_ok, "the instruction byte is no longer `Unknown(b) => b, _ => <a value outside {1,2,3}>`", cfg=cfg, where=where)
        # ---- classify sites
        sites = []
        for s in A.sites:
            lits = [lit_of(A, c, F) for c in s.conds]
            node = H.strip_block(s.node) if s.node else {}
            c = H.ctor(node) or ""
            sites.append({"s": s, "lits": lits, "ctor": c, "node": node, "kind": "ok" if s.wrappers == [OK] else "err" if s.wrappers == [ERR] else "?"})
        n_sites = len(sites) + len(A.tries)
        unread = [x for x in sites if None in x["lits"] or x["kind"] == "?"]
        ctx.oblige("C08|readable", not unread, "result sites with unrecognised guards: %s" % [A.site_str(x["s"]) for x in unread], cfg=cfg, where=where)
        cla0 = ("cmp", CLA, "==", "0")
        # 1. class check
        cls = [x for x in sites if x["ctor"] == STATUS + "ClassNotSupported"]
        ctx.oblige("C08|class|site", len(cls) == 1 and cls[0]["kind"] == "err" and cls[0]["lits"] == [("cmp", CLA, "!=", "0")],
                   "class != 0 -> ClassNotSupported is not decided by the class byte alone: %s" % [A.site_str(x["s"]) for x in cls], cfg=cfg, where=where)
        for x in sites:
            if x in cls:
                continue
            ctx.oblige("C08|class|precedence|%d" % x["s"].seq, cla0 in x["lits"], "result %s is reachable before the class check" % A.site_str(x["s"])["result"][:60], cfg=cfg, where=H.line(x["node"]), nontrivial=False)
        for t in A.tries:
            ctx.oblige("C08|class|precedence|try%d" % t.seq, cla0 in [lit_of(A, c, F) for c in t.conds], "an error exit is reachable before the class check", cfg=cfg, where=H.line(t.node), nontrivial=False)

        def ins_of(lits):
            """set of instruction values admitted by the literals (over 0..255)"""
            vals = set(range(256))
            for l in lits:
                if l and l[0] == "ins":
                    vals = vals - l[1] if l[2] else vals & l[1]
            return vals

        def others(lits):
            return [l for l in lits if l and l[0] != "ins" and l != cla0]

        # 2. Version
        ver = [x for x in sites if x["ctor"] == "ctap1::Request::Version" and x["kind"] == "ok"]
        pure = [x for x in ver if ins_of(x["lits"]) == {3} and not others(x["lits"])]
        ctx.oblige("C08|version", len(pure) >= 1 and all(ins_of(x["lits"]) <= {3} for x in ver),
                   "instruction 3 does not yield Version on a path that depends on class and instruction only", cfg=cfg, where=where)
        # 3./4. Register / Authenticate arms
        spec = {
            1: {"ctor": "ctap1::Request::Register", "guards": [("cmp", LEN, "==", "64")], "tries": 0,
                "fields": {"challenge": (0, 32, True), "app_id": (32, None, True)}, "app_id_alt": (32, 64, True)},
            2: {"ctor": "ctap1::Request::Authenticate", "guards": [("cmp", LEN, ">=", "65"), ("cmp", LEN, "==", "(65 + (%s[64] as usize))" % DATA)], "tries": 1,
                "fields": {"challenge": (0, 32, True), "app_id": (32, 64, True), "key_handle": (65, None, False)}},
        }
        for v, sp in spec.items():
            key = "C08|ins%d" % v
            arm = [x for x in sites if ins_of(x["lits"]) == {v}]
            oks = [x for x in arm if x["kind"] == "ok"]
            errs = [x for x in arm if x["kind"] == "err"]
            if not ctx.oblige(key + "|one-success", len(oks) == 1 and oks[0]["ctor"] == sp["ctor"], "instruction %d has %d success sites (%s)" % (v, len(oks), [x["ctor"] for x in oks]), cfg=cfg, where=where):
                continue
            ok = oks[0]
            g = others(ok["lits"])
            ctx.oblige(key + "|guards", g == sp["guards"], "instruction %d succeeds under %s, the raw message format requires %s" % (v, g, sp["guards"]), cfg=cfg, where=H.line(ok["node"]))
            # guard chain: error sites are the single negations
            want_err = [g[:i] + [neg(g[i])] for i in range(len(g))]
            got_err = [others(x["lits"]) for x in errs]
            ctx.oblige(key + "|guard-chain", sorted(map(str, got_err)) == sorted(map(str, want_err)),
                       "instruction %d: error exits %s are not exactly the single negations %s of the success guards (some inputs are mis-classified)" % (v, got_err, want_err), cfg=cfg, where=where)
            for x in errs:
                ctx.oblige(key + "|error-code|%d" % x["s"].seq, x["ctor"] == STATUS + "IncorrectDataParameter", "instruction %d length error is reported as %s" % (v, x["ctor"]), cfg=cfg, where=H.line(x["node"]))
            # `?` exits in the arm
            tr = [t for t in A.tries if ins_of([lit_of(A, c, F) for c in t.conds]) == {v}]
            good = len(tr) == sp["tries"]
            if good and tr:
                e = H.strip_block(tr[0].node)
                good = H.conversion_impl(e) == "<ctap1::ControlByte as core::convert::TryFrom<u8>>" and A.desc(H.call_args(e)[0]) == "param:apdu.p1" and not others([lit_of(A, c, F) for c in tr[0].conds])
            ctx.oblige(key + "|p1", good, "instruction %d: P1 is not validated through ControlByte::try_from(p1)? before the length checks" % v if sp["tries"] else "instruction %d has an unexpected `?` exit" % v, cfg=cfg, where=where)
            # fields
            st = H.strip_block(ok["node"]["args"][0]) if ok["node"].get("k") == "call" and ok["node"].get("args") else {}
            fl = {f["name"]: f["e"] for f in st.get("fields", [])} if st.get("k") == "struct" else {}
            for fname, want in sp["fields"].items():
                got = slice_field(A, fl[fname]) if fname in fl else None
                alt = sp.get(fname + "_alt")
                ctx.oblige(key + "|field|" + fname, got == want or (alt is not None and got == alt),
                           "%s.%s is taken from data%s, the raw message format says data[%s..%s]" % (sp["ctor"].split("::")[-1], fname, got, want[0], want[1] if want[1] is not None else ""), cfg=cfg, where=H.line(ok["node"]))
            if v == 2:
                cb = H.strip_block(A.subst(fl.get("control_byte", {}))) if "control_byte" in fl else {}
                ctx.oblige(key + "|field|control_byte", cb.get("k") == "try" and tr and H.strip_block(cb["e"]) is H.strip_block(tr[0].node), "control_byte is not the validated P1", cfg=cfg)
            ctx.sample({"cfg": cfg, "instruction": v, "success": A.site_str(ok["s"])["when"], "errors": [A.site_str(x["s"])["when"][-1] for x in errs]}, limit=6)
        # 5. default arm
        dead = [x for x in sites if not ins_of(x["lits"])]
        for x in dead:
            ctx.note("result site %s is unreachable (contradictory instruction literals)" % A.site_str(x["s"])["result"])
        dflt = [x for x in sites if ins_of(x["lits"]) and not (ins_of(x["lits"]) & {1, 2, 3}) and x not in cls]
        ctx.oblige("C08|default", len(dflt) == 1 and dflt[0]["kind"] == "err" and dflt[0]["ctor"] == STATUS + "InstructionNotSupportedOrInvalid" and ins_of(dflt[0]["lits"]) == set(range(256)) - {1, 2, 3} and not others(dflt[0]["lits"]),
                   "instructions other than 1, 2, 3 do not all yield InstructionNotSupportedOrInvalid", cfg=cfg, where=where)
        # every site is one of the above
        known = {STATUS + "ClassNotSupported", STATUS + "IncorrectDataParameter", STATUS + "InstructionNotSupportedOrInvalid", "ctap1::Request::Version", "ctap1::Request::Register", "ctap1::Request::Authenticate"}
        for x in sites:
            ctx.oblige("C08|closed|%d" % x["s"].seq, x["ctor"] in known, "unexpected result %s" % x["ctor"], cfg=cfg, where=H.line(x["node"]), nontrivial=False)
        # 6. B-guard obligations
        n_ob = 0
        for node, conds in A.points:
            if node.get("k") == "index":
                n_ob += 1
                ok, why, ln = O.discharge_index(A, node, conds)
                ctx.oblige("C08|bounds|%s[%s]" % ("data" if A.desc(node["base"]) == DATA else A.desc(node["base"])[:30], O.range_of(node["idx"])), ok and A.desc(node["base"]) == DATA,
                           "slice access %s can be out of bounds: %s" % (A.desc(node)[:100], why), cfg=cfg, where=H.line(node))
            else:
                n_ob += 1
                recv = H.strip(node["recv"])
                good, why = False, "unwrap of something other than a constant-length slice conversion"
                if recv.get("k") in ("mcall", "call") and recv.get("callee") == TRY_INTO:
                    src = H.strip(H.call_args(recv)[0])
                    tgt = node.get("ty", "")
                    import re
                    m = re.match(r"^&\[u8; (\d+)\]$", tgt)
                    if src.get("k") == "index" and m:
                        ok, w, ln = O.discharge_index(A, src, conds)
                        good = ok and ln == int(m.group(1))
                        why = "slice length is %s, array length is %s (%s)" % (ln, m.group(1), w)
                ctx.oblige("C08|unwrap|%s" % A.desc(node)[-70:], good, "unwrap can panic: %s" % why, cfg=cfg, where=H.line(node))
        ctx.extra.setdefault("slice_obligations", {})[cfg] = n_ob
        if ctx.tier == "thorough" and cfg == "k0":
            from .clippyxref import cross_reference
            cross_reference(ctx, [n.get("sp") for n, _ in A.points] + [x.get("sp") for x in H.walk(fn["body"]) if x.get("k") in ("binary", "cast")], files=["src/ctap1.rs"])
        # arithmetic: the only addition is 65 + (u8 as usize)
        adds = [x for x in H.walk(fn["body"]) if x.get("k") == "binary" and x["op"] in ("+", "-", "*")]
        for x in adds:
            l, r = A.subst(x["l"]), A.subst(x["r"])
            small = x["op"] == "+" and any(isinstance(H.lit(a), int) and H.lit(a) < 2 ** 16 for a in (l, r)) and any(b.get("k") == "cast" and b.get("from") == "u8" for b in (l, r))
            ctx.oblige("C08|arith|%s" % A.desc(x)[:60], small, "arithmetic %s may overflow" % A.desc(x)[:80], cfg=cfg, where=H.line(x), nontrivial=False)
        ctx.floor("result sites", n_sites, 5, cfg=cfg)
        # 7. control byte table
        cb = F.trait_impl_fn("<ctap1::ControlByte as core::convert::TryFrom<u8>>", "try_from")
        if ctx.oblige("C08|control-byte|anchor", cb is not None, "anchor missing: TryFrom<u8> for ControlByte", cfg=cfg):
            from . import ftable as FT
            try:
                tab = FT.value_table(F, cb, range(256))
                acc = {b for b, r in tab.items() if FT.classify(r)[0] == "ok"}
                rej = {(FT.classify(r)[1] or ("x", None))[1] for b, r in tab.items() if b not in acc}
                names = {b: FT.ctor_name(FT.classify(tab[b])[1]) for b in acc}
                ctx.oblige("C08|control-byte|table", acc == {3, 7, 8} and rej == {STATUS + "IncorrectDataParameter"}, "control bytes accepted: %s, rejection: %s" % (sorted(acc), rej), cfg=cfg, where=cb["sp"])
            except FT.Unreadable as e:
                ctx.violation("C08|control-byte|unreadable", "UNREADABLE-IMPL: %s" % e, cfg=cfg)
        # 8. Command<S> delegates to the view
        f2 = F.trait_impl_fn(FN2, "try_from")
        good = False
        if f2 is not None:
            b = H.strip_block(f2["body"])
            if b.get("k") in ("mcall", "call") and b.get("callee") == TRY_INTO:
                src = H.strip(H.call_args(b)[0])
                good = src.get("k") == "mcall" and src.get("method") == "as_view" and H.local_name(src["recv"]) == "apdu" and "CommandView" in (b.get("targs") or [""])[0] and "ctap1::Request" in (b.get("targs") or ["", ""])[1]
        ctx.oblige("C08|command-delegates", good, "TryFrom<&Command<S>> does not delegate to the CommandView parser", cfg=cfg)
