"""C13 — over-long names are cut on a character boundary; over-long icons are dropped.

Decides:
  (T) wiring: rp.name / user.name / user.displayName (String<64>) decode through
      deserialize_from_str_and_truncate::<_, 64>, user.icon (String<128>) through
      deserialize_from_str_and_skip_if_too_long::<_, 128>, rp.icon is Option<Icon> (alias "url",
      never re-emitted) and Icon::deserialize decodes a &str and stores nothing;
  (P) skip_if_too_long: Ok(Some(s)) exactly when String::<L>::try_from(text) is Ok, Ok(None)
      exactly when it is Err, the only error exit is the inner `?` (ill-formed text / wrong type);
      truncate wrapper: Ok(text.map(truncate::<L>)), only error exit the inner `?`;
  (B-tmpl) template `floor` with slots extracted from typed HIR and side conditions checked on
      the slot values: guard `index >= s.len() => s.len()`; window `s.as_bytes()[index.saturating_sub(K)
      ..= index]` inclusive of index with K + 1 >= 4; search = *last* match (rposition); result =
      lower bound + position; boundary predicate (a closed formula over one byte, expanded over all
      256 byte values from the AST) accepts every ASCII byte and every UTF-8 lead byte (0xC2..=0xF4)
      and no continuation byte (0x80..=0xBF); truncate::<L> calls floor(s, L) with its own L,
      pushes exactly s[..floor] into a fresh String<L> — these discharge the range index, the `+`,
      the unwrap_unchecked, the str slice and the push_str().unwrap(); any other panic-capable
      construct in these functions is reported undischarged.
Paper argument over the slots (not exploration): valid UTF-8 has at most three consecutive
continuation bytes and starts on a boundary, so a window of >= 4 positions ending at index < len
(or clamped at 0) contains a boundary => unwrap_unchecked is sound; the last boundary <= index is
the floor => the prefix is the longest one <= L on a boundary, fits String<L>, slicing is on a boundary.
Not decided: UTF-8 validation itself (core::str::from_utf8 in cbor-smol / serde).
"""
import json
import os

from . import hirq as H
from . import tables as T
from . import wire as W
from .pathcond import Analysis, OK, SOME
from .engine import VERIF
from . import sym as S
from . import dispatch as DP

LEVEL = "other"

TRUNC_W = "webauthn::deserialize_from_str_and_truncate"
SKIP_W = "webauthn::deserialize_from_str_and_skip_if_too_long"
TRUNCATE = "webauthn::truncate"
FLOOR = "webauthn::floor_char_boundary"
PRED = "webauthn::is_utf8_char_boundary"
DESER = "serde_core::de::Deserialize::deserialize"
ARITH = ("+", "-", "*", "/", "%", "<<", ">>")
PANICKY = {"core::option::Option::<T>::unwrap", "core::option::Option::<T>::expect", "core::result::Result::<T, E>::unwrap", "core::result::Result::<T, E>::expect",
           "core::option::Option::<T>::unwrap_unchecked", "core::result::Result::<T, E>::unwrap_unchecked", "core::slice::<impl [T]>::copy_from_slice",
           "core::slice::<impl [T]>::split_at", "core::str::<impl str>::split_at", "core::hint::unreachable_unchecked", "core::str::converts::from_utf8_unchecked"}


def obligations(fn):
    """panic-capable / unsafe constructs of a body, from typed HIR"""
    out = []
    for x in H.walk(fn["body"]):
        k = x.get("k")
        if k == "index":
            out.append(("index", x))
        elif k == "binary" and x["op"] in ARITH and "callee" not in x and (x.get("ty") or "").strip("&") in W.UINTS | W.INTS:
            out.append(("arith", x))
        elif k in ("call", "mcall") and (x.get("callee") in PANICKY or x.get("unsafe_fn")):
            out.append(("call", x))
        elif k == "block" and "unsafe" in x:
            out.append(("unsafe", x))
        elif k == "cast" and x.get("from") in W.UINTS | W.INTS and x.get("ty") in W.UINTS | W.INTS:
            pass
        elif k == "call" and x.get("ty") == "!":
            out.append(("diverge", x))
    return out


def eval_formula(n, var_id, b):
    """value of a closed formula over one byte variable (comparisons, casts, && || !, literals)"""
    n = H.strip_block(n)
    k = n.get("k")
    if k == "lit":
        return n.get("v")
    if k == "path" and n["res"].get("rk") == "Local" and n["res"]["id"] == var_id:
        return b
    if k == "unary":
        v = eval_formula(n["e"], var_id, b)
        if n["op"] == "deref":
            return v
        if n["op"] == "not":
            return (not v) if isinstance(v, bool) else (~v & 0xFF)
        if n["op"] == "neg":
            return -v
    if k == "cast":
        v = eval_formula(n["e"], var_id, b)
        t = n.get("ty")
        if not isinstance(v, int) or isinstance(v, bool):
            raise ValueError("cast of non-integer")
        bits = {"i8": 8, "u8": 8, "i16": 16, "u16": 16, "i32": 32, "u32": 32, "i64": 64, "u64": 64, "usize": 64, "isize": 64}.get(t)
        if bits is None:
            raise ValueError("cast to " + str(t))
        v &= (1 << bits) - 1
        if t.startswith("i") and v >= 1 << (bits - 1):
            v -= 1 << bits
        return v
    if k == "binary":
        op = n["op"]
        if op == "&&":
            return bool(eval_formula(n["l"], var_id, b)) and bool(eval_formula(n["r"], var_id, b))
        if op == "||":
            return bool(eval_formula(n["l"], var_id, b)) or bool(eval_formula(n["r"], var_id, b))
        l, r = eval_formula(n["l"], var_id, b), eval_formula(n["r"], var_id, b)
        if op in ("==", "!=", "<", "<=", ">", ">="):
            return {"==": l == r, "!=": l != r, "<": l < r, "<=": l <= r, ">": l > r, ">=": l >= r}[op]
        if op == "&":
            return l & r
        if op == "|":
            return l | r
        if op == "^":
            return l ^ r
    if k == "match":
        v = eval_formula(n["scrut"], var_id, b)
        for arm in n["arms"]:
            if "guard" in arm:
                raise ValueError("match guard")
            try:
                vals, ca = T.pat_values(arm["pat"], None)
            except T.Unreadable as e:
                raise ValueError(str(e))
            if ca or v in vals:
                return eval_formula(arm["body"], var_id, b)
        raise ValueError("non-exhaustive match")
    raise ValueError("formula node " + str(k))


def check_floor(ctx, F, cfg):
    """template `floor`: returns True if discharged"""
    fn = F.fn(FLOOR)
    if fn is None:
        return None
    key = "C13|floor"
    A = Analysis(fn)
    pn = {n: i for p in fn["params"] for n, i in H.pat_bindings(p)}
    ok_all = True

    def need(suffix, cond, msg, where=None):
        nonlocal ok_all
        if not ctx.oblige(key + "|" + suffix, cond, "floor_char_boundary: " + msg, cfg=cfg, where=where or fn["sp"]):
            ok_all = False
        return cond

    if not need("params", len(fn["params"]) == 2 and fn["inputs"] == ["&str", "usize"] and fn["output"] == "usize", "signature is no longer (&str, usize) -> usize"):
        return False
    (sname, sid), (iname, iid) = [H.pat_bindings(p)[0] for p in fn["params"]]
    S, I = "param:" + sname, "param:" + iname
    LEN = "core::str::<impl str>::len(%s)" % S
    if not need("two-sites", len(A.sites) == 2 and not A.tries, "expected exactly two result sites (clamp, search), found %d" % len(A.sites)):
        return False
    clamp = [s for s in A.sites if [A.comparison(c) for c in s.conds] == [(I, ">=", LEN)]]
    search = [s for s in A.sites if [A.comparison(c) for c in s.conds] == [(I, "<", LEN)]]
    if not need("guard", len(clamp) == 1 and len(search) == 1, "the guard is no longer `index >= s.len()`: %s" % [A.site_str(s)["when"] for s in A.sites]):
        return False
    need("clamp-result", A.desc(clamp[0].node) == LEN, "when index >= len the result is %s, expected s.len()" % A.desc(clamp[0].node))
    node = H.strip(search[0].node)
    while node.get("k") == "block":
        if node.get("stmts"):
            break
        node = H.strip(node.get("expr", {}))
    if not need("result-shape", node.get("k") == "binary" and node["op"] == "+", "the result is not `lower_bound + position`: %s" % A.desc(node)[:120]):
        return False
    l, r = A.subst(node["l"]), A.subst(node["r"])
    UNW = ("core::option::Option::<T>::unwrap_unchecked", "core::option::Option::<T>::unwrap", "core::option::Option::<T>::unwrap_or",
           "core::option::Option::<T>::unwrap_or_default", "core::option::Option::<T>::expect")
    lower, pos = (l, r) if r.get("callee") in UNW else (r, l)
    if not need("lower", lower.get("k") == "mcall" and lower.get("callee") == "core::num::<impl usize>::saturating_sub" and A.desc(lower["recv"]) == I and isinstance(H.lit(lower["args"][0]), int),
                "lower bound is not index.saturating_sub(K): %s" % A.desc(lower)[:100]):
        return False
    K = H.lit(lower["args"][0])
    need("window-size", K + 1 >= 4, "the search window has %d positions; a UTF-8 character can be 4 bytes long, so the boundary may lie outside the window (undefined behaviour in unwrap_unchecked)" % (K + 1), where=H.line(lower))
    if not need("position", pos.get("k") == "mcall" and pos.get("callee") in UNW, "position is not the unwrapped search result"):
        return False
    srch = A.subst(pos["recv"])
    if not need("search-last", srch.get("k") == "mcall" and srch.get("callee") == "core::iter::traits::iterator::Iterator::rposition",
                "the search is `%s`, not rposition: the *last* boundary in the window is the floor" % srch.get("callee"), where=H.line(srch)):
        return False
    it = H.strip(srch["recv"])
    win = H.strip(it["recv"]) if it.get("k") == "mcall" and it.get("method") == "iter" else {}
    good = win.get("k") == "index" and A.desc(win["base"]) == "core::str::<impl str>::as_bytes(%s)" % S
    idx = H.strip(win.get("idx", {})) if good else {}
    lo_hi = None
    if idx.get("k") == "call" and idx.get("callee") == "core::ops::range::RangeInclusive::<Idx>::new":
        lo_hi = (A.subst(idx["args"][0]), A.subst(idx["args"][1]), True)
    elif idx.get("k") == "struct" and idx["res"].get("path") == "core::ops::range::Range":
        f = {x["name"]: x["e"] for x in idx["fields"]}
        lo_hi = (A.subst(f["start"]), A.subst(f["end"]), False)
    if not need("window", good and lo_hi is not None and lo_hi[0] is lower and A.desc(lo_hi[1]) == I and lo_hi[2] is True,
                "the window is not s.as_bytes()[lower_bound ..= index] (inclusive of index): %s" % A.desc(win)[:140], where=H.line(win) if win else None):
        return False
    clos = H.strip(srch["args"][0])
    pred_ok = False
    if clos.get("k") == "closure" and len(clos["params"]) == 1:
        b = H.pat_bindings(clos["params"][0])
        body = H.strip_block(clos["body"])
        if body.get("k") == "call" and body.get("callee") == PRED and len(b) == 1:
            a = H.strip_block(body["args"][0])
            pred_ok = a.get("k") == "unary" and a["op"] == "deref" and H.local_id(a["e"]) == b[0][1]
    need("predicate-call", pred_ok, "the search predicate is not `|b| is_utf8_char_boundary(*b)`")
    # the predicate's byte set
    pf = F.fn(PRED)
    if need("predicate-anchor", pf is not None and len(pf["params"]) == 1 and pf["inputs"] == ["u8"], "anchor missing: is_utf8_char_boundary(u8)"):
        vid = H.pat_bindings(pf["params"][0])[0][1]
        try:
            acc = {b for b in range(256) if eval_formula(pf["body"], vid, b) is True}
            must = set(range(0x00, 0x80)) | set(range(0xC2, 0xF5))
            mustnot = set(range(0x80, 0xC0))
            need("predicate-set", must <= acc and not (acc & mustnot),
                 "is_utf8_char_boundary accepts %s, rejects %s: it must accept every ASCII and lead byte and no continuation byte" %
                 (sorted("0x%02x" % b for b in acc & mustnot)[:6], sorted("0x%02x" % b for b in must - acc)[:6]), where=pf["sp"])
            ctx.sample({"cfg": cfg, "boundary_predicate_accepts": "0x00-0x7f,0xc0-0xff" if acc == set(range(0, 0x80)) | set(range(0xC0, 0x100)) else sorted(acc)[:40], "K": K})
        except ValueError as e:
            need("predicate-formula", False, "boundary predicate is not a closed byte formula (%s)" % e, where=pf["sp"])
    # obligations in floor: exactly the template's
    obs = obligations(fn)
    expected = {id(win): "window index", id(node): "lower + pos", id(pos): "unwrap of the search"}
    for kind, x in obs:
        if kind == "unsafe":
            inner = [y for y in H.walk(x) if y is not x and (y.get("unsafe_fn") or (y.get("k") == "unary" and y["op"] == "deref" and (y["e"].get("ty") or "").startswith("*")))]
            need("unsafe-block|%d" % len(inner), all(y is pos for y in inner), "the unsafe block contains more than the unwrap_unchecked of the search result", where=H.line(x))
        else:
            need("obligation|%s" % A.desc(x)[:60], id(x) in expected, "panic-capable construct outside the template: %s" % A.desc(x)[:100], where=H.line(x))
    return ok_all


def wrapper_paths(F, fn, opaque=()):
    """path summaries of a text-decoding wrapper: effects = the inner Deserialize call and every mutation of a fresh String"""
    def fresh(t):
        return t[0] == "call" and not t[2] and t[1].split("::")[-1] == "new"

    def is_effect(callee, args, node, st):
        if node.get("callee") == DESER:
            return True
        if callee in ("<assign>",):
            return bool(args) and fresh(args[0])
        return bool(args) and fresh(args[0]) and (callee or "").split("::")[-1] not in ("len", "capacity", "is_empty", "as_str", "as_bytes", "new")

    def inline(path, node):
        f = sym.body_for(path)
        return f is not None and (f.get("pv") or "user") == "user" and path not in opaque

    sym = S.Sym(F, fn, is_effect=is_effect, inline=inline)
    return sym, sym.run(split_result=True)


def inner_error_only(sym, paths, D):
    """every Err result is the inner decoder's own error, unchanged"""
    bad = []
    for p in paths:
        r = p.result
        if r is not None and r[0] == "ctor" and r[1] == S.ERR:
            if not (sym.lookup(p, D.term) == S.ERR and DP.strip_conv(r[2][0]) == sym.proj(D.term, S.ERR, 0)):
                bad.append(S.show(r)[:80])
    return bad


def check_skip(ctx, F, cfg, fn):
    """skip_if_too_long: Err only from decoding the text; Ok(Some(<fresh String<L> holding exactly the decoded text>)) when it
    fits; Ok(None) when it does not; a length pre-check is accepted only as `len > L`"""
    PUSH = "heapless::string::String::<N>::push_str"
    try:
        sym, paths = wrapper_paths(F, fn)
    except S.TooManyPaths:
        ctx.violation("C13|skip|paths", "too many paths", cfg=cfg)
        return
    ds = {e.term: e for p in paths for e in p.effects if e.tcallee == DESER}
    if not ctx.oblige("C13|skip|only-inner-error", len(ds) == 1 and (next(iter(ds.values())).node.get("targs") or [""])[0] == "&str",
                      "skip_if_too_long does not decode exactly one text string (%s)" % [(e.node.get("targs") or [""])[0] for e in ds.values()], cfg=cfg, where=fn["sp"]):
        return
    D = next(iter(ds.values()))
    text = sym.proj(D.term, S.OK, 0)
    bad = inner_error_only(sym, paths, D)
    ctx.oblige("C13|skip|only-inner-error|exits", not bad, "skip_if_too_long has error exits other than decoding the text itself: %s" % bad[:2], cfg=cfg, where=fn["sp"])
    kept = dropped = 0
    others = []
    lent = ("call", "core::str::<impl str>::len", (text,))
    cap_terms = [("path", SKIP_W + "::L"), ("const", SKIP_W + "::L")]
    for p in paths:
        r = p.result
        if p.done and p.done[0] == "panic":
            ctx.oblige("C13|skip|no-panic|" + str(p.done[2])[-30:], False, "skip_if_too_long can panic (%s): an over-long icon aborts instead of being dropped" % (p.done,), cfg=cfg, where=fn["sp"])
            continue
        if r is None or r[0] != "ctor" or r[1] != S.OK:
            continue
        v = r[2][0]
        muts = [e for e in p.effects if e.tcallee != DESER]
        pushes = [e for e in muts if e.callee == PUSH and len(e.args) == 2 and e.args[1] == text]
        # length pre-checks on this path: atoms comparing len(text) with L
        pre = []
        for a in p.atoms:
            if a[0] == "true" and a[1][0] == "bin" and any(x[0] == "call" and x[1] == "core::str::<impl str>::len" and x[2] == (text,) for x in (a[1][2], a[1][3])):
                pre.append(a)
        if v[0] == "ctor" and v[1] == S.SOME:
            good = len(muts) == 1 and len(pushes) == 1 and v[2] == (pushes[0].args[0],) and sym.lookup(p, pushes[0].term) == S.OK
            if good:
                kept += 1
            else:
                others.append(S.show(r)[:80])
        elif v == ("ctor", S.NONE, ()):
            by_push = len(muts) == 1 and len(pushes) == 1 and sym.lookup(p, pushes[0].term) == S.ERR
            by_pre = False
            if not muts and pre and p.atoms and p.atoms[-1] is pre[-1]:
                a = pre[-1]
                op, l, rr, pol = a[1][1], a[1][2], a[1][3], a[2]
                # canonical comparisons are < and <= : `len > L` is (L < len) true, or (len <= L) false
                is_len = lambda x: x[0] == "call" and x[1] == "core::str::<impl str>::len"
                strictly_longer = (op == "<" and is_len(rr) and not is_len(l) and pol) or (op == "<=" and is_len(l) and not is_len(rr) and not pol)
                if strictly_longer:
                    by_pre = True
                else:
                    ctx.oblige("C13|skip|precheck-boundary", False, "the length pre-check drops the icon under `%s`: an icon of exactly L bytes (which fits) is reported absent" % S.show_atom(a), cfg=cfg, where=fn["sp"])
                    continue
            if by_push or by_pre:
                dropped += 1
            else:
                others.append("None when %s" % [S.show_atom(a) for a in p.atoms][-2:])
        else:
            others.append(S.show(r)[:80])
    # the conversion must be genuinely fallible: core's blanket `impl<T, U: Into<T>> TryFrom<U> for T` is infallible
    # (Error = Infallible) and forwards to From::from, which for heapless 0.7 String *panics* when the text does not fit
    CONV = "<heapless::string::String<L> as core::convert::TryFrom<&str>>"
    bodies = [fn] + [F.fn(q) for q in sym.inlined if F.fn(q) is not None]
    convs = [x for g in bodies for x in H.walk(g["body"]) if H.conversion_impl(x) == CONV or (x.get("callee") == "core::convert::From::from" and (x.get("targs") or [""])[0].startswith("heapless::string::String<"))]
    blanket = [x for x in convs if x.get("resolved") == "<T as core::convert::TryFrom<U>>::try_from" or "core::convert::Infallible" in (x.get("ty") or "") or x.get("callee") == "core::convert::From::from"]
    ctx.oblige("C13|skip|fallible-conversion", not blanket,
               "the text is converted with heapless' panicking String::from(&str) (directly or through core's infallible blanket TryFrom): "
               "an icon longer than the capacity panics instead of being dropped", cfg=cfg, where=H.line(blanket[0]) if blanket else fn["sp"])
    ctx.oblige("C13|skip|keeps-when-fits", kept >= 1, "an icon that fits is not returned verbatim as Some(<String<L> holding the decoded text>)", cfg=cfg, where=fn["sp"])
    ctx.oblige("C13|skip|drops-when-too-long", dropped >= 1, "an over-long icon is not reported absent with Ok(None)", cfg=cfg, where=fn["sp"])
    ctx.oblige("C13|skip|no-other-result", not others, "skip_if_too_long has other results: %s" % others[:3], cfg=cfg, where=fn["sp"])
    ctx.sample({"cfg": cfg, "skip_if_too_long": S.summarize(paths)}, limit=3)


def check_trunc_wrapper(ctx, F, cfg, fn):
    """Ok(None) for an absent text, Ok(Some(truncate::<L>(text))) for a present one, Err only from the inner decoder"""
    try:
        sym, paths = wrapper_paths(F, fn, opaque=(TRUNCATE,))
    except S.TooManyPaths:
        ctx.violation("C13|trunc-wrapper|paths", "too many paths", cfg=cfg)
        return
    ds = {e.term: e for p in paths for e in p.effects if e.tcallee == DESER}
    good = len(ds) == 1 and (next(iter(ds.values())).node.get("targs") or [""])[0] == "core::option::Option<&str>"
    why = "it does not decode exactly one Option<&str>"
    if good:
        D = next(iter(ds.values()))
        opt = sym.proj(D.term, S.OK, 0)
        bad = inner_error_only(sym, paths, D)
        if bad:
            good, why = False, "error exits other than the inner decoder's: %s" % bad[:2]
        n_some = n_none = 0
        for p in paths:
            r = p.result
            if p.done and p.done[0] == "panic":
                good, why = False, "it can panic (%s)" % (p.done,)
                continue
            if r is None or r[0] != "ctor" or r[1] != S.OK:
                continue
            v = r[2][0]
            k = sym.lookup(p, opt)
            if v == ("ctor", S.NONE, ()) and k == S.NONE:
                n_none += 1
            elif v[0] == "ctor" and v[1] == S.SOME and k == S.SOME and v[2][0][0] == "call" and v[2][0][1] == TRUNCATE and v[2][0][2] == (sym.proj(opt, S.SOME, 0),):
                n_some += 1
            else:
                good, why = False, "a result is %s when the text is %s" % (S.show(r)[:80], S.short(k) if k else "?")
        if good and not (n_some >= 1 and n_none >= 1):
            good, why = False, "missing the Some / None case"
        muts = [e for p in paths for e in p.effects if e.tcallee != DESER]
        if good and muts:
            good, why = False, "it builds a string itself (%s)" % S.short_fn(muts[0].callee)
    # truncate is instantiated with the wrapper's own capacity
    calls = [x for g in [fn] + [F.fn(q) for q in sym.inlined if F.fn(q) is not None] for x in H.walk(g["body"]) if (x.get("k") == "path" and x["res"].get("path") == TRUNCATE) or x.get("callee") == TRUNCATE]
    tys = {(x.get("ty") or "") for x in calls}
    if good and not (calls and all("heapless::string::String<L>" in t for t in tys)):
        good, why = False, "truncate is not instantiated with the wrapper's capacity L (%s)" % sorted(tys)[:1]
    ctx.oblige("C13|trunc-wrapper", good, "the truncating decoder is no longer Ok(<decoded Option<&str>>.map(truncate::<L>)): %s" % why, cfg=cfg, where=fn["sp"])


def check_icon(ctx, F, cfg, fn):
    try:
        sym, paths = wrapper_paths(F, fn)
    except S.TooManyPaths:
        return False
    ds = {e.term: e for p in paths for e in p.effects if e.tcallee == DESER}
    if len(ds) != 1 or (next(iter(ds.values())).node.get("targs") or [""])[0] != "&str":
        return False
    D = next(iter(ds.values()))
    if inner_error_only(sym, paths, D):
        return False
    oks = [p for p in paths if p.result is not None and p.result[0] == "ctor" and p.result[1] == S.OK]
    return len(oks) == 1 and sym.lookup(oks[0], D.term) == S.OK and oks[0].result[2][0] == ("ctor", "webauthn::Icon", ()) and not any(p.done and p.done[0] == "panic" for p in paths) \
        and all(len([e for e in p.effects]) == 1 for p in paths)


def run(ctx):
    spec = json.load(open(os.path.join(VERIF, "spec", "ctap2_messages.json")))
    ctx.explanation = ("Wiring table from the generated decoders; path literals of the two wrapper functions; a semantic template for floor_char_boundary/truncate whose slots are "
                       "extracted from typed HIR and whose side conditions (window inclusive, window size >= 4, last match, result = lower + position, boundary byte set from the "
                       "predicate's AST expanded over 256 bytes, truncate passes its own L, pushes s[..floor] into a fresh String<L>) are evaluated on the slot values. "
                       "The for-all-strings statement is carried by the paper argument over these slots recorded in DESIGN.md, not by exploration.")
    ctx.rule = "obligation = wiring row | result-site literal set | template slot / side condition | panic-capable construct, per configuration"
    ctx.trusted = ["core::str::from_utf8 (input text is valid UTF-8 when it reaches these functions: serde's &str decoding in cbor-smol)", "heapless 0.7.17 String::push_str / TryFrom<&str>",
                   "UTF-8: at most 3 consecutive continuation bytes, text starts on a boundary"]
    ctx.assumptions = ["the paper argument in DESIGN.md section 5/C13 linking the slot conditions to the longest-prefix property"]
    want_wiring = {("webauthn::PublicKeyCredentialRpEntity", "name"): (TRUNC_W, 64), ("webauthn::PublicKeyCredentialUserEntity", "name"): (TRUNC_W, 64),
                   ("webauthn::PublicKeyCredentialUserEntity", "display_name"): (TRUNC_W, 64), ("webauthn::PublicKeyCredentialUserEntity", "icon"): (SKIP_W, 128)}
    for cfg, F in ctx.facts.items():
        # ---- wiring
        n_w = 0
        for (path, field), (wfn, cap) in want_wiring.items():
            key = "C13|wiring|%s|%s" % (path.split("::")[-1], field)
            try:
                tab = W.decode_table(F, path)
            except T.Unreadable as e:
                ctx.violation(key + "|unreadable", "UNREADABLE-IMPL: %s" % e, cfg=cfg)
                continue
            m = next((m for m in (tab or {"members": []})["members"] if m["field"] == field), None)
            if not ctx.oblige(key + "|anchor", m is not None, "anchor missing: %s.%s" % (path, field), cfg=cfg):
                continue
            n_w += 1
            w = m["with"] or {}
            ctx.oblige(key + "|decoder", w.get("fn") == wfn, "%s.%s is decoded through %s, expected %s" % (path, field, w.get("fn"), wfn), cfg=cfg)
            ctx.oblige(key + "|capacity", str(cap) in (w.get("targs") or []) and W.capacity(m["field_ty"]) == {"kind": "text", "cap": cap},
                       "%s.%s: decoder instantiated with %s for a member of type %s (expected capacity %d)" % (path, field, w.get("targs"), m["field_ty"], cap), cfg=cfg)
            ctx.oblige(key + "|optional", m["required"] is False, "%s.%s became required" % (path, field), cfg=cfg, nontrivial=False)
        ctx.floor("lossy text members", n_w, 4, cfg=cfg)
        # rp.icon
        try:
            rp = W.decode_table(F, "webauthn::PublicKeyCredentialRpEntity")
            rpe = W.encode_table(F, "webauthn::PublicKeyCredentialRpEntity")
        except T.Unreadable:
            rp = rpe = None
        icon = next((m for m in (rp or {"members": []})["members"] if m["field"] == "icon"), None)
        ctx.oblige("C13|rp-icon|decode", icon is not None and icon["ty"] == "core::option::Option<webauthn::Icon>" and icon["key"] == "icon" and icon["aliases"] == ["url"] and icon["required"] is False and icon["with"] is None,
                   "rp.icon is no longer an optional Icon accepted under `icon` and `url`: %s" % (icon and {k: icon[k] for k in ("ty", "key", "aliases", "required")}), cfg=cfg)
        ctx.oblige("C13|rp-icon|not-emitted", rpe is not None and "icon" in rpe["never"], "rp.icon is re-emitted", cfg=cfg)
        ia = F.adt("webauthn::Icon")
        ctx.oblige("C13|icon|stores-nothing", ia is not None and all(not v["fields"] for v in ia["variants"]), "Icon stores data", cfg=cfg)
        idf = F.impl_fn("serde_core::de::Deserialize", "webauthn::Icon", "deserialize")
        good = len(idf) == 1 and check_icon(ctx, F, cfg, idf[0])
        ctx.oblige("C13|icon|decodes-text", good, "Icon::deserialize no longer decodes exactly one text string and succeeds", cfg=cfg)
        # ---- skip_if_too_long
        fn = F.fn(SKIP_W)
        if ctx.oblige("C13|skip|anchor", fn is not None, "anchor missing: " + SKIP_W, cfg=cfg):
            check_skip(ctx, F, cfg, fn)
        # ---- truncate wrapper
        fn = F.fn(TRUNC_W)
        if ctx.oblige("C13|trunc-wrapper|anchor", fn is not None, "anchor missing: " + TRUNC_W, cfg=cfg):
            check_trunc_wrapper(ctx, F, cfg, fn)
        # ---- truncate
        fn = F.fn(TRUNCATE)
        floor_fn = F.fn(FLOOR)
        if ctx.oblige("C13|truncate|anchor", fn is not None, "anchor missing: webauthn::truncate", cfg=cfg):
            A = Analysis(fn)
            calls = [x for x in H.walk(fn["body"]) if x.get("k") in ("call", "mcall") and "ctor" not in x]
            fl = [x for x in calls if x.get("callee") in (FLOOR, "core::str::<impl str>::floor_char_boundary")]
            good = len(fl) == 1
            if good:
                a = H.call_args(fl[0])
                good = H.local_id(a[0]) in A.param_ids and H.strip(a[1]).get("k") == "path" and "ConstParam" in H.strip(a[1])["res"].get("rk", "") and H.strip(a[1])["res"].get("path") == TRUNCATE + "::L"
            ctx.oblige("C13|truncate|floor-call", good, "truncate::<L> does not cut at floor_char_boundary(s, L) with its own capacity L", cfg=cfg, where=fn["sp"])
            pushes = [x for x in calls if x.get("callee") == "heapless::string::String::<N>::push_str"]
            good2 = len(pushes) == 1
            if good2 and good:
                p = pushes[0]
                tgt = H.local_id(p["recv"])
                init = A.env.get(tgt)
                fresh = init is not None and H.strip_block(init).get("callee") == "heapless::string::String::<N>::new" and (H.strip_block(init).get("targs") or [""]) == ["L"]
                arg = H.strip(p["args"][0])
                sl = arg.get("k") == "index" and H.local_id(arg["base"]) in A.param_ids and (arg.get("base_ty") or "") == "&str"
                if sl:
                    idx = H.strip(arg["idx"])
                    sl = idx.get("k") == "struct" and idx["res"].get("path") == "core::ops::range::RangeTo" and A.subst(idx["fields"][0]["e"]) is fl[0]
                ret = len(A.sites) == 1 and H.local_id(A.sites[0].node) == tgt and not A.sites[0].wrappers
                par = [x for x in calls if x.get("callee") in ("core::result::Result::<T, E>::unwrap", "core::result::Result::<T, E>::expect") and x["recv"] is p]
                good2 = fresh and sl and ret and len(par) == 1
            ctx.oblige("C13|truncate|push-prefix", good2, "truncate does not push exactly s[..floor] into a fresh String<L> and return it", cfg=cfg, where=fn["sp"])
            # obligations inside truncate
            for kind, x in obligations(fn):
                allowed = (kind == "index" and good2 and x is H.strip(pushes[0]["args"][0])) or (kind == "call" and good2 and x.get("callee", "").endswith("::unwrap") and x["recv"] is pushes[0])
                ctx.oblige("C13|truncate|obligation|%s" % A.desc(x)[:60], allowed, "panic-capable construct outside the template in truncate: %s" % A.desc(x)[:100], cfg=cfg, where=H.line(x))
        if ctx.tier == "thorough" and cfg == "k0":
            from .clippyxref import cross_reference
            spans = []
            for p_ in (TRUNCATE, FLOOR, PRED, SKIP_W, TRUNC_W):
                f_ = F.fn(p_)
                if f_ is not None:
                    spans += [x.get("sp") for _, x in obligations(f_)] + [x.get("sp") for x in H.walk(f_["body"]) if x.get("k") == "cast"]
            cross_reference(ctx, spans, files=["src/webauthn.rs"])
        if floor_fn is not None:
            res = check_floor(ctx, F, cfg)
        else:
            ctx.note("floor_char_boundary is not a crate function any more (template absent): the cut position is core's str::floor_char_boundary if truncate calls it")
            ctx.oblige("C13|floor|absent-ok", fn is not None and any(x.get("callee") == "core::str::<impl str>::floor_char_boundary" for x in H.walk(fn["body"])),
                       "neither the crate's floor_char_boundary nor core's is used", cfg=cfg)
