"""C13 — over-long names are cut on a character boundary; over-long icons are dropped.

Decides:
  (T) wiring: rp.name / user.name / user.displayName (String<64>) decode through
      deserialize_from_str_and_truncate::<_, 64>, user.icon (String<128>) through
      deserialize_from_str_and_skip_if_too_long::<_, 128>, rp.icon is Option<Icon> (alias "url",
      never re-emitted) and Icon::deserialize decodes a &str and stores nothing;
  (P) skip_if_too_long: Ok(Some(s)) exactly when String::<L>::try_from(text) is Ok, Ok(None)
      exactly when it is Err, the only error exit is the inner `?` (ill-formed text / wrong type);
      truncate wrapper: Ok(text.map(truncate::<L>)), only error exit the inner `?`;
  (B-tmpl) template `floor` with slots extracted from typed HIR and side conditions checked on
      the slot values: guard `index >= s.len() => s.len()`; window `s.as_bytes()[index.saturating_sub(K)
      ..= index]` inclusive of index with K + 1 >= 4; search = *last* match (rposition); result =
      lower bound + position; boundary predicate (a closed formula over one byte, expanded over all
      256 byte values from the AST) accepts every ASCII byte and every UTF-8 lead byte (0xC2..=0xF4)
      and no continuation byte (0x80..=0xBF); truncate::<L> calls floor(s, L) with its own L,
      pushes exactly s[..floor] into a fresh String<L> — these discharge the range index, the `+`,
      the unwrap_unchecked, the str slice and the push_str().unwrap(); any other panic-capable
      construct in these functions is reported undischarged.
Paper argument over the slots (not exploration): valid UTF-8 has at most three consecutive
continuation bytes and starts on a boundary, so a window of >= 4 positions ending at index < len
(or clamped at 0) contains a boundary => unwrap_unchecked is sound; the last boundary <= index is
the floor => the prefix is the longest one <= L on a boundary, fits String<L>, slicing is on a boundary.
Not decided: UTF-8 validation itself (core::str::from_utf8 in cbor-smol / serde).
"""
import json
import os

from . import hirq as H
from . import tables as T
from . import wire as W
from .pathcond import Analysis, OK, SOME
from .engine import VERIF
from . import sym as S
from . import dispatch as DP

LEVEL = "other"

TRUNC_W = "webauthn::deserialize_from_str_and_truncate"
SKIP_W = "webauthn::deserialize_from_str_and_skip_if_too_long"
TRUNCATE = "webauthn::truncate"
FLOOR = "webauthn::floor_char_boundary"
PRED = "webauthn::is_utf8_char_boundary"
DEFAULT_NAMES = (TRUNC_W, SKIP_W, TRUNCATE, FLOOR, PRED)


def names(F):
    """(truncating wrapper, skipping wrapper, truncate, floor, boundary predicate) identified by their *role*: the wrappers are the
    `deserialize_with` functions of user.name / user.icon, truncate is the String-returning /repo function the truncating wrapper
    applies, floor the usize-returning /repo function truncate calls, the predicate the u8 -> bool /repo function floor calls.
    Renaming or moving these private helpers does not change their role; the defaults are today's names."""
    cached = getattr(F, "_c13_names", None)
    if cached is not None:
        return cached
    trunc_w, skip_w, trunc, floor, pred = DEFAULT_NAMES
    try:
        tab = W.decode_table(F, "webauthn::PublicKeyCredentialUserEntity")
    except T.Unreadable:
        tab = None
    by = {m["field"]: (m.get("with") or {}).get("fn") for m in (tab or {"members": []})["members"]}
    if by.get("name") and F.fn(by["name"]) is not None:
        trunc_w = by["name"]
    if by.get("icon") and F.fn(by["icon"]) is not None:
        skip_w = by["icon"]

    def callees(fn):
        out = []
        for x in H.walk(fn["body"]):
            c = None
            if x.get("k") in ("call", "mcall"):
                c = x.get("resolved") or x.get("callee")
            elif x.get("k") == "path" and x["res"].get("rk") in ("Fn", "AssocFn"):
                c = x["res"].get("path")
            g = F.fns_by_path.get(c or "", [])
            if len(g) == 1 and (g[0].get("pv") or "user") == "user" and g[0] not in out:
                out.append(g[0])
        return out

    def closure_of(fn, depth=2):
        seen, todo = [], [(fn, 0)]
        while todo:
            g, d = todo.pop(0)
            for h in callees(g):
                if h not in seen and h is not fn:
                    seen.append(h)
                    if d + 1 < depth:
                        todo.append((h, d + 1))
        return seen

    tw = F.fn(trunc_w)
    if tw is not None:
        c = [g for g in closure_of(tw) if (g.get("output") or "").startswith("heapless::string::String<") and len(g.get("inputs") or []) == 1]
        if len(c) >= 1:
            trunc = c[0]["path"]
    tf = F.fn(trunc)
    if tf is not None:
        c = [g for g in closure_of(tf) if g.get("output") == "usize" and (g.get("inputs") or [])[:1] == ["&str"]]
        if len(c) >= 1:
            floor = c[0]["path"]
    ff = F.fn(floor)
    if ff is not None:
        c = [g for g in closure_of(ff) if g.get("output") == "bool" and g.get("inputs") == ["u8"]]
        if len(c) >= 1:
            pred = c[0]["path"]
    F._c13_names = (trunc_w, skip_w, trunc, floor, pred)
    return F._c13_names
DESER = "serde_core::de::Deserialize::deserialize"
ARITH = ("+", "-", "*", "/", "%", "<<", ">>")
PANICKY = {"core::option::Option::<T>::unwrap", "core::option::Option::<T>::expect", "core::result::Result::<T, E>::unwrap", "core::result::Result::<T, E>::expect",
           "core::option::Option::<T>::unwrap_unchecked", "core::result::Result::<T, E>::unwrap_unchecked", "core::slice::<impl [T]>::copy_from_slice",
           "core::slice::<impl [T]>::split_at", "core::str::<impl str>::split_at", "core::hint::unreachable_unchecked", "core::str::converts::from_utf8_unchecked"}


def obligations(fn):
    """panic-capable / unsafe constructs of a body, from typed HIR"""
    out = []
    for x in H.walk(fn["body"]):
        k = x.get("k")
        if k == "index":
            out.append(("index", x))
        elif k == "binary" and x["op"] in ARITH and "callee" not in x and (x.get("ty") or "").strip("&") in W.UINTS | W.INTS:
            out.append(("arith", x))
        elif k in ("call", "mcall") and (x.get("callee") in PANICKY or x.get("unsafe_fn")):
            out.append(("call", x))
        elif k == "block" and "unsafe" in x:
            out.append(("unsafe", x))
        elif k == "cast" and x.get("from") in W.UINTS | W.INTS and x.get("ty") in W.UINTS | W.INTS:
            pass
        elif k == "call" and x.get("ty") == "!":
            out.append(("diverge", x))
    return out


def eval_formula(n, var_id, b):
    """value of a closed formula over one byte variable (comparisons, casts, && || !, literals)"""
    n = H.strip_block(n)
    k = n.get("k")
    if k == "lit":
        return n.get("v")
    if k == "path" and n["res"].get("rk") == "Local" and n["res"]["id"] == var_id:
        return b
    if k == "unary":
        v = eval_formula(n["e"], var_id, b)
        if n["op"] == "deref":
            return v
        if n["op"] == "not":
            return (not v) if isinstance(v, bool) else (~v & 0xFF)
        if n["op"] == "neg":
            return -v
    if k == "cast":
        v = eval_formula(n["e"], var_id, b)
        t = n.get("ty")
        if not isinstance(v, int) or isinstance(v, bool):
            raise ValueError("cast of non-integer")
        bits = {"i8": 8, "u8": 8, "i16": 16, "u16": 16, "i32": 32, "u32": 32, "i64": 64, "u64": 64, "usize": 64, "isize": 64}.get(t)
        if bits is None:
            raise ValueError("cast to " + str(t))
        v &= (1 << bits) - 1
        if t.startswith("i") and v >= 1 << (bits - 1):
            v -= 1 << bits
        return v
    if k == "binary":
        op = n["op"]
        if op == "&&":
            return bool(eval_formula(n["l"], var_id, b)) and bool(eval_formula(n["r"], var_id, b))
        if op == "||":
            return bool(eval_formula(n["l"], var_id, b)) or bool(eval_formula(n["r"], var_id, b))
        l, r = eval_formula(n["l"], var_id, b), eval_formula(n["r"], var_id, b)
        if op in ("==", "!=", "<", "<=", ">", ">="):
            return {"==": l == r, "!=": l != r, "<": l < r, "<=": l <= r, ">": l > r, ">=": l >= r}[op]
        if op == "&":
            return l & r
        if op == "|":
            return l | r
        if op == "^":
            return l ^ r
    if k == "match":
        v = eval_formula(n["scrut"], var_id, b)
        for arm in n["arms"]:
            if "guard" in arm:
                raise ValueError("match guard")
            try:
                vals, ca = T.pat_values(arm["pat"], None)
            except T.Unreadable as e:
                raise ValueError(str(e))
            if ca or v in vals:
                return eval_formula(arm["body"], var_id, b)
        raise ValueError("non-exhaustive match")
    raise ValueError("formula node " + str(k))


def _range_bounds(r):
    """(lo term, hi-exclusive term) of a range term; hi as ('bin','+',x,1) for inclusive ranges"""
    if r[0] == "call" and r[1].endswith("RangeInclusive::<Idx>::new") and len(r[2]) == 2:
        return r[2][0], ("incl", r[2][1])
    if r[0] == "struct":
        f = dict(r[2])
        name = r[1].split("::")[-1]
        if name == "Range":
            return f.get("start"), ("excl", f.get("end"))
        if name == "RangeTo":
            return ("lit", 0), ("excl", f.get("end"))
        if name == "RangeToInclusive":
            return ("lit", 0), ("incl", f.get("end"))
    return None, None


def fold_term(sym, t, is_hole, value):
    """t with the sub-terms selected by is_hole replaced by `value`, literal operations folded (sym.binop / casts / not)"""
    if is_hole(t):
        return value
    k = t[0]
    if k == "bin":
        return sym.binop(t[1], fold_term(sym, t[2], is_hole, value), fold_term(sym, t[3], is_hole, value))
    if k == "un":
        x = fold_term(sym, t[2], is_hole, value)
        if t[1] == "not" and x[0] == "lit" and isinstance(x[1], bool):
            return ("lit", not x[1])
        if t[1] == "neg" and x[0] == "lit" and isinstance(x[1], int):
            return ("lit", -x[1])
        return ("un", t[1], x)
    if k == "cast":
        x = fold_term(sym, t[1], is_hole, value)
        if x[0] == "lit" and isinstance(x[1], int) and not isinstance(x[1], bool):
            return ("lit", S.wrap_int(x[1], t[2]))
        return ("cast", x, t[2])
    if k == "copy":
        return fold_term(sym, t[1], is_hole, value)
    return t


def check_floor(ctx, F, cfg):
    TRUNC_W, SKIP_W, TRUNCATE, FLOOR, PRED = names(F)
    """template `floor` on the path summaries of floor_char_boundary: returns (ok, covered) where covered maps the spans of the
    panic-capable constructs the template accounts for to the reason"""
    fn = F.fn(FLOOR)
    if fn is None:
        return None
    key = "C13|floor"
    ok_all = True
    covered = {}

    def need(suffix, cond, msg, where=None):
        nonlocal ok_all
        if not ctx.oblige(key + "|" + suffix, cond, "floor_char_boundary: " + msg, cfg=cfg, where=where or fn["sp"]):
            ok_all = False
        return cond

    if not need("params", len(fn["params"]) == 2 and fn["inputs"] == ["&str", "usize"] and fn["output"] == "usize", "signature is no longer (&str, usize) -> usize"):
        return False, covered
    (sname, _sid), (iname, _iid) = [H.pat_bindings(p)[0] for p in fn["params"]]
    Sx, Ix = ("param", sname), ("param", iname)

    def is_bytes(t):
        return t[0] == "call" and t[1] == "core::str::<impl str>::as_bytes" and t[2] == (Sx,)

    def is_len(t):
        if t[0] == "call" and t[1] == "core::slice::<impl [T]>::len" and len(t[2]) == 1 and is_bytes(t[2][0]):
            return True     # s.as_bytes().len() is s.len()
        return t[0] == "call" and t[1] == "core::str::<impl str>::len" and t[2] == (Sx,)

    pf = F.fn(PRED)
    sym = S.Sym(F, fn, is_effect=lambda callee, args, node, st: callee == "<index>" or (callee or "").split("::")[-1] in ("get_unchecked", "split_at", "from_raw_parts"),
                inline=lambda path, node: path != PRED and sym.default_inline(path, node))
    try:
        paths = sym.run()
    except S.TooManyPaths:
        need("paths", False, "too many paths")
        return False, covered

    def guard_of(p):
        """True: the path knows index < len; False: knows index >= len; None otherwise"""
        g = None
        for a in p.atoms:
            if a[0] == "true" and a[1][0] == "bin":
                op, l, r, pol = a[1][1], a[1][2], a[1][3], a[2]
                if op == "<" and l == Ix and is_len(r):
                    g = pol
                elif op == "<=" and is_len(l) and r == Ix:
                    g = not pol
                elif op == "<=" and l == Ix and is_len(r) or op == "<" and is_len(l) and r == Ix:
                    return "other"
        return g

    live = [p for p in paths if not (p.done and p.done[0] == "panic")]
    ub = [p for p in paths if p.done and p.done[0] == "panic"]
    clamp = [p for p in live if guard_of(p) is False]
    search = [p for p in live if guard_of(p) is True]
    # ---- second accepted idiom: step back from `index` until core's str::is_char_boundary holds
    #      if index >= len { len } else { let mut b = index; while !s.is_char_boundary(b) { b -= 1 }; b }
    # (is_char_boundary(0) is true, so the loop stops before `b -= 1` could underflow; b <= index < len throughout; the first
    #  boundary met going down from index is the largest one <= index)
    if any(p.loops for p in paths):
        ICB = "core::str::<impl str>::is_char_boundary"
        # either an explicit clamp branch (`if index >= len { return len }`) or a clamped start (`index.min(s.len())`: s.len() is a
        # boundary, so the loop is not entered for index >= len)
        clamped_start = not clamp and not ub and all(guard_of(p) is None for p in live)
        ok = clamped_start or (len(clamp) == 1 and not ub and all(guard_of(p) in (True, False) for p in live))
        need("stepback|guard", ok, "the guard is no longer `index >= s.len()` (clamp) / `index < s.len()` (search): %s" % [[S.show_atom(a) for a in p.atoms] for p in live][:3])
        if not ok:
            return False, covered
        if clamped_start:
            search = list(live)
        else:
            need("clamp-result", is_len(clamp[0].result), "when index >= len the result is %s, expected s.len()" % S.show(clamp[0].result)[:60])
        n_exit = n_step = 0
        for p in search:
            ent = [ev for ev in p.trace if ev[0] == "enter"]
            if not need("stepback|one-loop", len(ent) == 1 and len(ent[0][2]) == 1 and p.loops == 1, "more than one loop / loop-carried variable"):
                return False, covered
            lid, _nm, init, lv = ent[0][2][0]
            if init is not None and init[0] == "copy":
                init = init[1]      # `let mut b = index`: an integer copied by value
            if clamped_start:
                is_min = init is not None and init[0] == "call" and init[1].split("::")[-1] == "min" and len(init[2]) == 2 and ((init[2][0] == Ix and is_len(init[2][1])) or (init[2][1] == Ix and is_len(init[2][0])))
                need("stepback|starts-at-index", is_min, "the search starts at %s, not at min(index, s.len())" % S.show(init or ("unk", 0, "?"))[:40])
            else:
                need("stepback|starts-at-index", init == Ix, "the search starts at %s, not at index" % S.show(init)[:40])
            tests = [a for a in p.atoms if a[0] == "true" and a[1] == ("call", ICB, (Sx, lv), a[1][3] if len(a[1]) > 3 else None)]
            others = [a for a in p.atoms if a not in tests and not (a[0] == "true" and a[1][0] == "bin" and (is_len(a[1][2]) or is_len(a[1][3])))]
            if not need("stepback|test", len(tests) == 1 and not others, "an iteration decides on more than `s.is_char_boundary(b)`: %s" % [S.show_atom(a) for a in p.atoms][:3]):
                return False, covered
            ev = [e for e in p.trace if e[0] in ("iter", "break")][0]
            val = dict(ev[2]).get(lid)
            if ev[0] == "break":
                n_exit += 1
                need("stepback|exit", tests[0][2] is True and p.result == lv, "the loop is left when %s with result %s, expected: on a boundary, returning it" % (S.show_atom(tests[0]), S.show(p.result)[:40]))
            else:
                n_step += 1
                need("stepback|step", tests[0][2] is False and val == ("bin", "-", lv, ("lit", 1)), "a non-boundary position is followed by %s, expected b - 1" % S.show(val or ("unk", 0, "?"))[:40])
        need("stepback|shape", n_exit == 1 and n_step == 1, "the loop does not have exactly one exit (on a boundary) and one step (b - 1)")
        if ok_all:
            for sp, seen in sym.arith.items():
                for op, a, b in seen:
                    if op == "-" and b == ("lit", 1):
                        covered[sp] = "b - 1 with b > 0: position 0 is a character boundary, where the loop stops"
            for x in H.walk(fn["body"]):
                if x.get("k") == "loop":
                    covered[x.get("sp")] = "the step-back loop ends at a character boundary at or above 0"
        A = Analysis(fn)
        for kind, x in obligations(fn):
            need("obligation|%s" % A.desc(x)[:60], x.get("sp") in covered, "panic-capable construct outside the template: %s" % A.desc(x)[:100], where=H.line(x))
        return ok_all, covered
    extra_atoms = [a for p in paths for a in p.atoms if not (a[0] == "true" and a[1][0] == "bin" and (is_len(a[1][2]) or is_len(a[1][3])) and Ix in (a[1][2], a[1][3])) and not (a[0] in ("is", "isnot") and a[1][0] == "call" and a[1][1].endswith(("::rposition", "::find")))]
    if not need("guard", len(clamp) == 1 and len(search) == 1 and len(live) == 2 and not extra_atoms,
                "the guard is no longer `index >= s.len()` (clamp) / `index < s.len()` (search): %s" % [[S.show_atom(a) for a in p.atoms] for p in live][:3]):
        return False, covered
    need("clamp-result", is_len(clamp[0].result), "when index >= len the result is %s, expected s.len()" % S.show(clamp[0].result)[:60])
    r = search[0].result
    # the same search written over absolute positions: (lower ..= index).rev().find(|&i| pred(bytes[i])) -- the first hit going
    # down from index is the last boundary in the window
    rev_find = None
    found = None
    if r is not None and r[0] == "proj" and r[2] == S.SOME and r[1][0] == "call" and r[1][1].endswith("::find") and len(r[1][2]) == 2:
        found = r[1]
    elif r is not None and r[0] == "call" and r[1] == S.O + "unwrap_or" and len(r[2]) == 2 and r[2][1] == ("lit", 0) and r[2][0][0] == "call" and r[2][0][1].endswith("::find") and len(r[2][0][2]) == 2:
        found = r[2][0]       # `.unwrap_or(0)`: a safe fallback that is never taken (the window contains a boundary)
    if found is not None:
        r = ("proj", found, S.SOME, 0)
        it = r[1][2][0]
        if it[0] == "call" and it[1].endswith("Iterator::rev") and len(it[2]) == 1 and it[2][0][0] == "call" and it[2][0][1].endswith("RangeInclusive::<Idx>::new") and len(it[2][0][2]) == 2:
            rev_find = (it[2][0][2][0], it[2][0][2][1], r[1][2][1])
    if rev_find is not None:
        lower, upper, clos = rev_find
        if not need("lower", lower[0] == "call" and lower[1] == "core::num::<impl usize>::saturating_sub" and lower[2][0] == Ix and lower[2][1][0] == "lit" and isinstance(lower[2][1][1], int),
                    "lower bound is not index.saturating_sub(K): %s" % S.show(lower)[:100]):
            return False, covered
        K = lower[2][1][1]
        need("window-size", K + 1 >= 4, "the search window has %d positions; a UTF-8 character can be 4 bytes long, so the boundary may lie outside the window (undefined behaviour in unwrap_unchecked)" % (K + 1))
        need("window", upper == Ix, "the window does not end at index (inclusive): %s" % S.show(upper)[:60])
        pf = F.fn(PRED)
        probe = ("unk", -2, "position")
        body = sym.apply_closure(clos, [probe]) if clos[0] == "closure" and clos[1] in sym.closures else None
        if body is None and clos[0] == "closure" and clos[1] in sym.closures:
            # the predicate indexes the byte slice (an event of this analysis): evaluate it on a scratch copy of the search path
            scratch = search[0].fork()
            scratch.done = scratch.result = None
            res = [t for s2, t in sym.inline_closure(clos, [probe], scratch) if s2.done is None]
            body = res[0] if len(res) == 1 else None
        byte_at = lambda t: t[0] == "index" and is_bytes(t[1]) and t[2] == probe
        core_pred = body is not None and body[0] == "call" and body[1] == "core::str::<impl str>::is_char_boundary" and body[2] == (Sx, probe)
        user_pred = body is not None and body[0] == "call" and pf is not None and body[1] == PRED and len(body[2]) == 1 and byte_at(body[2][0])
        formula = body is not None and not core_pred and not user_pred and any(byte_at(x) for x in S.subterms(body))
        if core_pred:
            need("predicate-call", True, "")      # core's str::is_char_boundary(position): the boundary test itself
        elif need("predicate-anchor", user_pred and len(pf["params"]) == 1 and pf["inputs"] == ["u8"] or formula,
                  "the search predicate is neither `|i| is_utf8_char_boundary(bytes[i])`, `|i| s.is_char_boundary(i)` nor a formula over bytes[i]: %s" % S.show(body or ("unk", 0, "?"))[:80]):
            bad = None
            acc = set()
            for b in range(256):
                if user_pred:
                    try:
                        ps = S.Sym(F, pf, param_terms={H.pat_bindings(pf["params"][0])[0][0]: ("lit", b)}).run()
                    except S.TooManyPaths:
                        ps = []
                    vals = {p.result for p in ps}
                else:
                    vals = {fold_term(sym, body, byte_at, ("lit", b))}
                if len(vals) == 1 and next(iter(vals)) in (("lit", True), ("lit", False)):
                    if next(iter(vals))[1]:
                        acc.add(b)
                else:
                    bad = (b, [S.show(v)[:40] for v in vals])
                    break
            if bad is not None:
                need("predicate-formula", False, "boundary predicate is not a closed byte formula (byte 0x%02x gives %s)" % bad, where=(pf or fn)["sp"])
            else:
                must = set(range(0x00, 0x80)) | set(range(0xC2, 0xF5))
                mustnot = set(range(0x80, 0xC0))
                need("predicate-set", must <= acc and not (acc & mustnot),
                     "is_utf8_char_boundary accepts %s, rejects %s: it must accept every ASCII and lead byte and no continuation byte" %
                     (sorted("0x%02x" % b for b in acc & mustnot)[:6], sorted("0x%02x" % b for b in must - acc)[:6]), where=(pf or fn)["sp"])
            # the index inside the predicate: lower <= i <= index < len
            cnode = sym.closures[clos[1]][0]
            for x in H.walk(cnode["body"]):
                if x.get("k") == "index":
                    covered[x.get("sp")] = "bytes[i] with lower <= i <= index < len"
        for p in ub:
            covered[p.done[1]] = "a window of >= 4 positions ending at index < len contains a boundary"
        A = Analysis(fn)
        for kind, x in obligations(fn):
            if kind == "unsafe":
                inner = [y for y in H.walk(x) if y is not x and (y.get("unsafe_fn") or (y.get("k") == "unary" and y["op"] == "deref" and (y["e"].get("ty") or "").startswith("*")))]
                need("unsafe-block|%d" % len(inner), all(y.get("sp") in covered for y in inner), "the unsafe block contains more than the unwrap_unchecked of the search result", where=H.line(x))
            else:
                need("obligation|%s" % A.desc(x)[:60], x.get("sp") in covered, "panic-capable construct outside the template: %s" % A.desc(x)[:100], where=H.line(x))
        return ok_all, covered
    if not need("result-shape", r is not None and r[0] == "bin" and r[1] == "+", "the result is not `lower_bound + position`: %s" % S.show(r)[:120]):
        return False, covered
    UNW_OR = (S.O + "unwrap_or", S.O + "unwrap_or_default")

    def is_pos(t):
        if t[0] == "proj" and t[2] == S.SOME and t[1][0] == "call" and t[1][1].endswith("::rposition"):
            return t[1]
        if t[0] == "call" and t[1] in UNW_OR and t[2] and t[2][0][0] == "call" and t[2][0][1].endswith("::rposition"):
            return t[2][0]
        if t[0] == "proj" and t[2] == S.SOME and t[1][0] == "call" and "Iterator::" in t[1][1]:
            return t[1]
        return None

    l, rr = r[2], r[3]
    lower, pos = (l, rr) if is_pos(rr) is not None else (rr, l)
    srch = is_pos(pos)
    if not need("position", srch is not None, "position is not the unwrapped search result: %s" % S.show(pos)[:80]):
        return False, covered
    if not need("lower", lower[0] == "call" and lower[1] == "core::num::<impl usize>::saturating_sub" and lower[2][0] == Ix and lower[2][1][0] == "lit" and isinstance(lower[2][1][1], int),
                "lower bound is not index.saturating_sub(K): %s" % S.show(lower)[:100]):
        return False, covered
    K = lower[2][1][1]
    need("window-size", K + 1 >= 4, "the search window has %d positions; a UTF-8 character can be 4 bytes long, so the boundary may lie outside the window (undefined behaviour in unwrap_unchecked)" % (K + 1))
    if not need("search-last", srch[1].endswith("::rposition"),
                "the search is `%s`, not rposition: the *last* boundary in the window is the floor" % S.short_fn(srch[1])):
        return False, covered
    win = srch[2][0]
    good = win[0] == "index" and win[1] == ("call", "core::str::<impl str>::as_bytes", (Sx,), win[1][3] if len(win[1]) > 3 else None)
    lo, hi = _range_bounds(win[2]) if good else (None, None)
    incl = False
    if good and hi is not None:
        if hi[0] == "incl":
            incl = hi[1] == Ix
        else:
            e = hi[1]
            incl = e is not None and e[0] == "bin" and e[1] == "+" and {e[2], e[3]} == {Ix, ("lit", 1)}
    if not need("window", good and lo == lower and incl, "the window is not s.as_bytes()[lower_bound ..= index] (inclusive of index): %s" % S.show(win)[:140]):
        return False, covered
    # the predicate: a closed formula over one byte, folded for each of the 256 byte values
    clos = srch[2][1]
    acc = None
    if need("predicate-anchor", pf is not None and len(pf["params"]) == 1 and pf["inputs"] == ["u8"] and clos[0] == "closure" and clos[1] in sym.closures, "anchor missing: is_utf8_char_boundary(u8) / the search predicate is not a closure"):
        probe = ("unk", -2, "byte")
        body = sym.apply_closure(clos, [probe])
        need("predicate-call", body is not None and body[0] == "call" and body[1] == PRED and body[2] == (probe,), "the search predicate is not `|b| is_utf8_char_boundary(*b)`: %s" % S.show(body)[:80])
        acc = set()
        bad = None
        for b in range(256):
            try:
                ps = S.Sym(F, pf, param_terms={H.pat_bindings(pf["params"][0])[0][0]: ("lit", b)}).run()
            except S.TooManyPaths:
                ps = []
            vals = {p.result for p in ps}
            if len(vals) == 1 and next(iter(vals)) in (("lit", True), ("lit", False)):
                if next(iter(vals))[1]:
                    acc.add(b)
            else:
                bad = (b, [S.show(v)[:40] for v in vals])
                break
        if bad is not None:
            need("predicate-formula", False, "boundary predicate is not a closed byte formula (byte 0x%02x gives %s)" % bad, where=(pf or fn)["sp"])
        else:
            must = set(range(0x00, 0x80)) | set(range(0xC2, 0xF5))
            mustnot = set(range(0x80, 0xC0))
            need("predicate-set", must <= acc and not (acc & mustnot),
                 "is_utf8_char_boundary accepts %s, rejects %s: it must accept every ASCII and lead byte and no continuation byte" %
                 (sorted("0x%02x" % b for b in acc & mustnot)[:6], sorted("0x%02x" % b for b in must - acc)[:6]), where=(pf or fn)["sp"])
            ctx.sample({"cfg": cfg, "boundary_predicate_accepts": "0x00-0x7f,0xc0-0xff" if acc == set(range(0, 0x80)) | set(range(0xC0, 0x100)) else sorted(acc)[:40], "K": K})
    # the panic-capable constructs the template accounts for
    for e in search[0].effects:
        if e.kind == "index":
            covered[e.node.get("sp")] = "window index: lower <= index < len on this path"
    for sp, seen in sym.arith.items():
        for op, a, b in seen:
            if op == "+" and {a, b} == {lower, pos}:
                covered[sp] = "lower + position <= index < len"
            elif op == "+" and {a, b} == {Ix, ("lit", 1)}:
                covered[sp] = "index + 1 <= len (only evaluated when index < len)"
    for p in ub:
        covered[p.done[1]] = "a window of >= 4 positions ending at index < len contains a boundary"
    # obligations in floor: exactly the template's
    A = Analysis(fn)
    for kind, x in obligations(fn):
        if kind == "unsafe":
            inner = [y for y in H.walk(x) if y is not x and (y.get("unsafe_fn") or (y.get("k") == "unary" and y["op"] == "deref" and (y["e"].get("ty") or "").startswith("*")))]
            need("unsafe-block|%d" % len(inner), all(y.get("sp") in covered for y in inner), "the unsafe block contains more than the unwrap_unchecked of the search result", where=H.line(x))
        elif kind == "arith" and x["op"] in ("-", "*") and H.lit(x["l"]) is not None or (kind == "arith" and all((H.lit(y) is not None or (H.strip(y).get("k") == "path" and (H.strip(y)["res"].get("rk") or "").startswith(("Const", "AssocConst")))) for y in (x["l"], x["r"]))):
            continue    # arithmetic on constants: evaluated by the compiler (an overflow is a compile error)
        else:
            need("obligation|%s" % A.desc(x)[:60], x.get("sp") in covered, "panic-capable construct outside the template: %s" % A.desc(x)[:100], where=H.line(x))
    return ok_all, covered


def check_truncate(ctx, F, cfg, floor_present):
    TRUNC_W, SKIP_W, TRUNCATE, FLOOR, PRED = names(F)
    """truncate::<L>: pushes exactly s[..floor(s, L)] into a fresh String<L> and returns it; returns (ok, covered spans)"""
    fn = F.fn(TRUNCATE)
    covered = {}
    if fn is None:
        return False, covered
    sname = H.pat_bindings(fn["params"][0])[0][0] if fn["params"] else "s"
    Sx = ("param", sname)
    FLOORS = (FLOOR, "core::str::<impl str>::floor_char_boundary")

    def fresh(t):
        return t[0] == "call" and not t[2] and t[1] == "heapless::string::String::<N>::new"

    SPLIT_AT = "core::str::<impl str>::split_at"
    sym = S.Sym(F, fn, is_effect=lambda callee, args, node, st: callee == "<index>" or callee == SPLIT_AT or is_string_from(node) or (bool(args) and fresh(args[0]) and (callee or "").split("::")[-1] not in ("new", "len", "as_str")),
                inline=lambda path, node: path not in FLOORS and sym.default_inline(path, node))
    try:
        paths = sym.run()
    except S.TooManyPaths:
        paths = []
    live = [p for p in paths if not (p.done and p.done[0] == "panic")]
    good = len(live) == 1 and not live[0].atoms[:-1] if live else False
    fl_ok = push_ok = False

    def cut_of(arg):
        """the cut position when arg is the prefix of s up to it: s[..cut] / s[0..cut] / s.split_at(cut).0"""
        if arg[0] == "index" and arg[1] == Sx:
            lo, hi = _range_bounds(arg[2])
            return hi[1] if hi and hi[0] == "excl" and lo == ("lit", 0) else None
        if arg[0] == "tproj" and arg[2] == 0 and arg[1][0] == "call" and arg[1][1] == SPLIT_AT and len(arg[1][2]) == 2 and arg[1][2][0] == Sx:
            return arg[1][2][1]
        return None

    def is_floor_L(cut):
        return cut is not None and cut[0] == "call" and cut[1] in FLOORS and cut[2][0] == Sx and cut[2][1][0] in ("path", "const") and cut[2][1][1] == TRUNCATE + "::L"

    if live:
        p = live[0]
        pushes = [e for e in p.effects if e.kind == "call" and e.callee == "heapless::string::String::<N>::push_str"]
        idx = [e for e in p.effects if e.kind == "index" or e.callee == SPLIT_AT]
        froms = [e for e in p.effects if is_string_from(e.node)]
        others = [e for e in p.effects if e not in pushes and e not in idx and e not in froms]
        ret_L = "String<L>" in (fn.get("output") or "")
        if len(pushes) == 1 and not others and not froms:
            fl_ok = is_floor_L(cut_of(pushes[0].args[1]))
            push_ok = fl_ok and p.result == pushes[0].args[0] and fresh(p.result) and sym.lookup(p, pushes[0].term) == S.OK and ret_L
        elif len(froms) == 1 and not others and not pushes and len(froms[0].args) == 1:
            # String::<L>::from(prefix): heapless' conversion panics only beyond L bytes, and floor(s, L) <= L
            fl_ok = is_floor_L(cut_of(froms[0].args[0]))
            push_ok = fl_ok and p.result == froms[0].term and ret_L and not [q for q in paths if q.done and q.done[0] == "panic"]
            if push_ok:
                covered[froms[0].node.get("sp")] = "String::<L>::from(prefix): the prefix has at most L bytes"
        if push_ok:
            for e in idx:
                covered[e.node.get("sp")] = "s[..floor(s, L)] / s.split_at(floor(s, L)): the cut is on a character boundary and <= len"
            for q in paths:
                if q.done and q.done[0] == "panic":
                    covered[q.done[1]] = "the prefix has at most L bytes: it fits the fresh String<L>"
    ctx.oblige("C13|truncate|floor-call", fl_ok, "truncate::<L> does not cut at floor_char_boundary(s, L) with its own capacity L", cfg=cfg, where=fn["sp"])
    ctx.oblige("C13|truncate|push-prefix", push_ok, "truncate does not push exactly s[..floor] into a fresh String<L> and return it", cfg=cfg, where=fn["sp"])
    A = Analysis(fn)
    for kind, x in obligations(fn):
        ctx.oblige("C13|truncate|obligation|%s" % A.desc(x)[:60], push_ok and x.get("sp") in covered, "panic-capable construct outside the template in truncate: %s" % A.desc(x)[:100], cfg=cfg, where=H.line(x))
    return push_ok, covered


def leaf_ty(sym, e):
    """the type a Deserialize::deserialize call decodes; a type parameter of an expanded generic helper is replaced by what the
    call site instantiates it with"""
    from . import wire as W_
    return W_.erase_lt(sym.type_arg(e, (e.node.get("targs") or [""])[0]))


def is_string_from(node):
    """`String::<N>::from(&str)` of heapless 0.7 (also through .into()): panics when the text has more than N bytes"""
    if not isinstance(node, dict) or node.get("k") not in ("call", "mcall"):
        return False
    ta = node.get("targs") or [""]
    if node.get("callee") == "core::convert::From::from" and ta[0].startswith("heapless::string::String<"):
        return True
    return node.get("callee") == "core::convert::Into::into" and len(ta) > 1 and ta[1].startswith("heapless::string::String<") and ta[0] in ("&str", "&'de str", "&'a str")


def fits_guard(p, e, text, cap_terms):
    """the atoms before effect e on path p contain `len(text) <= L` (in either canonical spelling)"""
    is_len = lambda x: x[0] == "call" and x[1] == "core::str::<impl str>::len" and x[2] == (text,)
    for a in p.atoms[:e.natoms]:
        if a[0] != "true" or a[1][0] != "bin":
            continue
        op, l, r, pol = a[1][1], a[1][2], a[1][3], a[2]
        if op == "<=" and is_len(l) and r in cap_terms and pol:
            return True
        if op == "<" and l in cap_terms and is_len(r) and not pol:
            return True
    return False


def wrapper_paths(F, fn, opaque=()):
    """path summaries of a text-decoding wrapper: effects = the inner Deserialize call and every mutation of a fresh String"""
    def fresh(t):
        return t[0] == "call" and not t[2] and t[1].split("::")[-1] == "new"

    def is_effect(callee, args, node, st):
        if node.get("callee") == DESER or is_string_from(node):
            return True
        if callee in ("<assign>",):
            return bool(args) and fresh(args[0])
        return bool(args) and fresh(args[0]) and (callee or "").split("::")[-1] not in ("len", "capacity", "is_empty", "as_str", "as_bytes", "new")

    def inline(path, node):
        f = sym.body_for(path)
        return f is not None and (f.get("pv") or "user") == "user" and path not in opaque

    sym = S.Sym(F, fn, is_effect=is_effect, inline=inline)
    return sym, sym.run(split_result=True)


def inner_error_only(sym, paths, D):
    """every Err result is the inner decoder's own error, unchanged"""
    bad = []
    for p in paths:
        r = p.result
        if r is not None and r[0] == "ctor" and r[1] == S.ERR:
            if not (sym.lookup(p, D.term) == S.ERR and DP.strip_conv(r[2][0]) == sym.proj(D.term, S.ERR, 0)):
                bad.append(S.show(r)[:80])
    return bad


def check_skip(ctx, F, cfg, fn):
    TRUNC_W, SKIP_W, TRUNCATE, FLOOR, PRED = names(F)
    """skip_if_too_long: Err only from decoding the text; Ok(Some(<fresh String<L> holding exactly the decoded text>)) when it
    fits; Ok(None) when it does not; a length pre-check is accepted only as `len > L`"""
    PUSH = "heapless::string::String::<N>::push_str"
    try:
        sym, paths = wrapper_paths(F, fn)
    except S.TooManyPaths:
        ctx.violation("C13|skip|paths", "too many paths", cfg=cfg)
        return
    ds = {e.term: e for p in paths for e in p.effects if e.tcallee == DESER}
    if not ctx.oblige("C13|skip|only-inner-error", len(ds) == 1 and leaf_ty(sym, next(iter(ds.values()))) == "&str",
                      "skip_if_too_long does not decode exactly one text string (%s)" % [leaf_ty(sym, e) for e in ds.values()], cfg=cfg, where=fn["sp"]):
        return
    D = next(iter(ds.values()))
    text = sym.proj(D.term, S.OK, 0)
    bad = inner_error_only(sym, paths, D)
    ctx.oblige("C13|skip|only-inner-error|exits", not bad, "skip_if_too_long has error exits other than decoding the text itself: %s" % bad[:2], cfg=cfg, where=fn["sp"])
    kept = dropped = 0
    others = []
    lent = ("call", "core::str::<impl str>::len", (text,))
    cap_terms = [("path", SKIP_W + "::L"), ("const", SKIP_W + "::L")]
    for p in paths:
        r = p.result
        if p.done and p.done[0] == "panic":
            ctx.oblige("C13|skip|no-panic|" + str(p.done[2])[-30:], False, "skip_if_too_long can panic (%s): an over-long icon aborts instead of being dropped" % (p.done,), cfg=cfg, where=fn["sp"])
            continue
        if r is None or r[0] != "ctor" or r[1] != S.OK:
            continue
        v = r[2][0]
        froms = [e for e in p.effects if is_string_from(e.node)]
        muts = [e for e in p.effects if e.tcallee != DESER and e not in froms]
        pushes = [e for e in muts if e.callee == PUSH and len(e.args) == 2 and e.args[1] == text]
        # length pre-checks on this path: atoms comparing len(text) with L
        pre = []
        for a in p.atoms:
            if a[0] == "true" and a[1][0] == "bin" and any(x[0] == "call" and x[1] == "core::str::<impl str>::len" and x[2] == (text,) for x in (a[1][2], a[1][3])):
                pre.append(a)
        if v[0] == "ctor" and v[1] == S.SOME:
            good = len(muts) == 1 and len(pushes) == 1 and not froms and v[2] == (pushes[0].args[0],) and sym.lookup(p, pushes[0].term) == S.OK
            # or: the panicking String::<L>::from(text), reached only when len(text) <= L
            if not good and not muts and len(froms) == 1 and froms[0].args == (text,) and v[2] == (froms[0].term,) and fits_guard(p, froms[0], text, cap_terms) \
                    and "String<L>" in ((froms[0].node.get("targs") or [""])[0] + (froms[0].node.get("ty") or "")):
                good = True
            if good:
                kept += 1
            else:
                others.append(S.show(r)[:80])
        elif v == ("ctor", S.NONE, ()):
            by_push = len(muts) == 1 and len(pushes) == 1 and not froms and sym.lookup(p, pushes[0].term) == S.ERR
            by_pre = False
            if not muts and not froms and pre and p.atoms and p.atoms[-1] is pre[-1]:
                a = pre[-1]
                op, l, rr, pol = a[1][1], a[1][2], a[1][3], a[2]
                # canonical comparisons are < and <= : `len > L` is (L < len) true, or (len <= L) false
                is_len = lambda x: x[0] == "call" and x[1] == "core::str::<impl str>::len"
                strictly_longer = (op == "<" and is_len(rr) and not is_len(l) and pol) or (op == "<=" and is_len(l) and not is_len(rr) and not pol)
                if strictly_longer:
                    by_pre = True
                else:
                    ctx.oblige("C13|skip|precheck-boundary", False, "the length pre-check drops the icon under `%s`: an icon of exactly L bytes (which fits) is reported absent" % S.show_atom(a), cfg=cfg, where=fn["sp"])
                    continue
            if by_push or by_pre:
                dropped += 1
            else:
                others.append("None when %s" % [S.show_atom(a) for a in p.atoms][-2:])
        else:
            others.append(S.show(r)[:80])
    # the conversion must be genuinely fallible: core's blanket `impl<T, U: Into<T>> TryFrom<U> for T` is infallible
    # (Error = Infallible) and forwards to From::from, which for heapless 0.7 String *panics* when the text does not fit
    CONV = "<heapless::string::String<L> as core::convert::TryFrom<&str>>"
    bodies = [fn] + [F.fn(q) for q in sym.inlined if F.fn(q) is not None]
    convs = [x for g in bodies for x in H.walk(g["body"]) if H.conversion_impl(x) == CONV or (x.get("callee") == "core::convert::From::from" and (x.get("targs") or [""])[0].startswith("heapless::string::String<"))]
    blanket = [x for x in convs if x.get("resolved") == "<T as core::convert::TryFrom<U>>::try_from" or "core::convert::Infallible" in (x.get("ty") or "") or x.get("callee") == "core::convert::From::from"]
    # .. unless every evaluation of it is preceded by the test `len(text) <= L` having come out true
    def guarded(x):
        evs = [(p, e) for p in paths for e in p.effects if e.node is x]
        return bool(evs) and all(e.args == (text,) and fits_guard(p, e, text, cap_terms) for p, e in evs)
    covered = {x.get("sp"): "String::<L>::from(text) evaluated only after `len(text) <= L` came out true" for x in blanket if guarded(x)}
    blanket = [x for x in blanket if not guarded(x)]
    ctx.oblige("C13|skip|fallible-conversion", not blanket,
               "the text is converted with heapless' panicking String::from(&str) (directly or through core's infallible blanket TryFrom): "
               "an icon longer than the capacity panics instead of being dropped", cfg=cfg, where=H.line(blanket[0]) if blanket else fn["sp"])
    ctx.oblige("C13|skip|keeps-when-fits", kept >= 1, "an icon that fits is not returned verbatim as Some(<String<L> holding the decoded text>)", cfg=cfg, where=fn["sp"])
    ctx.oblige("C13|skip|drops-when-too-long", dropped >= 1, "an over-long icon is not reported absent with Ok(None)", cfg=cfg, where=fn["sp"])
    ctx.oblige("C13|skip|no-other-result", not others, "skip_if_too_long has other results: %s" % others[:3], cfg=cfg, where=fn["sp"])
    ctx.sample({"cfg": cfg, "skip_if_too_long": S.summarize(paths)}, limit=3)
    return covered if (kept >= 1 and dropped >= 1 and not others and not blanket) else {}


def check_trunc_wrapper(ctx, F, cfg, fn):
    TRUNC_W, SKIP_W, TRUNCATE, FLOOR, PRED = names(F)
    """Ok(None) for an absent text, Ok(Some(truncate::<L>(text))) for a present one, Err only from the inner decoder"""
    try:
        sym, paths = wrapper_paths(F, fn, opaque=(TRUNCATE,))
    except S.TooManyPaths:
        ctx.violation("C13|trunc-wrapper|paths", "too many paths", cfg=cfg)
        return
    ds = {e.term: e for p in paths for e in p.effects if e.tcallee == DESER}
    good = len(ds) == 1 and leaf_ty(sym, next(iter(ds.values()))) == "core::option::Option<&str>"
    why = "it does not decode exactly one Option<&str>"
    if good:
        D = next(iter(ds.values()))
        opt = sym.proj(D.term, S.OK, 0)
        bad = inner_error_only(sym, paths, D)
        if bad:
            good, why = False, "error exits other than the inner decoder's: %s" % bad[:2]
        n_some = n_none = n_whole = 0
        own_strings = set()
        PUSH_STR = "heapless::string::String::<N>::push_str"

        def whole_copy(p, val, text):
            es = [e for e in p.effects if e.tcallee != DESER]
            return (len(es) == 1 and es[0].callee == PUSH_STR and es[0].args == (val, text) and val[0] == "call" and not val[2] and val[1].split("::")[-1] == "new"
                    and sym.lookup(p, es[0].term) == S.OK and "String<L>" in (fn.get("output") or ""))

        for p in paths:
            r = p.result
            if p.done and p.done[0] == "panic":
                good, why = False, "it can panic (%s)" % (p.done,)
                continue
            if r is None or r[0] != "ctor" or r[1] != S.OK:
                continue
            v = r[2][0]
            k = sym.lookup(p, opt)
            if v == ("ctor", S.NONE, ()) and k == S.NONE:
                n_none += 1
            elif v[0] == "ctor" and v[1] == S.SOME and k == S.SOME and v[2][0][0] == "call" and v[2][0][1] == TRUNCATE and v[2][0][2] == (sym.proj(opt, S.SOME, 0),):
                # .. possibly after a whole-text copy was tried and did not fit (that attempt's string is dropped)
                tries = [e for e in p.effects if e.tcallee != DESER]
                if all(e.callee == PUSH_STR and len(e.args) == 2 and e.args[1] == sym.proj(opt, S.SOME, 0) and e.args[0] != v[2][0] and sym.lookup(p, e.term) == S.ERR for e in tries):
                    n_some += 1
                    own_strings.update(id(e) for e in tries)
                else:
                    good, why = False, "the text is copied elsewhere before it is truncated"
            elif v[0] == "ctor" and v[1] == S.SOME and k == S.SOME and whole_copy(p, v[2][0], sym.proj(opt, S.SOME, 0)):
                # the whole text copied into a fresh String<L> and the copy succeeded: the text has at most L bytes, and
                # truncate(s) == s for such a text (floor clamps to s.len(), template clause `clamp-result`)
                n_some += 1
                n_whole += 1
                own_strings.update(id(e) for e in p.effects if e.tcallee != DESER)
            else:
                good, why = False, "a result is %s when the text is %s" % (S.show(r)[:80], S.short(k) if k else "?")
        if good and not (n_some >= 1 and n_none >= 1):
            good, why = False, "missing the Some / None case"
        muts = [e for p in paths for e in p.effects if e.tcallee != DESER and id(e) not in own_strings]
        if good and n_whole and n_some == n_whole:
            good, why = False, "an over-long text is never truncated"
        if good and muts:
            good, why = False, "it builds a string itself (%s)" % S.short_fn(muts[0].callee)
    # truncate is instantiated with the wrapper's own capacity
    calls = [x for g in [fn] + [F.fn(q) for q in sym.inlined if F.fn(q) is not None] for x in H.walk(g["body"]) if (x.get("k") == "path" and x["res"].get("path") == TRUNCATE) or x.get("callee") == TRUNCATE]
    tys = {(x.get("ty") or "") for x in calls}
    if good and not (calls and all("heapless::string::String<L>" in t for t in tys)):
        good, why = False, "truncate is not instantiated with the wrapper's capacity L (%s)" % sorted(tys)[:1]
    ctx.oblige("C13|trunc-wrapper", good, "the truncating decoder is no longer Ok(<decoded Option<&str>>.map(truncate::<L>)): %s" % why, cfg=cfg, where=fn["sp"])


def check_icon(ctx, F, cfg, fn):
    try:
        sym, paths = wrapper_paths(F, fn)
    except S.TooManyPaths:
        return False
    ds = {e.term: e for p in paths for e in p.effects if e.tcallee == DESER}
    if len(ds) != 1 or leaf_ty(sym, next(iter(ds.values()))) != "&str":
        return False
    D = next(iter(ds.values()))
    if inner_error_only(sym, paths, D):
        return False
    oks = [p for p in paths if p.result is not None and p.result[0] == "ctor" and p.result[1] == S.OK]
    # "a relying-party icon of any length is accepted and discarded": nothing in the decoder (or a helper expanded into it) may
    # index, slice, do unchecked arithmetic or call a contract-panicking API on the text
    bodies = [fn] + [F.fn(q) for q in sym.inlined if F.fn(q) is not None]
    risky = [(k, x) for g in bodies for k, x in obligations(g) if k != "diverge" and (x.get("pv") or "user") == "user"]
    ctx.oblige("C13|icon|no-panic", not risky, "the decoder of the discarded relying-party icon contains a panic-capable construct (%s): a text of some shape aborts decoding instead of being accepted and discarded" %
               ", ".join(sorted({k for k, _ in risky})), cfg=cfg, where=H.line(risky[0][1]) if risky else fn["sp"], nontrivial=False)
    if risky:
        return True      # reported above with its own message
    return len(oks) == 1 and sym.lookup(oks[0], D.term) == S.OK and oks[0].result[2][0] == ("ctor", "webauthn::Icon", ()) and not any(p.done and p.done[0] == "panic" for p in paths) \
        and all(len([e for e in p.effects]) == 1 for p in paths)


def run(ctx):
    spec = json.load(open(os.path.join(VERIF, "spec", "ctap2_messages.json")))
    ctx.explanation = ("Wiring table from the generated decoders; path literals of the two wrapper functions; a semantic template for floor_char_boundary/truncate whose slots are "
                       "extracted from typed HIR and whose side conditions (window inclusive, window size >= 4, last match, result = lower + position, boundary byte set from the "
                       "predicate's AST expanded over 256 bytes, truncate passes its own L, pushes s[..floor] into a fresh String<L>) are evaluated on the slot values. "
                       "The for-all-strings statement is carried by the paper argument over these slots recorded in DESIGN.md, not by exploration.")
    ctx.rule = "obligation = wiring row | result-site literal set | template slot / side condition | panic-capable construct, per configuration"
    ctx.trusted = ["core::str::from_utf8 (input text is valid UTF-8 when it reaches these functions: serde's &str decoding in cbor-smol)", "heapless 0.7.17 String::push_str / TryFrom<&str>",
                   "UTF-8: at most 3 consecutive continuation bytes, text starts on a boundary"]
    ctx.assumptions = ["the paper argument in DESIGN.md section 5/C13 linking the slot conditions to the longest-prefix property"]
    for cfg, F in ctx.facts.items():
        TRUNC_W, SKIP_W, TRUNCATE, FLOOR, PRED = names(F)
        ctx.extra.setdefault("helper_roles", {})[cfg] = {"truncating wrapper": TRUNC_W, "skipping wrapper": SKIP_W, "truncate": TRUNCATE, "floor": FLOOR, "boundary predicate": PRED}
        want_wiring = {("webauthn::PublicKeyCredentialRpEntity", "name"): (TRUNC_W, 64), ("webauthn::PublicKeyCredentialUserEntity", "name"): (TRUNC_W, 64),
                       ("webauthn::PublicKeyCredentialUserEntity", "display_name"): (TRUNC_W, 64), ("webauthn::PublicKeyCredentialUserEntity", "icon"): (SKIP_W, 128)}
        ctx.oblige("C13|wiring|distinct-decoders", TRUNC_W != SKIP_W, "names and icon are decoded by the same lossy decoder (%s): one of truncate / drop semantics is lost" % TRUNC_W, cfg=cfg)
        # ---- wiring
        n_w = 0
        for (path, field), (wfn, cap) in want_wiring.items():
            key = "C13|wiring|%s|%s" % (path.split("::")[-1], field)
            try:
                tab = W.decode_table(F, path)
            except T.Unreadable as e:
                ctx.violation(key + "|unreadable", "UNREADABLE-IMPL: %s" % e, cfg=cfg)
                continue
            m = next((m for m in (tab or {"members": []})["members"] if m["field"] == field), None)
            if not ctx.oblige(key + "|anchor", m is not None, "anchor missing: %s.%s" % (path, field), cfg=cfg):
                continue
            n_w += 1
            w = m["with"] or {}
            ctx.oblige(key + "|decoder", w.get("fn") == wfn, "%s.%s is decoded through %s, expected %s" % (path, field, w.get("fn"), wfn), cfg=cfg)
            ctx.oblige(key + "|capacity", str(cap) in (w.get("targs") or []) and W.capacity(m["field_ty"]) == {"kind": "text", "cap": cap},
                       "%s.%s: decoder instantiated with %s for a member of type %s (expected capacity %d)" % (path, field, w.get("targs"), m["field_ty"], cap), cfg=cfg)
            ctx.oblige(key + "|optional", m["required"] is False, "%s.%s became required" % (path, field), cfg=cfg, nontrivial=False)
        ctx.floor("lossy text members", n_w, 4, cfg=cfg)
        # rp.icon
        try:
            rp = W.decode_table(F, "webauthn::PublicKeyCredentialRpEntity")
            rpe = W.encode_table(F, "webauthn::PublicKeyCredentialRpEntity")
        except T.Unreadable:
            rp = rpe = None
        icon = next((m for m in (rp or {"members": []})["members"] if m["field"] == "icon"), None)
        ctx.oblige("C13|rp-icon|decode", icon is not None and icon["ty"] == "core::option::Option<webauthn::Icon>" and icon["key"] == "icon" and icon["aliases"] == ["url"] and icon["required"] is False and icon["with"] is None,
                   "rp.icon is no longer an optional Icon accepted under `icon` and `url`: %s" % (icon and {k: icon[k] for k in ("ty", "key", "aliases", "required")}), cfg=cfg)
        ctx.oblige("C13|rp-icon|not-emitted", rpe is not None and "icon" in rpe["never"], "rp.icon is re-emitted", cfg=cfg)
        ia = F.adt("webauthn::Icon")
        ctx.oblige("C13|icon|stores-nothing", ia is not None and all(not v["fields"] for v in ia["variants"]), "Icon stores data", cfg=cfg)
        idf = F.impl_fn("serde_core::de::Deserialize", "webauthn::Icon", "deserialize")
        good = len(idf) == 1 and check_icon(ctx, F, cfg, idf[0])
        ctx.oblige("C13|icon|decodes-text", good, "Icon::deserialize no longer decodes exactly one text string and succeeds", cfg=cfg)
        # ---- skip_if_too_long
        fn = F.fn(SKIP_W)
        if ctx.oblige("C13|skip|anchor", fn is not None, "anchor missing: " + SKIP_W, cfg=cfg):
            check_skip(ctx, F, cfg, fn)
        # ---- truncate wrapper
        fn = F.fn(TRUNC_W)
        if ctx.oblige("C13|trunc-wrapper|anchor", fn is not None, "anchor missing: " + TRUNC_W, cfg=cfg):
            check_trunc_wrapper(ctx, F, cfg, fn)
        # ---- truncate
        fn = F.fn(TRUNCATE)
        floor_fn = F.fn(FLOOR)
        if ctx.oblige("C13|truncate|anchor", fn is not None, "anchor missing: webauthn::truncate", cfg=cfg):
            check_truncate(ctx, F, cfg, floor_fn is not None)
        if ctx.tier == "thorough" and cfg == "k0":
            from .clippyxref import cross_reference
            spans = []
            for p_ in (TRUNCATE, FLOOR, PRED, SKIP_W, TRUNC_W):
                f_ = F.fn(p_)
                if f_ is not None:
                    spans += [x.get("sp") for _, x in obligations(f_)] + [x.get("sp") for x in H.walk(f_["body"]) if x.get("k") == "cast"]
            cross_reference(ctx, spans, files=["src/webauthn.rs"])
        if floor_fn is not None:
            check_floor(ctx, F, cfg)
        else:
            ctx.note("floor_char_boundary is not a crate function any more (template absent): the cut position is core's str::floor_char_boundary if truncate calls it")
            ctx.oblige("C13|floor|absent-ok", fn is not None and any(x.get("callee") == "core::str::<impl str>::floor_char_boundary" for x in H.walk(fn["body"])),
                       "neither the crate's floor_char_boundary nor core's is used", cfg=cfg)
