"""C03 — everything the authenticator emits is CTAP2 canonical CBOR (the part that lives in /repo).

Decides:
  (O) for every map-emitting Serialize impl of the crate and every configuration: every *pair*
      of members is emitted in canonical key order (text keys: shorter UTF-8 first, then bytewise;
      integer keys: non-negative and strictly ascending).  Emission order is the order of the
      serialize_field / serialize_entry calls in a loop-free body, so all pairs sorted <=> every
      subset sorted.  Keys unique.
  (W) definite lengths only: every serialize_map / serialize_seq call passes Some(_).
  (C) the serialisable type closure of every response payload and of the two extension-output
      maps contains no float / char / 128-bit integer / unordered map, and every crate type in
      it is serialised by an impl of a shape the extractor understands.
Not decided: shortest-form heads, no trailing bytes, COSE key order (cbor-smol, cosey: trusted).
"""
from . import hirq as H
from . import tables as T
from . import wire as W
from .facts import SER

LEVEL = "other"

ROOT_ENUM = "ctap2::Response"
EXTRA_ROOTS = ["ctap2::make_credential::Extensions", "ctap2::get_assertion::ExtensionsOutput"]

PRIM_OK = {"bool", "u8", "u16", "u32", "u64", "usize", "i8", "i16", "i32", "i64", "isize", "str", "()"}
PRIM_BAD = {"f32", "f64", "char", "u128", "i128"}
FOREIGN_OK = {
    "heapless::string::String", "heapless::vec::Vec", "heapless_bytes::Bytes", "serde_bytes::bytearray::ByteArray",
    "serde_bytes::bytes::Bytes", "core::option::Option",
    # COSE keys: map key order 1,3,-1,-2,-3 is cosey's (trusted, version pinned)
    "cosey::PublicKey", "cosey::P256PublicKey", "cosey::EcdhEsHkdf256PublicKey", "cosey::Ed25519PublicKey", "cosey::TotpPublicKey", "cosey::X25519PublicKey",
}
FOREIGN_OPAQUE = {"cosey::PublicKey", "cosey::P256PublicKey", "cosey::EcdhEsHkdf256PublicKey", "cosey::Ed25519PublicKey", "cosey::TotpPublicKey", "cosey::X25519PublicKey",
                  "heapless_bytes::Bytes", "serde_bytes::bytearray::ByteArray", "serde_bytes::bytes::Bytes", "heapless::string::String"}


def canon_key(k):
    if isinstance(k, str):
        b = k.encode("utf-8")
        return (3, len(b), b)          # major type 3, then length, then bytes
    if isinstance(k, int) and not isinstance(k, bool):
        if k >= 0:
            return (0, k.bit_length(), k)  # shorter head first == numerically ascending
        return (1, (-1 - k).bit_length(), -1 - k)
    return None


def classify_ser(F, path):
    """how a crate ADT is serialised: (kind, fn) with kind in indexed/text/repr/str-enum/untagged/seq/unknown/none"""
    fn = T.ser_impl(F, path)
    if fn is None:
        return "none", None
    k = T.impl_kind(fn)
    if k == "SerializeIndexed":
        return "indexed", fn
    if k == "Serialize_repr":
        return "repr", fn
    calls = [c.get("callee") for c, _, _ in T.ordered_calls(fn["body"])]
    if "serde_core::ser::Serializer::serialize_struct" in calls:
        return "text", fn
    if "serde_core::ser::Serializer::serialize_map" in calls:
        return "indexed", fn
    if any(H.conversion_impl(n) == "<&str as core::convert::From<%s>>" % path for n in H.walk(fn["body"])):
        return "str-enum", fn
    if "serde_core::ser::Serializer::serialize_seq" in calls or "serde_core::ser::Serializer::collect_seq" in calls:
        return "seq", fn
    # untagged enum: every arm forwards the payload to Serialize::serialize with the same serializer
    b = H.strip_block(fn["body"])
    if b.get("k") == "match":
        ok = True
        for a in b["arms"]:
            body = H.strip_block(a["body"])
            if body.get("callee") != "serde_core::ser::Serialize::serialize":
                ok = False
        if ok:
            return "untagged", fn
    # a unit-only enum emitted by hand as one text string / one integer per variant
    try:
        from . import ftable as FT
        ty, _enc, _ = FT.enum_encode(F, path)
        return ("str-enum" if ty == "str" else "repr"), fn
    except FT.Unreadable:
        pass
    return "unknown", fn


def run(ctx):
    ctx.explanation = ("Pairwise canonical-order rule over emission tables read from the generated/hand-written Serialize impls (typed HIR), "
                       "definite-length rule over every serialize_map/serialize_seq call site, and a type-closure rule over the ADT table, in all "
                       "9 feature configurations. Emission order of a loop-free body is the syntactic order of the serialize_* calls, so pairwise "
                       "sortedness is sortedness of every subset of present members.")
    ctx.rule = "obligation = ordered member pair | map header | type in closure, per configuration; distinct by (type, pair/site)"
    ctx.trusted = ["cbor-smol 0.5.1 (shortest-form heads, one item, struct == map with text keys)", "cosey 0.3.2 (COSE key member order)",
                   "serde_derive 1.0.229 / serde-indexed 0.1.1 (expansions read from typed HIR)"]
    ctx.assumptions = ["CTAP2 canonical order: lower major type, then shorter encoding, then bytewise", "statement order in a loop-free body is evaluation order"]
    for cfg, F in ctx.facts.items():
        # "one top-level item with no trailing bytes": what follows the status byte is exactly what cbor_serialize wrote for this
        # response -- the framing rules of Response::serialize (C17/C02) are a necessary condition of C03
        from . import c17
        from .engine import Probe
        prf = Probe(facts={cfg: F})
        c17.check(prf, F, cfg, P="C17")
        ctx.oblige("C03|frame", not prf.failed,
                   "the response body is not exactly the one item the encoder wrote (stale or trailing bytes, wrong length): %s" % "; ".join("%s: %s" % (k, m[:160]) for k, m in prf.failed[:2]), cfg=cfg)
        n_text = n_idx = n_pairs = 0
        local_types = sorted(a["path"] for a in F.adts.values() if a["local"])
        for path in local_types:
            fn = T.ser_impl(F, path)
            if fn is None:
                continue
            short = path
            try:
                tab = W.ser_table(F, fn)
            except T.Unreadable as e:
                ctx.violation("C03|unreadable|" + short, "UNREADABLE-IMPL: Serialize for %s: %s" % (path, e), cfg=cfg, where=fn["sp"])
                continue
            if tab is None:
                continue
            if tab["kind"] == "text":
                n_text += 1
            else:
                n_idx += 1
            ctx.oblige("C03|definite|%s" % short, tab["header"]["definite"], "%s opens a map of indefinite length" % path, cfg=cfg, where=fn["sp"], nontrivial=False)
            # .. and the announced length is the number of members emitted (else the item is malformed: a member beyond the
            # announced count is trailing bytes, a missing one swallows what follows)
            from . import c02
            et = W.encode_table(F, path)
            if et is not None:
                okc, msgc = c02.header_count_ok(et, W.is_none_aliases(F))
                ctx.oblige("C03|map-count|%s" % short, okc, "%s: %s -- the map header would not match the members that follow" % (path, msgc), cfg=cfg, where=fn["sp"])
            ents = tab["entries"]
            keys = [e["key"] for e in ents]
            for e in ents:
                ck = canon_key(e["key"])
                ok = ck is not None and (tab["kind"] == "text") == isinstance(e["key"], str)
                if not ok:
                    ctx.oblige("C03|keytype|%s|%s" % (short, e["field"]), False, "%s.%s is emitted under a key of unexpected kind %r" % (path, e["field"], e["key"]), cfg=cfg, where=H.line(e["node"]))
            if len(ents) >= 1 and all(canon_key(k) is not None for k in keys):
                ctx.sample({"cfg": cfg, "type": path, "kind": tab["kind"], "emission_order": keys}, limit=45)
            for i in range(len(ents)):
                for j in range(i + 1, len(ents)):
                    a, b = ents[i], ents[j]
                    ka, kb = canon_key(a["key"]), canon_key(b["key"])
                    if ka is None or kb is None:
                        continue
                    n_pairs += 1
                    if ka == kb:
                        ctx.oblige("C03|dup|%s|%s" % (short, a["key"]), False, "%s emits key %r twice (%s, %s)" % (path, a["key"], a["field"], b["field"]), cfg=cfg, where=H.line(b["node"]))
                        continue
                    ctx.oblige("C03|order|%s|%s|%s" % (short, a["key"], b["key"]), ka < kb,
                               "%s emits %r before %r: not canonical CBOR key order when both members are present" % (path, a["key"], b["key"]),
                               cfg=cfg, where=H.line(a["node"]))
        # definite lengths everywhere (zero-expected rule: count the population instead)
        n_hdr = 0
        for f in F.fns:
            for c, _, _ in T.ordered_calls(f["body"]):
                cal = c.get("callee")
                if cal == "serde_core::ser::Serializer::collect_seq":
                    n_hdr += 1      # serde's provided method opens the sequence with the iterator's exact size hint (checked by seq-count)
                if cal in ("serde_core::ser::Serializer::serialize_map", "serde_core::ser::Serializer::serialize_seq"):
                    n_hdr += 1
                    a = H.strip_block(H.call_args(c)[1])
                    ctx.oblige("C03|definite-site|%s" % f["path"], a.get("k") == "call" and a.get("ctor") == "core::option::Option::Some",
                               "%s opens a CBOR container of indefinite length" % f["path"], cfg=cfg, where=H.line(c), nontrivial=False)
                if cal in ("serde_core::ser::Serializer::serialize_f32", "serde_core::ser::Serializer::serialize_f64", "serde_core::ser::Serializer::serialize_char",
                           "serde_core::ser::Serializer::serialize_i128", "serde_core::ser::Serializer::serialize_u128"):
                    ctx.violation("C03|noncanonical-scalar|" + f["path"], "%s emits a float/char/128-bit scalar" % f["path"], cfg=cfg, where=H.line(c))
        # hand-written sequence emitters: announced length == number of elements emitted (else the item is malformed / swallows what follows)
        for f in F.fns:
            im = f.get("impl") or {}
            if im.get("trait") == SER and f["name"] == "serialize" and im.get("impl_pv") == "user":
                if any(c.get("callee") in ("serde_core::ser::Serializer::serialize_seq", "serde_core::ser::Serializer::collect_seq") for c, _, _ in T.ordered_calls(f["body"])):
                    se = W.seq_emitter(F, f)
                    ok, why = se["ok"], se.get("why", "")
                    ctx.oblige("C03|seq-count|" + (im["self_ty"].get("path") or im["self_ty"]["s"]), ok,
                               "%s: %s — the array header would not match its contents" % (im["self_ty"]["s"], why), cfg=cfg, where=f["sp"])
        # the extension map embedded in authenticator data is one complete item: it is appended by cbor_serialize_to and
        # nothing touches the buffer afterwards (a trailing pop/truncate/append would leave a malformed or non-final item)
        ad = F.fn("ctap2::AuthenticatorData::<'a, A, E>::serialize")
        if ctx.oblige("C03|authdata|anchor", ad is not None, "anchor missing: AuthenticatorData::serialize", cfg=cfg, nontrivial=False):
            from .chain2 import Chain2
            ch = Chain2(F, ad, buf=None)
            if ctx.oblige("C03|authdata|buffer", len(ch.buffers()) == 1 and not ch.error, "output buffer of AuthenticatorData::serialize not found", cfg=cfg, nontrivial=False):
                CBOR_TO = ("cbor_smol::cbor_serialize_to", "cbor_smol::ser::cbor_serialize_to")
                n_ext = 0
                for pth in ch.success_paths():
                    segs = ch.segments(pth)
                    ext = [x for x in segs if x.kind == "delegate" and x.callee in CBOR_TO]
                    if not ext:
                        continue
                    n_ext += 1
                    after = segs[segs.index(ext[0]) + 1:] if len(ext) == 1 else []
                    ctx.oblige("C03|authdata|extension-map-last", len(ext) == 1 and segs[-1] is ext[0],
                               "after the extension map has been appended the buffer is modified again (%s): the embedded map is no longer one complete trailing item" %
                               [x.show()[:60] for x in after] if len(ext) == 1 else "the extension map is appended %d times" % len(ext), cfg=cfg, where=ad["sp"])
                ctx.oblige("C03|authdata|extension-paths", n_ext >= 1, "no path appends the extension map with cbor_serialize_to", cfg=cfg)
                # cbor_serialize_to streams into the buffer: when it fails part-way the bytes written so far stay there, so a path on
                # which it failed (or its Result was dropped) must not return Ok with that buffer
                for pth in ch.paths:
                    if ch.outcome(pth) not in ("ok", "returned"):
                        continue
                    for e in pth.effects:
                        if e.kind == "call" and e.callee in CBOR_TO:
                            fate = ch.fate(pth, e)
                            ctx.oblige("C03|authdata|extension-complete", fate in ("ok", "returned"),
                                       "AuthenticatorData::serialize can return Ok although appending the extension map %s: a partial CBOR map would be left in the authenticator data" %
                                       ("failed" if fate == "err" else "was not checked (Result dropped)"), cfg=cfg, where=H.line(e.node))
        # type closure
        roots = []
        renum = F.adt(ROOT_ENUM)
        if ctx.oblige("C03|closure|root", renum is not None, "anchor missing: ctap2::Response", cfg=cfg):
            for v in renum["variants"]:
                for fl in v["fields"]:
                    roots.append(fl["ty"])
        for r in EXTRA_ROOTS:
            if ctx.oblige("C03|closure|root|" + r, F.adt(r) is not None, "anchor missing: " + r, cfg=cfg):
                roots.append({"k": "adt", "path": r, "krate": "ctap_types", "args": [], "s": r})
        seen = set()
        stack = list(roots)
        n_closure = 0
        while stack:
            t = stack.pop()
            k = t.get("k")
            if k == "prim":
                s = t["s"]
                if s in PRIM_BAD:
                    ctx.violation("C03|closure|scalar|" + s, "a response can contain a %s, which has no canonical CTAP2 CBOR form" % s, cfg=cfg)
                continue
            if k in ("ref", "ptr"):
                stack.append(t["inner"])
                continue
            if k in ("array", "slice"):
                stack.append(t["elem"])
                continue
            if k == "tuple":
                stack.extend(t["elems"])
                continue
            if k != "adt":
                continue
            p = t["path"]
            for a in t.get("args", []):
                if a.get("k") != "const":
                    stack.append(a)
            if p in seen:
                continue
            seen.add(p)
            n_closure += 1
            if t.get("krate") != "ctap_types":
                ctx.oblige("C03|closure|foreign|" + p, p in FOREIGN_OK, "response closure reaches foreign type %s, which is not in the audited set" % p, cfg=cfg)
                continue
            kind, fn = classify_ser(F, p)
            ctx.oblige("C03|closure|ser|" + p, kind in ("indexed", "text", "repr", "str-enum", "untagged", "seq"),
                       "type %s is part of a response but is serialised by an impl of unknown shape (%s)" % (p, kind), cfg=cfg, where=fn["sp"] if fn else None)
            adt = F.adt(p)
            if adt is None:
                continue
            if kind in ("indexed", "text"):
                # only members that are actually emitted (skip_serializing members never reach the wire)
                try:
                    emitted = {e["field"] for e in W.ser_table(F, fn)["entries"]}
                except T.Unreadable:
                    emitted = None
                for v in adt["variants"]:
                    for fl in v["fields"]:
                        if emitted is None or fl["name"] in emitted:
                            stack.append(fl["ty"])
            elif kind == "seq":
                # hand-written sequence: what is passed to serialize_element
                se = W.seq_emitter(F, fn)
                el = se.get("elem") if se.get("ok") else None
                vts = [el[1]] if el and el[0] in ("struct", "ctor") else [None]
                for vt in vts:
                    if True:
                        if vt in F.adts:
                            stack.append({"k": "adt", "path": vt, "krate": F.adts[vt]["krate"], "args": [], "s": vt})
                        else:
                            ctx.oblige("C03|closure|seq-elem|" + p, vt in PRIM_OK, "%s emits sequence elements of unaudited type %s" % (p, vt), cfg=cfg)
            elif kind == "untagged":
                for v in adt["variants"]:
                    for fl in v["fields"]:
                        stack.append(fl["ty"])
        ctx.floor("text-keyed Serialize structs", n_text, 14, cfg=cfg)
        ctx.floor("indexed Serialize structs", n_idx, 11, cfg=cfg)
        ctx.floor("ordered member pairs", n_pairs, 250, cfg=cfg)
        ctx.floor("container headers", n_hdr, 12, cfg=cfg)
        ctx.floor("types in the response closure", n_closure, 25, cfg=cfg)
