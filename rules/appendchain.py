"""Append-only byte layout analysis (rule kinds O, W, E): ordered appends to an output buffer
on every control-flow path, who-may-call on the buffer, and propagation of every append's Result."""
from . import hirq as H
from .pathcond import Analysis, effect_paths, TooManyPaths
from .respser import parent_map

MAP_ERR = "core::result::Result::<T, E>::map_err"
APPEND_METHODS = ("push", "extend_from_slice")
DISCARDS = ("core::result::Result::<T, E>::ok", "core::result::Result::<T, E>::unwrap", "core::result::Result::<T, E>::expect",
            "core::result::Result::<T, E>::unwrap_or_default", "core::result::Result::<T, E>::unwrap_or", "core::result::Result::<T, E>::is_ok",
            "core::result::Result::<T, E>::is_err", "core::result::Result::<T, E>::unwrap_or_else")


class Chain:
    def __init__(self, fn, buf_id):
        self.fn = fn
        self.buf_id = buf_id
        self.A = Analysis(fn)
        self.pm = parent_map(fn["body"])
        self.result_nodes = {id(s.node) for s in self.A.sites if s.node is not None}
        self.paths = effect_paths(fn["body"], self.is_effect)

    READ_ONLY = ("len", "capacity", "is_empty", "is_full", "as_slice", "as_ref", "iter", "first", "last", "get", "starts_with", "ends_with")

    def touches_buf(self, n):
        """n passes the buffer (by &mut or as receiver); read-only queries are not effects"""
        if n.get("k") == "mcall" and H.local_id(n["recv"]) == self.buf_id:
            return n.get("method") not in self.READ_ONLY
        if n.get("k") in ("call", "mcall"):
            for a in H.call_args(n):
                if H.local_id(a) == self.buf_id:
                    return True
        return False

    def is_effect(self, n):
        k = n.get("k")
        if k in ("call", "mcall") and "ctor" not in n:
            return self.touches_buf(n)
        if k in ("assign", "assignop"):
            return H.local_id(H.strip(n["l"])) == self.buf_id
        return False

    def method(self, e):
        if e.get("k") == "mcall" and H.local_id(e["recv"]) == self.buf_id:
            return e.get("method")
        return None

    def data_desc(self, e):
        """canonical description of what is appended"""
        if e.get("k") == "mcall" and H.local_id(e["recv"]) == self.buf_id:
            return self.A.desc(e["args"][0]) if e["args"] else ""
        args = [a for a in H.call_args(e) if H.local_id(a) != self.buf_id]
        return (e.get("callee") or "?") + "(" + ", ".join(self.A.desc(a) for a in args) + ")"

    def propagated(self, e):
        """the append's Result reaches `?` or is the function's own result (map_err allowed on the way)"""
        n = e
        for _ in range(6):
            if id(n) in self.result_nodes:
                return True, None
            par = self.pm.get(id(n))
            if par is None:
                return False, "dropped"
            if par.get("k") == "mcall" and par.get("callee") == MAP_ERR and par["recv"] is n:
                n = par
                continue
            if par.get("k") == "try" and par["e"] is n:
                return True, None
            if par.get("k") == "mcall" and par.get("callee") in DISCARDS:
                return False, par.get("method")
            if par.get("k") in ("semi", "let"):
                return False, "result dropped (`%s`)" % par.get("k")
            if par.get("k") == "block" and par.get("expr") is n:
                n = par
                continue
            if par.get("k") == "ret":
                return True, None
            return False, "flows into " + str(par.get("k"))
        return False, "?"

    def success_paths(self):
        return [p for p in self.paths if p.done in (None, "ret") and not any(c.kind == "try" and not c.pol for c in p.conds)]
