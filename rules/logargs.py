"""Arguments of log statements are total.

delog's macros (`debug_now!`, `info_now!`, ..) compile to nothing unless a `log-*` feature is enabled, so what is written inside them
exists only in configuration kL (`log-all`).  Whatever a property says about "never panics" must hold with logging compiled in as
well: the expressions handed to a log statement may not contain a construct that can panic (indexing / slicing, unwrap / expect,
division or remainder).  A sufficient condition, decided on the typed HIR of every hand-written function: such constructs do not
occur lexically inside the expansion of a log macro.  (The CTAP1 parser is excepted here: C08 decides the bounds of its slice
operations exactly, also for those inside log statements.)"""
import os
import re

from . import extract, facts
from . import hirq as H

LOG = re.compile(r"bang:(try_)?(trace|debug|info|warn|error)(_now)?\b")
PANICKY_METHODS = ("unwrap", "expect", "unwrap_unchecked", "unwrap_err", "expect_err")


def _children(n):
    for v in n.values():
        if isinstance(v, dict):
            if "k" in v:
                yield v
        elif isinstance(v, list):
            for x in v:
                if isinstance(x, dict):
                    if "k" in x:
                        yield x
                    else:
                        for y in x.values():
                            if isinstance(y, dict) and "k" in y:
                                yield y


def scan(F, skip_paths=(), only_paths=None):
    """(number of log statements seen, [(fn path, span, what)]) over the hand-written functions of F (only_paths: restrict to these)"""
    hits, count = [], [0]

    def walk(n, inside, fn):
        pv = n.get("pv") or ""
        if not inside and LOG.search(pv):
            inside = True
            count[0] += 1
        if inside and pv == "user":
            k = n.get("k")
            what = None
            if k == "index":
                what = "indexing / slicing"
            elif k == "mcall" and (n.get("callee") or "").split("::")[-1] in PANICKY_METHODS:
                what = (n.get("callee") or "").split("::")[-1] + "()"
            elif k == "binary" and n.get("op") in ("/", "%"):
                what = "division / remainder"
            if what:
                hits.append((fn["path"], n.get("sp"), what))
        for c in _children(n):
            walk(c, inside, fn)

    for fn in F.fns:
        if fn.get("body") is not None and (fn.get("pv") or "user") == "user" and fn["path"] not in skip_paths and (only_paths is None or fn["path"] in only_paths):
            walk(fn["body"], False, fn)
    return count[0], hits


def check(ctx, P, skip_trait_ref=None, mono_root=None, roots=None, min_statements=1):
    """clause `<P>|log-args`: evaluated on configuration kL of the tree under analysis.  mono_root: only the hand-written functions
    reachable from this root of the monomorphic call graph; roots: only these functions and the hand-written functions they call"""
    try:
        d, meta = extract.ensure_facts(["kL"])
    except RuntimeError as e:
        ctx.violation("%s|log-args|build" % P, "the tree does not build with logging compiled in (log-all): %s" % str(e)[:200])
        return
    if "kL" in (meta.get("failed") or {}):
        ctx.violation("%s|log-args|build" % P, "the tree does not build with logging compiled in (log-all)")
        return
    F = facts.Facts(os.path.join(d, "kL.json"), "kL")
    skip = set()
    if skip_trait_ref:
        f = F.trait_impl_fn(skip_trait_ref, "try_from")
        if f is not None:
            skip.add(f["path"])
    only = None
    if mono_root is not None:
        from .oblig_mono import Reach, hir_fn_for
        r = F.mono_root(mono_root)
        if r is None or "inst" not in r:
            ctx.violation("%s|log-args|root" % P, "anchor missing in the logging configuration: mono root %s" % mono_root, cfg="kL")
            return
        only = set()
        for inst in Reach(F, r["inst"]).local:
            hf = hir_fn_for(F, inst)
            if hf is not None:
                only.add(hf["path"])
    if roots is not None:
        only, todo = set(), [p for p in roots if F.fns_by_path.get(p)]
        if len(todo) != len(roots):
            ctx.violation("%s|log-args|root" % P, "anchor missing in the logging configuration: %s" % sorted(set(roots) - set(todo)), cfg="kL")
            return
        while todo:
            p = todo.pop()
            if p in only:
                continue
            only.add(p)
            for f in F.fns_by_path.get(p, []):
                if f.get("body") is None:
                    continue
                for x in H.walk(f["body"]):
                    tgt = x.get("resolved") or x.get("callee")
                    if x.get("k") in ("call", "mcall") and tgt in F.fns_by_path and (F.fns_by_path[tgt][0].get("pv") or "user") == "user":
                        todo.append(tgt)
    n, hits = scan(F, skip, only)
    for path, sp, what in hits:
        ctx.oblige("%s|log-args|%s|%s" % (P, path[-70:], what), False,
                   "a log statement in %s evaluates %s: with logging compiled in (a log-* feature) and the level enabled, an input for which it fails panics" % (path[-80:], what), cfg="kL", where=sp)
    if not hits:
        ctx.oblige("%s|log-args" % P, True, "", cfg="kL", nontrivial=False)
    ctx.floor("log statements analysed (configuration kL)", n, min_statements, cfg="kL")
