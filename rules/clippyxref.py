"""Thorough-tier cross-reference (reported, never judged): clippy's restriction lints as an
independent inventory of panic-capable sites, compared by file:line with the obligation list."""
import json
import os
import re
import subprocess

from . import extract

LINTS = ["unwrap_used", "expect_used", "indexing_slicing", "string_slice", "arithmetic_side_effects", "cast_possible_truncation",
         "panic", "unreachable", "unwrap_in_result", "cast_sign_loss", "cast_possible_wrap", "undocumented_unsafe_blocks", "unused_result_ok"]


def run_clippy(features="--all-features"):
    env = dict(os.environ, CARGO_NET_OFFLINE="true", CARGO_TARGET_DIR=os.path.join(extract.BUILD, "target", "clippy"))
    env.pop("RUSTC_WORKSPACE_WRAPPER", None)
    cmd = ["cargo", "+nightly", "clippy", "--offline", "--lib", features, "--message-format=json", "--manifest-path", os.path.join(extract.REPO, "Cargo.toml"), "--",
           "-A", "clippy::all"] + [x for l in LINTS for x in ("-W", "clippy::" + l)]
    # force re-lint of the member
    fp = os.path.join(env["CARGO_TARGET_DIR"], "debug", ".fingerprint")
    if os.path.isdir(fp):
        import shutil
        for d in os.listdir(fp):
            if d.startswith("ctap-types-"):
                shutil.rmtree(os.path.join(fp, d), ignore_errors=True)
    p = subprocess.run(cmd, env=env, capture_output=True, text=True)
    sites = []
    for line in p.stdout.splitlines():
        try:
            m = json.loads(line)
        except ValueError:
            continue
        if m.get("reason") != "compiler-message":
            continue
        msg = m["message"]
        code = (msg.get("code") or {}).get("code") or ""
        if not code.startswith("clippy::"):
            continue
        for sp in msg.get("spans", []):
            if sp.get("is_primary"):
                sites.append({"lint": code[8:], "file": sp["file_name"], "line": sp["line_start"], "end": sp["line_end"]})
    return sites, p.returncode


def cross_reference(ctx, obligation_spans, files=None, label="clippy"):
    """obligation_spans: iterable of 'src/x.rs:L:C-L:C' strings the check generated"""
    sites, rc = run_clippy()
    if files:
        sites = [s for s in sites if any(s["file"].endswith(f) for f in files)]
    mine = set()
    for sp in obligation_spans:
        m = re.match(r"^(?:.*/)?(src/[^:]+):(\d+):\d+-(\d+):", sp or "")
        if m:
            for ln in range(int(m.group(2)), int(m.group(3)) + 1):
                mine.add((m.group(1), ln))
    only_clippy = [s for s in sites if not any((s["file"], ln) in mine for ln in range(s["line"], s["end"] + 1))]
    by_lint = {}
    for s in sites:
        by_lint[s["lint"]] = by_lint.get(s["lint"], 0) + 1
    ctx.extra[label] = {"clippy_sites": len(sites), "by_lint": by_lint, "obligation_lines": len(mine),
                        "clippy_sites_without_obligation": ["%s:%d %s" % (s["file"], s["line"], s["lint"]) for s in only_clippy][:40], "exit": rc}
    ctx.note("clippy restriction-lint cross-reference: %d sites in %s, %d of them not on a line carrying one of this check's obligations (reported, not judged)" % (len(sites), files or "the crate", len(only_clippy)))
