"""Query helpers over the typed-HIR JSON trees emitted by the driver."""

CHILD_KEYS = ("f", "e", "l", "r", "recv", "base", "idx", "cond", "then", "else", "body", "scrut", "init", "expr", "guard")
LIST_KEYS = ("args", "elems", "stmts", "arms", "fields")


def children(n):
    """direct sub-expressions in evaluation order (approximately source order)"""
    k = n.get("k")
    out = []
    if k == "block":
        for s in n.get("stmts", []):
            out.append(s)
        if "expr" in n:
            out.append(n["expr"])
        return out
    if k in ("let",):
        if "init" in n:
            out.append(n["init"])
        if "els" in n:
            out.append(n["els"])
        return out
    if k in ("expr", "semi"):
        return [n["e"]]
    if k == "match":
        out.append(n["scrut"])
        for a in n["arms"]:
            if "guard" in a:
                out.append(a["guard"])
            out.append(a["body"])
        return out
    if k == "struct":
        for f in n["fields"]:
            out.append(f["e"])
        if "base" in n:
            out.append(n["base"])
        return out
    if k == "mcall":
        out.append(n["recv"])
        out.extend(n["args"])
        return out
    if k == "call":
        out.append(n["f"])
        out.extend(n["args"])
        return out
    for key in CHILD_KEYS:
        v = n.get(key)
        if isinstance(v, dict) and "k" in v:
            out.append(v)
    for key in ("args", "elems"):
        v = n.get(key)
        if isinstance(v, list):
            out.extend(x for x in v if isinstance(x, dict))
    return out


def walk(n):
    """pre-order walk over all expression / statement nodes (closures included)"""
    stack = [n]
    while stack:
        x = stack.pop()
        yield x
        ch = children(x)
        stack.extend(reversed(ch))


def strip(n):
    """peel semantically transparent wrappers: single-expression blocks, & / &mut, *"""
    while True:
        k = n.get("k")
        if k == "block" and not n.get("stmts") and "expr" in n and "unsafe" not in n:
            n = n["expr"]
        elif k == "addrof":
            n = n["e"]
        elif k == "unary" and n["op"] == "deref":
            n = n["e"]
        else:
            return n


def strip_block(n):
    while n.get("k") == "block" and not n.get("stmts") and "expr" in n and "unsafe" not in n:
        n = n["expr"]
    return n


def callee(n):
    """resolved callee path of a call / method call node (trait method path for trait calls)"""
    if n.get("k") in ("call", "mcall"):
        return n.get("callee")
    return None


def is_call(n, *paths):
    return n.get("k") in ("call", "mcall") and n.get("callee") in paths


def ctor(n):
    """variant / struct path if n is a tuple-ctor call or unit-ctor path"""
    if n.get("k") == "call" and "ctor" in n:
        return n["ctor"]
    if n.get("k") == "path":
        r = n["res"]
        if r.get("rk", "").startswith("Ctor"):
            return r.get("ctor_of")
    if n.get("k") == "struct":
        r = n["res"]
        return r.get("path")
    return None


def local_name(n):
    n = strip(n)
    if n.get("k") == "path" and n["res"].get("rk") == "Local":
        return n["res"]["name"]
    return None


def local_id(n):
    n = strip(n)
    if n.get("k") == "path" and n["res"].get("rk") == "Local":
        return n["res"]["id"]
    return None


def self_field(n):
    """'f' if n is self.f (under any number of & / *), else None"""
    n = strip(n)
    if n.get("k") == "field":
        b = strip(n["base"])
        if b.get("k") == "path" and b["res"].get("rk") == "Local" and b["res"]["name"] == "self":
            return n["name"]
    return None


def field_chain(n):
    """['x','a','b'] for x.a.b where x is a local; None otherwise"""
    n = strip(n)
    names = []
    while n.get("k") == "field":
        names.append(n["name"])
        n = strip(n["base"])
    if n.get("k") == "path" and n["res"].get("rk") == "Local":
        names.append(n["res"]["name"])
        return list(reversed(names))
    return None


def lit(n):
    """python value of a literal node (through & and blocks); None if not a literal"""
    n = strip(n)
    if n.get("k") == "lit":
        return n.get("v")
    if n.get("k") == "cast":
        return lit(n["e"])
    return None


def is_lit(n):
    n = strip(n)
    return n.get("k") == "lit"


def def_path(n):
    """path of a Def-resolved path expression (consts, fns, ctors)"""
    n = strip(n)
    if n.get("k") == "path":
        return n["res"].get("path")
    return None


def pat_ctor(p):
    """variant path a pattern matches on (tuplestruct / struct / unit path)"""
    k = p.get("k")
    if k in ("tuplestruct", "struct"):
        r = p["res"]
        return r.get("ctor_of") or r.get("path")
    if k == "expr" and p["e"].get("k") == "path":
        r = p["e"]["res"]
        return r.get("ctor_of") or r.get("path")
    if k == "ref" or k == "deref":
        return pat_ctor(p["pat"])
    if k == "bind" and "sub" in p:
        return pat_ctor(p["sub"])
    return None


def pat_bindings(p):
    out = []
    k = p.get("k")
    if k == "bind":
        out.append((p["name"], p["id"]))
        if "sub" in p:
            out.extend(pat_bindings(p["sub"]))
    elif k in ("tuplestruct", "tuple", "or"):
        for q in p["pats"]:
            out.extend(pat_bindings(q))
    elif k == "struct":
        for f in p["fields"]:
            out.extend(pat_bindings(f["pat"]))
    elif k in ("ref", "deref", "guard"):
        out.extend(pat_bindings(p["pat"]))
    elif k == "slice":
        for q in p["before"] + p["after"]:
            out.extend(pat_bindings(q))
        if "mid" in p:
            out.extend(pat_bindings(p["mid"]))
    return out


def pat_is_catchall(p):
    k = p.get("k")
    if k == "wild":
        return True
    if k == "bind":
        return "sub" not in p or pat_is_catchall(p["sub"])
    return False


def line(n):
    sp = n.get("sp", "")
    return sp.split("-")[0] if sp else ""


def from_macro(n, name):
    """True if the node stems from an expansion of the named macro"""
    pv = n.get("pv", "user")
    return any(part.split(":", 1)[-1] == name for part in pv.split(">"))


def is_user(n):
    return n.get("pv", "user") == "user"


def diverges(n):
    """every path through n leaves the enclosing straight-line code (return/break/continue/!)"""
    n = strip_block(n)
    k = n.get("k")
    if k in ("ret", "break", "continue"):
        return True
    if n.get("ty") == "!":
        return True
    if k == "block":
        for s in n.get("stmts", []):
            e = s.get("e") or s.get("init")
            if e is not None and diverges(e):
                return True
        return "expr" in n and diverges(n["expr"])
    if k == "if":
        return "else" in n and diverges(n["then"]) and diverges(n["else"])
    if k == "match":
        return all(diverges(a["body"]) for a in n["arms"]) and len(n["arms"]) > 0
    return False


def conversion_impl(n):
    """trait reference (as printed by the driver) of the From/TryFrom impl a conversion call
    statically dispatches to: `x.into()` / `T::from(x)` / `x.try_into()` / `T::try_from(x)`."""
    if n.get("k") not in ("call", "mcall"):
        return None
    c = n.get("callee")
    ta = n.get("targs") or []
    if len(ta) < 2:
        return None
    if c == "core::convert::Into::into":
        return "<%s as core::convert::From<%s>>" % (ta[1], ta[0])
    if c == "core::convert::From::from":
        return "<%s as core::convert::From<%s>>" % (ta[0], ta[1])
    if c == "core::convert::TryInto::try_into":
        return "<%s as core::convert::TryFrom<%s>>" % (ta[1], ta[0])
    if c == "core::convert::TryFrom::try_from":
        return "<%s as core::convert::TryFrom<%s>>" % (ta[0], ta[1])
    return None


def call_args(n):
    return ([n["recv"]] if n.get("k") == "mcall" else []) + list(n.get("args", []))


def for_loops(root):
    """desugared `for pat in iter { body }` loops: dicts(iter, pat, body, node, loop)"""
    out = []
    for n in walk(root):
        if n.get("k") != "match" or n.get("src") != "for":
            continue
        sc = strip_block(n["scrut"])
        if sc.get("callee") != "core::iter::traits::collect::IntoIterator::into_iter":
            continue
        it = sc["args"][0] if sc.get("args") else sc
        pat = body = loop = None
        for x in walk(n["arms"][0]["body"]) if n.get("arms") else []:
            if x.get("k") == "loop" and loop is None:
                loop = x
            if x.get("k") == "match" and x.get("src") == "for" and strip_block(x["scrut"]).get("callee") == "core::iter::traits::iterator::Iterator::next":
                for a in x["arms"]:
                    if pat_ctor(a["pat"]) == "core::option::Option::Some":
                        p = a["pat"]
                        if p.get("k") == "struct" and p.get("fields"):
                            pat = p["fields"][0]["pat"]
                        elif p.get("pats"):
                            pat = p["pats"][0]
                        body = a["body"]
                break
        out.append({"iter": it, "pat": pat, "body": body, "node": n, "loop": loop})
    return out
