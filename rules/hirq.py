"""Query helpers over the typed-HIR JSON trees emitted by the driver."""

CHILD_KEYS = ("f", "e", "l", "r", "recv", "base", "idx", "cond", "then", "else", "body", "scrut", "init", "expr", "guard")
LIST_KEYS = ("args", "elems", "stmts", "arms", "fields")


def children(n):
    """direct sub-expressions in evaluation order (approximately source order)"""
    k = n.get("k")
    out = []
    if k == "block":
        for s in n.get("stmts", []):
            out.append(s)
        if "expr" in n:
            out.append(n["expr"])
        return out
    if k in ("let",):
        if "init" in n:
            out.append(n["init"])
        if "els" in n:
            out.append(n["els"])
        return out
    if k in ("expr", "semi"):
        return [n["e"]]
    if k == "match":
        out.append(n["scrut"])
        for a in n["arms"]:
            if "guard" in a:
                out.append(a["guard"])
            out.append(a["body"])
        return out
    if k == "struct":
        for f in n["fields"]:
            out.append(f["e"])
        if "base" in n:
            out.append(n["base"])
        return out
    if k == "mcall":
        out.append(n["recv"])
        out.extend(n["args"])
        return out
    if k == "call":
        out.append(n["f"])
        out.extend(n["args"])
        return out
    for key in CHILD_KEYS:
        v = n.get(key)
        if isinstance(v, dict) and "k" in v:
            out.append(v)
    for key in ("args", "elems"):
        v = n.get(key)
        if isinstance(v, list):
            out.extend(x for x in v if isinstance(x, dict))
    return out


def walk(n):
    """pre-order walk over all expression / statement nodes (closures included)"""
    stack = [n]
    while stack:
        x = stack.pop()
        yield x
        ch = children(x)
        stack.extend(reversed(ch))


def strip(n):
    """peel semantically transparent wrappers: single-expression blocks, & / &mut, *"""
    while True:
        k = n.get("k")
        if k == "block" and not n.get("stmts") and "expr" in n and "unsafe" not in n:
            n = n["expr"]
        elif k == "addrof":
            n = n["e"]
        elif k == "unary" and n["op"] == "deref":
            n = n["e"]
        else:
            return n


def strip_block(n):
    while n.get("k") == "block" and not n.get("stmts") and "expr" in n and "unsafe" not in n:
        n = n["expr"]
    return n


def callee(n):
    """resolved callee path of a call / method call node (trait method path for trait calls)"""
    if n.get("k") in ("call", "mcall"):
        return n.get("callee")
    return None


def is_call(n, *paths):
    return n.get("k") in ("call", "mcall") and n.get("callee") in paths


def ctor(n):
    """variant / struct path if n is a tuple-ctor call or unit-ctor path"""
    if n.get("k") == "call" and "ctor" in n:
        return n["ctor"]
    if n.get("k") == "path":
        r = n["res"]
        if r.get("rk", "").startswith("Ctor"):
            return r.get("ctor_of")
    if n.get("k") == "struct":
        r = n["res"]
        return r.get("path")
    return None


def local_name(n):
    n = strip(n)
    if n.get("k") == "path" and n["res"].get("rk") == "Local":
        return n["res"]["name"]
    return None


def local_id(n):
    n = strip(n)
    if n.get("k") == "path" and n["res"].get("rk") == "Local":
        return n["res"]["id"]
    return None


def self_field(n):
    """'f' if n is self.f (under any number of & / *), else None"""
    n = strip(n)
    if n.get("k") == "field":
        b = strip(n["base"])
        if b.get("k") == "path" and b["res"].get("rk") == "Local" and b["res"]["name"] == "self":
            return n["name"]
    return None


def field_chain(n):
    """['x','a','b'] for x.a.b where x is a local; None otherwise"""
    n = strip(n)
    names = []
    while n.get("k") == "field":
        names.append(n["name"])
        n = strip(n["base"])
    if n.get("k") == "path" and n["res"].get("rk") == "Local":
        names.append(n["res"]["name"])
        return list(reversed(names))
    return None


def lit(n):
    """python value of a literal node (through & and blocks); None if not a literal"""
    n = strip(n)
    if n.get("k") == "lit":
        return n.get("v")
    if n.get("k") == "cast":
        return lit(n["e"])
    return None


def is_lit(n):
    n = strip(n)
    return n.get("k") == "lit"


def def_path(n):
    """path of a Def-resolved path expression (consts, fns, ctors)"""
    n = strip(n)
    if n.get("k") == "path":
        return n["res"].get("path")
    return None


def pat_ctor(p):
    """variant path a pattern matches on (tuplestruct / struct / unit path)"""
    k = p.get("k")
    if k in ("tuplestruct", "struct"):
        r = p["res"]
        return r.get("ctor_of") or r.get("path")
    if k == "expr" and p["e"].get("k") == "path":
        r = p["e"]["res"]
        return r.get("ctor_of") or r.get("path")
    if k == "ref" or k == "deref":
        return pat_ctor(p["pat"])
    if k == "bind" and "sub" in p:
        return pat_ctor(p["sub"])
    return None


def pat_bindings(p):
    out = []
    k = p.get("k")
    if k == "bind":
        out.append((p["name"], p["id"]))
        if "sub" in p:
            out.extend(pat_bindings(p["sub"]))
    elif k in ("tuplestruct", "tuple", "or"):
        for q in p["pats"]:
            out.extend(pat_bindings(q))
    elif k == "struct":
        for f in p["fields"]:
            out.extend(pat_bindings(f["pat"]))
    elif k in ("ref", "deref", "guard"):
        out.extend(pat_bindings(p["pat"]))
    elif k == "slice":
        for q in p["before"] + p["after"]:
            out.extend(pat_bindings(q))
        if "mid" in p:
            out.extend(pat_bindings(p["mid"]))
    return out


def pat_is_catchall(p):
    k = p.get("k")
    if k == "wild":
        return True
    if k == "bind":
        return "sub" not in p or pat_is_catchall(p["sub"])
    return False


def line(n):
    sp = n.get("sp", "")
    return sp.split("-")[0] if sp else ""


def from_macro(n, name):
    """True if the node stems from an expansion of the named macro"""
    pv = n.get("pv", "user")
    return any(part.split(":", 1)[-1] == name for part in pv.split(">"))


def is_user(n):
    return n.get("pv", "user") == "user"


def diverges(n):
    """every path through n leaves the enclosing straight-line code (return/break/continue/!)"""
    n = strip_block(n)
    k = n.get("k")
    if k in ("ret", "break", "continue"):
        return True
    if n.get("ty") == "!":
        return True
    if k == "block":
        for s in n.get("stmts", []):
            e = s.get("e") or s.get("init")
            if e is not None and diverges(e):
                return True
        return "expr" in n and diverges(n["expr"])
    if k == "if":
        return "else" in n and diverges(n["then"]) and diverges(n["else"])
    if k == "match":
        return all(diverges(a["body"]) for a in n["arms"]) and len(n["arms"]) > 0
    return False


def conversion_impl(n):
    """trait reference (as printed by the driver) of the From/TryFrom impl a conversion call
    statically dispatches to: `x.into()` / `T::from(x)` / `x.try_into()` / `T::try_from(x)`."""
    if n.get("k") not in ("call", "mcall"):
        return None
    c = n.get("callee")
    ta = n.get("targs") or []
    if len(ta) < 2:
        return None
    if c == "core::convert::Into::into":
        return "<%s as core::convert::From<%s>>" % (ta[1], ta[0])
    if c == "core::convert::From::from":
        return "<%s as core::convert::From<%s>>" % (ta[0], ta[1])
    if c == "core::convert::TryInto::try_into":
        return "<%s as core::convert::TryFrom<%s>>" % (ta[1], ta[0])
    if c == "core::convert::TryFrom::try_from":
        return "<%s as core::convert::TryFrom<%s>>" % (ta[0], ta[1])
    return None


def call_args(n):
    return ([n["recv"]] if n.get("k") == "mcall" else []) + list(n.get("args", []))


def for_loops(root):
    """desugared `for pat in iter { body }` loops: dicts(iter, pat, body, node, loop)"""
    out = []
    for n in walk(root):
        if n.get("k") != "match" or n.get("src") != "for":
            continue
        sc = strip_block(n["scrut"])
        if sc.get("callee") != "core::iter::traits::collect::IntoIterator::into_iter":
            continue
        it = sc["args"][0] if sc.get("args") else sc
        pat = body = loop = None
        for x in walk(n["arms"][0]["body"]) if n.get("arms") else []:
            if x.get("k") == "loop" and loop is None:
                loop = x
            if x.get("k") == "match" and x.get("src") == "for" and strip_block(x["scrut"]).get("callee") == "core::iter::traits::iterator::Iterator::next":
                for a in x["arms"]:
                    if pat_ctor(a["pat"]) == "core::option::Option::Some":
                        p = a["pat"]
                        if p.get("k") == "struct" and p.get("fields"):
                            pat = p["fields"][0]["pat"]
                        elif p.get("pats"):
                            pat = p["pats"][0]
                        body = a["body"]
                break
        out.append({"iter": it, "pat": pat, "body": body, "node": n, "loop": loop})
    return out


NEXT_CALLS = ("serde_core::de::SeqAccess::next_element", "serde_core::de::MapAccess::next_key", "serde_core::de::MapAccess::next_entry",
              "serde_core::de::SeqAccess::next_element_seed", "serde_core::de::MapAccess::next_key_seed")


def _next_call(e):
    """the next_element()/next_key() call if e is `<access>.next_*()?`, else None"""
    e = strip_block(e)
    if e.get("k") != "try":
        return None
    c = strip_block(e["e"])
    return c if c.get("callee") in NEXT_CALLS else None


def consuming_loop(n):
    """recognise a loop whose only way to stop (besides `?`) is the container being exhausted:
         while let Some(p) = a.next()? { body }
         loop { match a.next()? { Some(p) => body, None => break } }
         loop { let Some(p) = a.next()? else { break }; body.. }
    returns dict(pat, body (list of nodes), next (call node), tryn (the `?` node)) or None"""
    if n.get("k") != "loop":
        return None
    inner = strip_block(n["body"])
    stmts = []
    if inner.get("k") == "block":
        stmts = list(inner.get("stmts", []))
        tail = inner.get("expr")
    else:
        tail = inner
    # shape A (while let) and shape B (match) as the only expression of the loop body
    if not stmts and tail is not None:
        t = strip_block(tail)
        if t.get("k") == "if" and "else" in t:
            c = strip_block(t["cond"])
            if c.get("k") == "letexpr" and pat_ctor(c["pat"]) == "core::option::Option::Some" and _next_call(c["init"]) is not None:
                els = strip_block(t["else"])
                if els.get("k") == "block":
                    inner_e = [s.get("e") for s in els.get("stmts", [])] + ([els["expr"]] if "expr" in els else [])
                    els = strip_block(inner_e[0]) if len(inner_e) == 1 and inner_e[0] is not None else els
                if els.get("k") == "break":
                    pats = c["pat"].get("pats") or [f["pat"] for f in c["pat"].get("fields", [])]
                    return {"pat": pats[0] if pats else None, "body": [t["then"]], "next": _next_call(c["init"]), "tryn": strip_block(c["init"])}
        if t.get("k") == "match" and _next_call(t["scrut"]) is not None and len(t["arms"]) == 2:
            some = [a for a in t["arms"] if pat_ctor(a["pat"]) == "core::option::Option::Some"]
            none = [a for a in t["arms"] if pat_ctor(a["pat"]) == "core::option::Option::None" or pat_is_catchall(a["pat"])]
            if len(some) == 1 and len(none) == 1 and strip_block(none[0]["body"]).get("k") == "break":
                p = some[0]["pat"]
                pats = p.get("pats") or [f["pat"] for f in p.get("fields", [])]
                return {"pat": pats[0] if pats else None, "body": [some[0]["body"]], "next": _next_call(t["scrut"]), "tryn": strip_block(t["scrut"])}
    # shape C: let-else first
    if stmts and stmts[0].get("k") == "let" and "els" in stmts[0] and pat_ctor(stmts[0]["pat"]) == "core::option::Option::Some" and _next_call(stmts[0].get("init", {})) is not None:
        els = stmts[0]["els"]
        only = [s.get("e") for s in els.get("stmts", [])] + ([els["expr"]] if "expr" in els else [])
        if len(only) == 1 and only[0] is not None and strip_block(only[0]).get("k") == "break":
            p = stmts[0]["pat"]
            pats = p.get("pats") or [f["pat"] for f in p.get("fields", [])]
            body = [s for s in stmts[1:]] + ([tail] if tail is not None else [])
            return {"pat": pats[0] if pats else None, "body": body, "next": _next_call(stmts[0]["init"]), "tryn": strip_block(stmts[0]["init"])}
    return None


def loop_exits(body_nodes):
    """break / return nodes in a loop body that belong to this loop level (closures and nested loops excluded for break)"""
    out = []

    def go(n, nested):
        k = n.get("k")
        if k == "closure":
            return
        if k == "ret":
            out.append(n)
        if k == "break" and not nested:
            out.append(n)
        for c in children(n):
            go(c, nested or k == "loop")

    for b in body_nodes:
        go(b, False)
    return out
