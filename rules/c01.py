"""C01 — CTAP2 request decoding is faithful to the specification's parameter tables.

Decides (T, S, P), in all 8 wire configurations (+ the all-features corner):
  * for each request-side indexed struct: the table {integer key -> struct field} read from the
    generated visit_map, duplicate detection per key, rejecting unknown-index arm, required-ness,
    and the CBOR-level shape of the decoded type, against spec/ctap2_messages.json;
  * for each nested text-keyed host map type: {name (and aliases) -> field}, required/defaulted,
    decoded shape, and the *lossy decoder wiring* (exactly the documented lossy members);
  * every struct field is initialised from exactly one key (no member dropped);
  * the command switch hands the bytes after the command byte to the decoder of the right type.
Because the generated decoder treats members independently (one arm + one Option local per key),
per-member table correctness is correctness for every subset of present members.
Not decided: that each leaf value is delivered unaltered by cbor-smol / heapless / serde_bytes.
"""
import json
import os

from . import tables as T
from . import hirq as H
from . import wire as W
from . import c11
from .engine import VERIF

LEVEL = "other"


def check_type(ctx, F, cfg, path, spec, lossy_fns, side="requests", P="C01"):
    short = path
    try:
        tab = W.decode_table(F, path)
    except T.Unreadable as e:
        ctx.violation("%s|unreadable|%s" % (P, short), "UNREADABLE-IMPL: Deserialize for %s: %s" % (path, e), cfg=cfg)
        return 0
    if not ctx.oblige("%s|anchor|%s" % (P, short), tab is not None, "anchor missing: derive-generated map decoder for " + path, cfg=cfg):
        return 0
    where = tab["fn"]["sp"]
    ctx.oblige("%s|kind|%s" % (P, short), tab["kind"] == spec["kind"], "%s decodes a %s-keyed map, specification says %s" % (path, tab["kind"], spec["kind"]), cfg=cfg, where=where)
    want = W.oracle_members(spec, F.features)
    by_field = {m["field"]: m for m in tab["members"]}
    n = 0
    assigned = set()
    for w in want:
        n += 1
        key = "%s|member|%s|%s" % (P, short, w["field"])
        m = by_field.get(w["field"])
        for k in [w["key"]] + w.get("aliases", []):
            assigned.add(k)
        if not ctx.oblige(key + "|exists", m is not None, "%s.%s is not decoded from any key" % (path, w["field"]), cfg=cfg, where=where):
            continue
        ctx.oblige(key + "|key", m["key"] == w["key"], "%s.%s is decoded from key %r, specification assigns %r" % (path, w["field"], m["key"], w["key"]), cfg=cfg, where=where)
        ctx.oblige(key + "|aliases", sorted(m["aliases"]) == sorted(w.get("aliases", [])),
                   "%s.%s accepts the additional names %s, specification lists %s" % (path, w["field"], m["aliases"], w.get("aliases", [])), cfg=cfg, where=where, nontrivial=False)
        ctx.oblige(key + "|required", m["required"] == w["required"],
                   "%s.%s is %s, specification says %s" % (path, w["field"], "required" if m["required"] else "optional", "required" if w["required"] else "optional"), cfg=cfg, where=where)
        ctx.oblige(key + "|shape", m["shape"] == w["shape"], "%s.%s decodes as %s (%s), specification says %s" % (path, w["field"], m["shape"], m["ty"], w["shape"]), cfg=cfg, where=where)
        ctx.oblige(key + "|dup", bool(m["dup"]), "%s.%s: a duplicated key is not detected" % (path, w["field"]), cfg=cfg, where=where, nontrivial=False)
        # field type is the decoded type (indexed: Option<decoded> for optional members)
        if tab["kind"] == "indexed":
            fty = m["field_ty"]
            exp = m["ty"] if m["required"] else "core::option::Option<%s>" % m["ty"]
            ctx.oblige(key + "|field-type", fty == exp, "%s.%s has type %s but is decoded as %s" % (path, w["field"], fty, m["ty"]), cfg=cfg, where=where, nontrivial=False)
        # lossy wiring
        want_fn = lossy_fns.get(w.get("lossy")) if w.get("lossy") in ("truncate", "skip_if_too_long") else None
        got_fn = m["with"]["fn"] if m["with"] else None
        ctx.oblige(key + "|lossy", got_fn == want_fn,
                   "%s.%s is decoded through %s, documented decoder is %s" % (path, w["field"], got_fn or "the plain decoder", want_fn or "the plain decoder"), cfg=cfg, where=where)
        ctx.sample({"cfg": cfg, "type": path, "field": w["field"], "key": m["key"], "required": m["required"], "decoded_as": m["ty"], "with": got_fn}, limit=50)
    # extra members only at keys the specification does not assign
    for m in tab["members"]:
        if m["field"] in {w["field"] for w in want}:
            continue
        keys = [m["key"]] + m["aliases"]
        clash = [k for k in keys if k in assigned]
        ctx.oblige("%s|extra|%s|%s" % (P, short, m["field"]), not clash,
                   "%s.%s (not in the specification table) takes the specification-assigned key %s" % (path, m["field"], clash), cfg=cfg, where=where, nontrivial=False)
        if not clash:
            ctx.note("%s.%s at key %r is not in the specification table (accepted: key not assigned)" % (path, m["field"], m["key"]))
    # two members sharing a key / name
    allkeys = [k for m in tab["members"] for k in [m["key"]] + m["aliases"]]
    ctx.oblige("%s|unique-keys|%s" % (P, short), len(set(allkeys)) == len(allkeys), "%s: two members share a key: %s" % (path, allkeys), cfg=cfg, where=where, nontrivial=False)
    ctx.oblige("%s|all-fields-built|%s" % (P, short), not tab["unbuilt"] and all(m["field"] for m in tab["members"]),
               "%s: fields %s are not initialised from a decoded key" % (path, tab["unbuilt"]), cfg=cfg, where=where, nontrivial=False)
    if tab["kind"] == "indexed":
        ctx.oblige("%s|unknown-index|%s" % (P, short), tab["unknown"] == "error", "%s accepts unknown integer keys" % path, cfg=cfg, where=where, nontrivial=False)
        ctx.oblige("%s|entry|%s" % (P, short), tab["entry"] == ["serde_core::de::Deserializer::deserialize_map"], "%s is not decoded as a CBOR map (%s)" % (path, tab["entry"]), cfg=cfg, where=where, nontrivial=False)
    else:
        ctx.oblige("%s|entry|%s" % (P, short), tab["entry"] == ["serde_core::de::Deserializer::deserialize_struct"], "%s is not decoded as a CBOR map (%s)" % (path, tab["entry"]), cfg=cfg, where=where, nontrivial=False)
    return n


def run(ctx):
    spec = json.load(open(os.path.join(VERIF, "spec", "ctap2_messages.json")))
    cmds = json.load(open(os.path.join(VERIF, "spec", "commands.json")))
    lossy = dict(spec["lossy_decoders"])
    ctx.explanation = ("Table agreement between the decoder tables read from the derive-generated visit_map / visit_str bodies (typed HIR, all 9 configurations) and the "
                       "independently written parameter tables of CTAP 2.1/2.2 (spec/ctap2_messages.json): key -> field, required-ness, CBOR shape of the decoded type, duplicate "
                       "detection, unknown-index rejection, lossy-decoder wiring, every field built from exactly one key; plus the command switch (shared rule with C11). "
                       "The generated decoder handles members independently, so the per-member table decides every subset of present members.")
    ctx.rule = "obligation = (type, member, clause) per configuration; distinct by key"
    ctx.trusted = ["cbor-smol 0.5.1, heapless 0.7.17, heapless-bytes 0.3.0, serde_bytes 0.11.19, cosey 0.3.2 (leaf value decoding)", "serde_derive 1.0.229 / serde-indexed 0.1.1 expansion shapes (read from typed HIR)"]
    ctx.assumptions = ["public field names identify parameters (renaming one is an API break)", "serde: missing_field() yields None for Option members"]
    for cfg, F in ctx.facts.items():
        n_idx = n_txt = 0
        # the documented lossy decoders by role (C13 decides what each role does); renaming / moving the helper keeps the role
        from . import c13
        t_w, s_w = c13.names(F)[:2]
        lossy = dict(spec["lossy_decoders"], truncate=t_w, skip_if_too_long=s_w)
        for path, s in spec["requests"].items():
            n = check_type(ctx, F, cfg, path, s, lossy)
            if s["kind"] == "indexed":
                n_idx += n
            else:
                n_txt += n
        ctx.floor("indexed request members", n_idx, 45, cfg=cfg)
        ctx.floor("nested text-keyed members", n_txt, 19, cfg=cfg)
        # lossy decoders attached to nothing else (anywhere in the crate)
        documented = {(p, m["field"]) for p, s in spec["requests"].items() for m in s["members"] if m.get("lossy") in ("truncate", "skip_if_too_long")}
        for a in F.adts.values():
            if not a["local"] or a["kind"] != "struct":
                continue
            try:
                tab = W.decode_table(F, a["path"])
            except T.Unreadable:
                continue
            if not tab:
                continue
            for m in tab["members"]:
                if m["with"] and (a["path"], m["field"]) not in documented:
                    ctx.oblige("C01|undocumented-lossy|%s|%s" % (a["path"], m["field"]), False,
                               "%s.%s is decoded through %s but is not a documented lossy member" % (a["path"], m["field"], m["with"]["fn"]), cfg=cfg)
        # hand-written sequence visitors on the request path consume their whole array: cbor-smol does not skip what a
        # visitor leaves behind, so an early exit desynchronises the enclosing map ("well-formed request is rejected")
        from . import c14
        for ty in ("webauthn::FilteredPublicKeyCredentialParameters", "ctap2::AttestationFormatsPreference"):
            de, vs = c14.find_visit_seq(F, ty)
            shared = de is not None and vs is None      # a shared visitor behind a helper: summarised from the decoder (see c14)
            if shared:
                vs = de
            if not ctx.oblige("C01|drains|%s|anchor" % ty, vs is not None, "anchor missing: hand-written visit_seq of " + ty, cfg=cfg):
                continue
            from . import loops as L
            problems, n_loops = L.drains(F, vs, visitor_calls=shared)
            ctx.oblige("C01|drains|" + ty, not problems and n_loops == 1, "%s: %s; the rest of the array would be read as the next request parameter" % (ty, "; ".join(problems[:2]) or "%d loops" % n_loops), cfg=cfg, where=vs["sp"])
        # the documented lossy members are lossy *only* as documented (a name that fits is kept whole, an icon of at most
        # 128 bytes is kept verbatim): the C13 rules for the lossy decoders are a necessary condition of C01 as well
        from . import c13
        from .engine import Probe
        pr = Probe(facts={cfg: F})
        c13.run(pr)
        ctx.oblige("C01|lossy-semantics", not pr.failed,
                   "a documented lossy decoder alters or drops values it should deliver whole: %s" % "; ".join("%s: %s" % (k, m[:160]) for k, m in pr.failed[:2]), cfg=cfg)
        # "unknown algorithms and attestation formats filtered": the filtering decoders filter exactly as documented (a known entry is
        # kept in order, an unknown one only skipped / remembered by the flag) -- C14's rules are a necessary condition of C01
        from . import c14
        pr14 = Probe(facts={cfg: F})
        c14.run(pr14)
        ctx.oblige("C01|list-decoders", not pr14.failed,
                   "a filtering list decoder alters, reorders or drops what it should deliver: %s" % "; ".join("%s: %s" % (k, m[:160]) for k, m in pr14.failed[:2]), cfg=cfg)
        # a well-formed request may carry members this crate does not model (a descriptor's `transports`, new extensions ..): they
        # must be skipped, not rejected -- C06's rules are a necessary condition of "decoding succeeds" as well
        from . import c06
        pr06 = Probe(facts={cfg: F})
        c06.run(pr06)
        ctx.oblige("C01|unknown-members", not pr06.failed,
                   "a request type no longer skips the members it does not know: %s" % "; ".join("%s: %s" % (k, m[:160]) for k, m in pr06.failed[:2]), cfg=cfg)
        # "whose members respect the declared size limits": the capacities and widths a well-formed request may use are the
        # specification's (C12's limits table is a necessary condition: a smaller capacity rejects well-formed requests)
        from . import c12
        pr12 = Probe(facts={cfg: F})
        c12.run(pr12)
        lim = [(k, m) for k, m in pr12.failed if k.startswith(("C12|cap|", "C12|int|"))]
        ctx.oblige("C01|declared-limits", not lim, "a request member cannot hold what the specification allows: %s" % "; ".join("%s: %s" % (k, m[:160]) for k, m in lim[:2]), cfg=cfg)
        n = c11.check_dispatch(ctx, F, cfg, cmds, P="C01")
        ctx.floor("command switch result sites", n, 3, cfg=cfg)
