"""Loading and indexing of the fact files written by the ctapfacts driver."""
import json
import os
import re

SER = "serde_core::ser::Serialize"
DE = "serde_core::de::Deserialize"
VISITOR = "serde_core::de::Visitor"


_BASELINE = None


def baseline_names():
    """the item paths the rules and the oracle tables refer to (collected from rules/*.py and spec/*.json)"""
    global _BASELINE
    if _BASELINE is None:
        here = os.path.dirname(os.path.abspath(__file__))
        names = set()
        files = [os.path.join(here, f) for f in os.listdir(here) if f.endswith(".py")]
        sd = os.path.join(os.path.dirname(here), "spec")
        files += [os.path.join(sd, f) for f in os.listdir(sd) if f.endswith(".json")]
        for fp in files:
            try:
                txt = open(fp).read()
            except OSError:
                continue
            names.update(re.findall(r"\b[a-z_][a-z_0-9]*(?:::[A-Za-z_][A-Za-z_0-9]*)+", txt))
        _BASELINE = names
    return _BASELINE


def canonicalise_moved_items(text):
    """an item that was moved into another module and is re-exported under the path the rules know it by (`pub use inner::Item;`)
    keeps that path: every occurrence of its new definition path is rewritten to the re-exported one before the facts are
    indexed.  Only re-exports whose public path is a baseline name and whose definition path is not are rewritten."""
    m = re.search(r'"reexports":\s*(\[.*?\])\s*[,}]', text, re.S)
    if not m:
        return text, []
    try:
        rex = json.loads(m.group(1))
    except ValueError:
        return text, []
    base = baseline_names()
    done = []
    for r in sorted(rex, key=lambda r: -len(r["target"])):
        pub, tgt = r["path"], r["target"]
        if pub == tgt or "::" not in pub or pub not in base or tgt in base:
            continue
        pat = re.compile(r"(?<![A-Za-z0-9_:])" + re.escape(tgt) + r"(?![A-Za-z0-9_])")
        text, n = pat.subn(pub, text)
        if n:
            done.append((tgt, pub, n))
    return text, done


class Facts:
    def __init__(self, path, cfg):
        with open(path) as f:
            text = f.read()
        text, self.moved = canonicalise_moved_items(text)
        self.raw = json.loads(text)
        self.cfg = cfg
        self.features = self.raw["features"]
        self.fns = self.raw["fns"]
        self.fn_by_id = {f["id"]: f for f in self.fns}
        self.fns_by_path = {}
        for f in self.fns:
            self.fns_by_path.setdefault(f["path"], []).append(f)
        self.children = {}
        for f in self.fns:
            p = f.get("parent_fn")
            if p is not None:
                self.children.setdefault(p, []).append(f)
        self.adts = {a["path"]: a for a in self.raw["adts"]}
        self.consts = {}
        for c in self.raw["consts"]:
            self.consts.setdefault(c["path"], c)
        self.aliases = {a["path"]: a["ty"] for a in self.raw["aliases"]}
        self.impls = self.raw["impls"]
        self.mono = self.raw["mono"]
        self.trait_methods = {t["path"]: t for t in self.raw["trait_methods"]}

    # ---- functions
    def fn(self, path):
        """the unique fn with this def path (None if absent, ValueError if ambiguous)"""
        l = self.fns_by_path.get(path, [])
        if len(l) > 1:
            raise ValueError("ambiguous fn path " + path)
        return l[0] if l else None

    def impl_fn(self, trait, self_path, name, self_pred=None):
        """method `name` of `impl trait for self_path` (top-level impls, not nested helper types)"""
        out = []
        for f in self.fns:
            im = f.get("impl")
            if not im or f["name"] != name:
                continue
            if im.get("trait") != trait:
                continue
            st = im["self_ty"]
            if self_pred is not None:
                if not self_pred(st):
                    continue
            elif st.get("path") != self_path and st.get("s") != self_path:
                continue
            out.append(f)
        return out

    def trait_impl_fn(self, trait_ref, name):
        """method `name` of the impl whose trait reference prints as trait_ref,
        e.g. "<u8 as core::convert::From<operation::Operation>>" (lifetimes as written)"""
        out = [f for f in self.fns if f["name"] == name and (f.get("impl") or {}).get("trait_ref") == trait_ref]
        if len(out) > 1:
            raise ValueError("ambiguous impl " + trait_ref)
        return out[0] if out else None

    def nested(self, fn, name=None, trait=None, self_contains=None):
        """fns lexically nested (directly) in fn's body"""
        out = []
        for c in self.children.get(fn["id"], []):
            if name is not None and c["name"] != name:
                continue
            im = c.get("impl") or {}
            if trait is not None and im.get("trait") != trait:
                continue
            if self_contains is not None and self_contains not in (im.get("self_ty", {}).get("s") or ""):
                continue
            out.append(c)
        out.sort(key=lambda c: c["id"])
        return out

    # ---- ADTs / consts
    def adt(self, path):
        return self.adts.get(path)

    def struct_fields(self, path):
        a = self.adts.get(path)
        if not a or a["kind"] != "struct":
            return None
        return a["variants"][0]["fields"]

    def const_value(self, path):
        c = self.consts.get(path)
        if c is None:
            return None
        return parse_const(c.get("val"), c["ty"])

    # ---- mono graph
    def mono_root(self, spec):
        for r in self.mono["roots"]:
            if r["spec"] == spec:
                return r
        return None

    def reachable(self, inst_index):
        insts = self.mono["instances"]
        seen = {inst_index}
        stack = [inst_index]
        parent = {inst_index: None}
        while stack:
            k = stack.pop()
            for (c, how) in insts[k]["out"]:
                if c not in seen:
                    seen.add(c)
                    parent[c] = k
                    stack.append(c)
        return seen, parent


_INT = re.compile(r"^(-?\d+)_(?:[iu](?:8|16|32|64|128|size))$")


def _parse_value(v):
    """one value of rustc's constant pretty printer -> (python value, rest): ints, bools, strings, {"path": p} for a variant or
    unit struct written by path, lists for arrays, {"tuple": [..]} for tuples"""
    v = v.lstrip()
    if v.startswith("const "):
        v = v[6:].lstrip()
    if v.startswith("[") or v.startswith("("):
        close = "]" if v[0] == "[" else ")"
        is_tuple = v[0] == "("
        rest = v[1:].lstrip()
        items = []
        while not rest.startswith(close):
            it, rest = _parse_value(rest)
            items.append(it)
            rest = rest.lstrip()
            if rest.startswith(","):
                rest = rest[1:].lstrip()
            elif not rest.startswith(close):
                raise ValueError(v)
        return ({"tuple": items} if is_tuple else items), rest[1:]
    if v.startswith('"'):
        i = 1
        while i < len(v) and v[i] != '"':
            i += 2 if v[i] == "\\" else 1
        if i >= len(v):
            raise ValueError(v)
        try:
            return json.loads(v[:i + 1]), v[i + 1:]
        except Exception:
            return v[1:i], v[i + 1:]
    m = re.match(r"^(-?\d+)(?:_?[iu](?:8|16|32|64|128|size))?", v)
    if m:
        return int(m.group(1)), v[m.end():]
    m = re.match(r"^(true|false)\b", v)
    if m:
        return m.group(1) == "true", v[m.end():]
    m = re.match(r"^[A-Za-z_][\w:]*", v)
    if m and not v[m.end():].lstrip().startswith(("(", "{")):
        return {"path": m.group(0)}, v[m.end():]
    raise ValueError(v)


def parse_const(val, ty):
    """value of a declared constant from rustc's pretty printer"""
    if val is None:
        return None
    v = val.strip()
    if v.startswith("const "):
        v = v[6:]
    m = _INT.match(v)
    if m:
        return int(m.group(1))
    if v in ("true", "false"):
        return v == "true"
    m = re.match(r'^\*?b"(.*)"$', v, re.S)
    if m:
        out, body, i = [], m.group(1), 0
        while i < len(body):
            ch = body[i]
            if ch == "\\" and i + 1 < len(body):
                nx = body[i + 1]
                if nx == "x" and i + 3 < len(body):
                    out.append(int(body[i + 2:i + 4], 16)); i += 4; continue
                out.append({"n": 10, "r": 13, "t": 9, "0": 0, "\\": 92, '"': 34, "'": 39}.get(nx, ord(nx))); i += 2; continue
            out.append(ord(ch)); i += 1
        return out
    if v.startswith('"') and v.endswith('"'):
        try:
            return json.loads(v)
        except Exception:
            return v[1:-1]
    if v.startswith("[") and v.endswith("]"):
        try:
            out, rest = _parse_value(v)
            if not rest.strip() and isinstance(out, list):
                return out
        except ValueError:
            pass
        return v
    # newtype / single-field struct around an integer:  `path {{ bits: 1_u8 }}` or `path(5_u8)`
    m = re.match(r"^[\w:<>]+\s*\{\{?\s*\w+:\s*(-?\d+)_[iu]\w+\s*\}?\}$", v)
    if m:
        return int(m.group(1))
    m = re.match(r"^[\w:<>]+\((-?\d+)_[iu]\w+\)$", v)
    if m:
        return int(m.group(1))
    return v


def load_all(outdir, configs):
    return {c: Facts(os.path.join(outdir, c + ".json"), c) for c in configs}
