"""Append-only byte layout analysis on path summaries (rule kinds O, W, E).

Built on sym.Sym: the function (with /repo helpers expanded at their call sites and `for` loops
over literal arrays unrolled) is summarised as a set of paths; on each path the ordered effects
on the output buffer are normalised into *segments*

    byte(x)            push(x) or one element of extend_from_slice(&[.., x, ..])
    be<n>(x)           extend_from_slice(&x.to_be_bytes()) for an n-byte integer x, or the n bytes
                       (x >> 8*(n-1)) as u8, .., x as u8 pushed / extended in that order
    chunk(s)           extend_from_slice(s)
    delegate(f, src)   any other call that receives the buffer

and each append's *fate* is read from the path: known Ok (a `?`, match, if-let, is_err() test or
unwrap succeeded), known Err, or returned as the function's own result.  The rules then are:
only appends and the listed delegates touch the buffer; nothing is appended in a loop; after a
failed append nothing more is appended and the function returns Err; no append's Result is
dropped; a path that returns Err without a failed append / delegate / listed conversion is a
hand-written test (reported: it moves the accept/reject frontier).
"""
import re

from . import sym as S
from . import hirq as H

READ_ONLY = ("len", "capacity", "is_empty", "is_full", "as_slice", "as_ref", "iter", "first", "last", "get", "starts_with", "ends_with", "as_ptr", "deref")
VIEW = ("as_slice", "as_ref", "as_bytes", "deref", "borrow", "as_mut_slice", "as_mut", "deref_mut", "into_iter", "iter", "to_bytes")
BUF_NEW = re.compile(r"^(heapless_bytes::Bytes::<N>|heapless::vec::Vec::<T, N>)::new$")
TRY_FROM = "core::convert::TryFrom::try_from"


def method_of(callee):
    return (callee or "").split("::")[-1]


def norm(t):
    """strip byte-level views: x.as_slice(), x.as_ref(), x[..], &x"""
    while True:
        if t[0] == "call" and method_of(t[1]) in VIEW and len(t[2]) == 1:
            t = t[2][0]
        elif t[0] == "index" and t[2][0] == "struct" and t[2][1].endswith("RangeFull"):
            t = t[1]
        else:
            return t


class Seg:
    __slots__ = ("kind", "term", "n", "effect", "callee", "guard")

    def __init__(self, kind, term, effect, n=None, callee=None, guard=None):
        self.kind, self.term, self.effect, self.n, self.callee, self.guard = kind, term, effect, n, callee, guard

    def show(self):
        if self.kind == "byte":
            return "byte:" + S.show(self.term)
        if self.kind == "be":
            return "be%d:%s" % (self.n, S.show(self.term))
        if self.kind == "chunk":
            return "chunk:" + S.show(self.term)
        if self.kind == "delegate":
            return "delegate:%s(%s)" % (self.callee, ", ".join(S.show(a) for a in self.term))
        return self.kind + ":" + S.show(self.term) if isinstance(self.term, tuple) else self.kind


def be_width(callee):
    m = re.match(r"^core::num::<impl ([iu])(\d+|size)>::to_be_bytes$", callee or "")
    if m and m.group(2).isdigit():
        return int(m.group(2)) // 8
    return None


ITER_NEXT = "core::iter::traits::iterator::Iterator::next"


def array_place(t):
    """(array term, lo, hi) when t is `A[i]` / `A[a..b]` (literal bounds) of a local `[v; N]` array A"""
    if not (isinstance(t, tuple) and t[0] == "index" and isinstance(t[1], tuple) and t[1][0] == "repeat"):
        return None
    A, i = t[1], t[2]
    n = A[2]
    if i[0] == "lit" and isinstance(i[1], int):
        return (A, i[1], i[1] + 1)
    lit = lambda x: x[1] if x is not None and x[0] == "lit" and isinstance(x[1], int) else None
    if i[0] == "struct":
        f = dict(i[2])
        name = i[1].split("::")[-1]
        lo = lit(f.get("start")) if "start" in f else 0
        hi = lit(f.get("end")) if "end" in f else n
        if name in ("RangeInclusive", "RangeToInclusive") and hi is not None:
            hi += 1
        if name == "RangeFull":
            lo, hi = 0, n
        if lo is None or hi is None:
            return (A, None, None)
        return (A, lo, hi)
    if i[0] == "call" and i[1].endswith("RangeInclusive::<Idx>::new") and len(i[2]) == 2:
        lo, hi = lit(i[2][0]), lit(i[2][1])
        return (A, lo, None if hi is None else hi + 1) if lo is not None else (A, None, None)
    return (A, None, None)


def be_elem(t):
    """(X, n, i) if t is byte i of the n-byte array X.to_be_bytes()"""
    if t[0] == "sproj" and isinstance(t[2], int):
        arr, i = t[1], t[2]
    elif t[0] == "index" and t[2][0] == "lit" and isinstance(t[2][1], int):
        arr, i = t[1], t[2][1]
    else:
        return None
    arr = norm(arr)
    w = be_width(arr[1]) if arr[0] == "call" else None
    if w is None or len(arr[2]) != 1 or not 0 <= i < w:
        return None
    return arr[2][0], w, i


def byte_of(t):
    """(X, shift) if t is `(X >> shift) as u8` with an optional & 0xFF mask (shift 0: `X as u8`)"""
    if t[0] != "cast" or t[2] != "u8":
        return None
    x = t[1]
    if x[0] == "bin" and x[1] == "&" and ("lit", 255) in (x[2], x[3]):
        x = x[3] if x[2] == ("lit", 255) else x[2]
    if x[0] == "bin" and x[1] == ">>" and x[3][0] == "lit" and isinstance(x[3][1], int) and x[3][1] % 8 == 0:
        inner = x[2]
        if inner[0] == "bin" and inner[1] == "&":
            pass
        return inner, x[3][1]
    if x[0] == "bin" and x[1] == "&" and x[3][0] == "lit":
        return None
    return x, 0


class Chain2:
    def __init__(self, F, fn, buf=None, inline=None):
        self.F = F
        self.fn = fn
        self.buf = buf
        self.error = None
        self.sym = S.Sym(F, fn, is_effect=self.is_effect, inline=inline)
        try:
            self.paths = self.sym.run()
        except S.TooManyPaths:
            self.paths = []
            self.error = "too many control-flow paths to enumerate"
        self.extend_loops = {}
        self.find_extend_loops()

    # ---- `for x in IT { buf.push(x)<checked> }`
    def aux(self, e):
        """an effect that is bookkeeping of this analysis, not an operation on the buffer: a write into a local array, a loop cursor"""
        if e.args and array_place(e.args[0]) is not None and not self.touches(e.args):
            return True
        return e.tcallee == ITER_NEXT and not self.touches(e.args)

    def iter_segments(self, it, e):
        """the items an iterator term yields, as segments: chain(a, b) = a then b; once(v) = the byte v; a literal array = its bytes;
        otherwise the term is a collection that is iterated in order (`.iter().copied()`, `.into_iter()` are views): one chunk"""
        it = norm(it)
        while it[0] == "call" and len(it[2]) == 1 and method_of(it[1]) in ("into_iter", "iter", "copied", "cloned", "by_ref"):
            it = norm(it[2][0])
        if it[0] == "call" and it[1].endswith("Iterator::chain") and len(it[2]) == 2:
            a, b = self.iter_segments(it[2][0], e), self.iter_segments(it[2][1], e)
            return None if a is None or b is None else a + b
        if it[0] == "call" and it[1] in ("core::iter::sources::once::once",) and len(it[2]) == 1:
            return [Seg("byte", it[2][0], e)]
        if it[0] == "array":
            return [Seg("byte", x, e) for x in it[1]]
        if it[0] == "call" and "Iterator::" in it[1]:
            return None       # an adaptor that may drop, repeat or reorder items
        if it[0] in ("param", "field", "proj", "local"):
            return [Seg("chunk", it, e)]
        return None

    def find_extend_loops(self):
        """loops whose every iteration pushes the item it drew, and nothing else, and which end only when the iterator is exhausted:
        {cursor term -> the push effect of the iteration}.  The one-iteration artefact paths of such a loop are dropped (the exit
        path stands for "all items were appended"); the push of a kept (failing) iteration no longer counts as "inside a loop"."""
        cursors = {}
        for p in self.paths:
            for e in p.effects:
                if e.tcallee == ITER_NEXT and e.loops:
                    cursors.setdefault(e.term, []).append((p, e))
        for N, occ in cursors.items():
            if self.iter_segments(N[2][0], occ[0][1]) is None:
                continue
            ok = True
            pushes = {}
            for p, e in occ:
                k = self.sym.lookup(p, N)
                inloop = [x for x in p.effects if x.loops and x is not e and x.tcallee != ITER_NEXT]
                if k == S.SOME:
                    item = self.sym.proj(N, S.SOME, 0)
                    if not (len(inloop) == 1 and method_of(inloop[0].callee) == "push" and len(inloop[0].args) == 2 and self.is_buf(inloop[0].args[0]) and inloop[0].args[1] == item):
                        ok = False
                    else:
                        pushes[id(p)] = inloop[0]
                    if p.ret_loop_depth > 0 and self.fate(p, inloop[0]) not in ("err", "returned") if len(inloop) == 1 else False:
                        ok = False      # leaves the loop early although the push went through
                elif k == S.NONE:
                    if inloop:
                        ok = False
                else:
                    ok = False
            if not ok or not pushes:
                continue
            self.extend_loops[N] = pushes
            keep = []
            for p in self.paths:
                if id(p) in pushes and self.fate(p, pushes[id(p)]) == "ok" and not (p.done and p.done[0] == "panic"):
                    continue        # one more item appended, then "the rest of the function": subsumed by the exit path
                keep.append(p)
            self.paths = keep
            for p in self.paths:
                if any(e.term == N for e in p.effects):
                    p.loops = max(0, p.loops - 1)
                if id(p) in pushes:
                    pushes[id(p)].loops = 0

    # ---- buffer identity
    def is_buf(self, t):
        if self.buf is not None:
            return t == self.buf
        return t[0] == "call" and bool(BUF_NEW.match(t[1])) and not t[2]

    def touches(self, args):
        """the buffer itself (or a place inside it) is passed: a term that merely mentions an earlier append is not a use"""
        for a in args:
            while isinstance(a, tuple) and a[0] in ("field", "index", "tproj"):
                a = a[1]
            if isinstance(a, tuple) and (self.is_buf(a) or (a[0] == "closure" and any(self.is_buf(x) for c in a[2] for x in S.subterms(c)))):
                return True
        return False

    def is_effect(self, callee, args, node, st):
        if isinstance(node, dict) and node.get("callee") == ITER_NEXT and st.loop_depth > 0:
            return True       # the cursor of a loop: needed to recognise `for x in IT { buf.push(x) }` as "append all of IT"
        if args and array_place(args[0]) is not None and (callee == "<assign>" or (callee or "").endswith("::copy_from_slice")):
            return True       # a write into a local `[v; N]` array that may later be appended as a whole
        if not self.touches(args):
            return False
        if callee in ("<closure>", "<assign>", "<indirect>"):
            return True
        if method_of(callee) in READ_ONLY and args and self.is_buf(args[0]):
            return False
        return True

    def buffers(self):
        out = set()
        for p in self.paths:
            for e in p.effects:
                for a in e.args:
                    for x in S.subterms(a):
                        if self.is_buf(x):
                            out.add(x)
        return out

    def buffer_type(self, buf):
        """evaluated type of a fresh buffer term (the type of its `::new()` call node)"""
        sp = (buf[3] if len(buf) > 3 else "").split("@")[0]
        for g in [self.fn] + [self.F.fn(q) for q in self.sym.inlined if self.F.fn(q) is not None]:
            for n in H.walk(g["body"]):
                if n.get("sp") == sp and n.get("k") in ("call", "mcall"):
                    return n.get("ty")
        return None

    # ---- segments
    def array_segments(self, A, writes, e):
        """the bytes of a local `[v; N]` array after the writes made to it on this path, as segments; None when a write is not
        at literal positions, overlaps another, or the source's length is not known to equal the region's"""
        n = A[2]
        cells = [None] * n
        for w in writes:
            pl = array_place(w.args[0])
            if w.loops:
                return None
            if pl is None or pl[1] is None or pl[2] is None or not (0 <= pl[1] <= pl[2] <= n):
                return None
            lo, hi = pl[1], pl[2]
            if any(c is not None for c in cells[lo:hi]):
                return None
            if w.kind == "assign":
                if hi - lo != 1:
                    return None
                cells[lo] = ("byte", w.args[1], 1)
            else:
                src = norm(w.args[1])
                bw = be_width(src[1]) if src[0] == "call" else None
                if bw is not None and len(src[2]) == 1:
                    if bw != hi - lo:
                        return None
                    cells[lo] = ("be", src[2][0], bw)
                else:
                    ty = term_type(self.F, self.fn, src) or ""
                    mm = re.search(r"\[u8; (\d+)\]$", ty)
                    if not mm or int(mm.group(1)) != hi - lo:
                        return None
                    cells[lo] = ("chunk", src, hi - lo)
                for j in range(lo + 1, hi):
                    cells[j] = ("cont",)
        out = []
        for c in cells:
            if c is None:
                out.append(Seg("byte", A[1], e))
            elif c[0] == "cont":
                continue
            elif c[0] == "be":
                out.append(Seg("be", c[1], e, n=c[2]))
            else:
                out.append(Seg(c[0], c[1], e))
        return out

    def segments(self, p):
        raw = []
        arrays = {}
        skip = {id(pp[id(p)]) for pp in self.extend_loops.values() if id(p) in pp}
        for e in p.effects:
            pl = array_place(e.args[0]) if e.args else None
            if pl is not None and not self.touches(e.args):
                arrays.setdefault(pl[0], []).append(e)
                continue
            if e.tcallee == ITER_NEXT and not self.touches(e.args):
                if e.term in self.extend_loops:
                    raw.extend(self.iter_segments(e.term[2][0], e))      # all items of the iterator, in order
                continue
            if id(e) in skip:
                continue
            m = method_of(e.callee)
            if e.kind == "call" and e.args and self.is_buf(e.args[0]) and m == "push" and len(e.args) == 2:
                raw.append(Seg("byte", e.args[1], e))
            elif e.kind == "call" and e.args and self.is_buf(e.args[0]) and m == "extend_from_slice" and len(e.args) == 2:
                d = norm(e.args[1])
                w = be_width(d[1]) if d[0] == "call" else None
                built = self.array_segments(d, arrays.get(d, []), e) if d[0] == "repeat" else None
                if built is not None:
                    raw.extend(built)
                elif d[0] == "array":
                    for x in d[1]:
                        raw.append(Seg("byte", x, e))
                    if not d[1]:
                        raw.append(Seg("chunk", d, e))
                elif w is not None and len(d[2]) == 1:
                    raw.append(Seg("be", d[2][0], e, n=w))
                else:
                    raw.append(Seg("chunk", d, e))
            elif e.kind == "call":
                raw.append(Seg("delegate", tuple(a for a in e.args if not self.is_buf(a)), e, callee=e.callee))
            else:
                raw.append(Seg(e.kind, tuple(e.args), e))
        # manual big-endian decomposition: consecutive bytes (X >> 8(n-1)) as u8 .. X as u8
        out = []
        i = 0
        while i < len(raw):
            s = raw[i]
            b = byte_of(s.term) if s.kind == "byte" else None
            if b is not None and b[1] > 0 and b[1] % 8 == 0:
                n = b[1] // 8 + 1
                grp = raw[i:i + n]
                ok = len(grp) == n and all(g.kind == "byte" for g in grp)
                if ok:
                    for j, g in enumerate(grp):
                        bj = byte_of(g.term)
                        if bj is None or bj[0] != b[0] or bj[1] != 8 * (n - 1 - j):
                            ok = False
                if ok:
                    out.append(Seg("be", b[0], s.effect, n=n, guard=(b[0], (1 << (8 * n)) - 1)))
                    i += n
                    continue
            # all bytes of X.to_be_bytes(), taken apart and appended one by one in order
            eb = be_elem(s.term) if s.kind == "byte" else None
            if eb is not None and eb[2] == 0:
                n = eb[1]
                grp = raw[i:i + n]
                if len(grp) == n and all(g.kind == "byte" and be_elem(g.term) == (eb[0], n, j) for j, g in enumerate(grp)):
                    out.append(Seg("be", eb[0], s.effect, n=n))
                    i += n
                    continue
            out.append(s)
            i += 1
        return out

    def layout(self, p):
        return [s.show() for s in self.segments(p)]

    # ---- fates
    def fate(self, p, e):
        if e.term is None or self.aux(e):
            return "n/a"
        k = self.sym.lookup(p, e.term)
        if k in (S.OK, S.SOME):
            return "ok"
        if k in (S.ERR, S.NONE):
            return "err"
        if p.result is not None:
            root, _ = S.root_of(p.result)
            if root == e.term:
                return "returned"
        return "dropped"

    def outcome(self, p):
        """'ok' | 'err' | 'returned' | 'panic' | 'other'"""
        if p.done and p.done[0] == "panic":
            return "panic"
        if p.done == "diverge":
            return "panic"
        r = p.result
        if r is None:
            return "other"
        if r[0] == "ctor" and r[1] == S.OK:
            return "ok"
        if r[0] == "ctor" and r[1] == S.ERR:
            return "err"
        root, _ = S.root_of(r)
        if any(e.term == root for e in p.effects):
            return "returned"
        k = self.sym.lookup(p, r)
        if k == S.OK:
            return "ok"
        if k == S.ERR:
            return "err"
        return "other"

    def success_paths(self):
        out = []
        for p in self.paths:
            o = self.outcome(p)
            if o == "ok" or (o in ("returned", "other") and all(self.fate(p, e) in ("ok", "returned", "n/a") for e in p.effects)):
                if o != "other" or p.result is not None:
                    out.append(p)
        return out

    def guard_holds(self, p, guard):
        """the path carries `x <= limit` (in any of the forms the comparison normalises to)"""
        x, limit = guard
        for a in p.atoms:
            if a[0] != "true":
                continue
            t, pol = a[1], a[2]
            if t[0] != "bin":
                continue
            op, l, r = t[1], t[2], t[3]
            if op == "<" and l == ("lit", limit) and r == x and not pol:     # !(limit < x)
                return True
            if op == "<=" and l == x and r == ("lit", limit) and pol:
                return True
            if op == "<" and l == x and r == ("lit", limit + 1) and pol:
                return True
            if op == "<=" and l == ("lit", limit + 1) and r == x and not pol:  # !(limit+1 <= x)
                return True
        return False

    @staticmethod
    def guard_fails(a, guard):
        """atom a says `x > limit`"""
        x, limit = guard
        if a[0] != "true" or a[1][0] != "bin":
            return False
        op, l, r, pol = a[1][1], a[1][2], a[1][3], a[2]
        return ((op == "<" and l == ("lit", limit) and r == x and pol) or (op == "<=" and l == x and r == ("lit", limit) and not pol)
                or (op == "<" and l == x and r == ("lit", limit + 1) and not pol) or (op == "<=" and l == ("lit", limit + 1) and r == x and pol))

    # ---- the common clauses
    def check_common(self, ctx, cfg, key, who, delegates=(), conversions=(), allow_unwrap=False):
        """who-may-call, no-loop, propagation, explicit-error; returns the number of appends on the longest path (a floor for
        "the rule looked at something": counted per evaluation, so a table-driven `try_for_each` with one call site counts as
        what it appends)"""
        where = self.fn["sp"]
        if self.error:
            ctx.violation(key + "|paths", "%s: %s" % (who, self.error), cfg=cfg, where=where)
            return 0
        sites = {}
        longest = 0
        all_guards = {s.guard for p in self.paths for s in self.segments(p) if s.guard is not None}
        for p in self.paths:
            out = self.outcome(p)
            segs = self.segments(p)
            longest = max(longest, len(segs))
            failed = None
            for i, e in enumerate(p.effects):
                if self.aux(e):
                    continue      # a write into a local array / a loop cursor: accounted for in segments()
                sites[e.node.get("sp")] = e
                m = method_of(e.callee)
                d = S.show(e.args[1])[:70] if len(e.args) > 1 else m
                if e.loops:
                    ctx.oblige(key + "|no-loop", False, "%s appends inside a loop" % who, cfg=cfg, where=H.line(e.node))
                if e.kind == "assign":
                    ctx.oblige(key + "|append-only|assign", False, "%s overwrites the output buffer" % who, cfg=cfg, where=H.line(e.node))
                    continue
                if e.kind == "closure":
                    ctx.oblige(key + "|append-only|closure", False, "%s hands the output buffer to a closure" % who, cfg=cfg, where=H.line(e.node))
                    continue
                is_append = e.args and self.is_buf(e.args[0]) and m in ("push", "extend_from_slice")
                if not is_append:
                    ctx.oblige(key + "|append-only|" + m, e.callee in delegates,
                               "%s calls `%s` on the output buffer: not an append" % (who, e.callee), cfg=cfg, where=H.line(e.node))
                f = self.fate(p, e)
                if failed is not None:
                    ctx.oblige(key + "|stops-after-failure|" + d, False, "%s keeps appending (%s) after an append failed" % (who, d), cfg=cfg, where=H.line(e.node))
                if f == "err":
                    failed = e
                elif f == "dropped":
                    ctx.oblige(key + "|propagated|" + d, False,
                               "%s: the Result of appending %s is not propagated (dropped): overflow would silently shorten the data" % (who, d), cfg=cfg, where=H.line(e.node))
                elif f == "returned":
                    ctx.oblige(key + "|propagated|" + d, i == len(p.effects) - 1, "%s: an append follows the one whose Result is returned" % who, cfg=cfg, where=H.line(e.node))
                else:
                    ctx.oblige(key + "|propagated|" + d, True, "", cfg=cfg)
            if failed is not None and not (out == "panic" and allow_unwrap):
                ctx.oblige(key + "|failure-is-error|" + S.show(failed.args[1] if len(failed.args) > 1 else failed.args[0])[:60], out == "err",
                           "%s: an append fails but the function does not return Err (outcome %s)" % (who, out), cfg=cfg, where=H.line(failed.node))
            if out == "panic" and not allow_unwrap:
                ctx.oblige(key + "|no-panic|" + str(p.done[1] if isinstance(p.done, tuple) else p.done)[:60], False,
                           "%s can panic (%s) instead of returning an error" % (who, p.done), cfg=cfg, where=where)
            if out == "err" and failed is None:
                # which test made it fail?  a listed conversion is part of the format; anything else is hand-written
                conv_fail = any(a[0] in ("is", "isnot") and a[1][0] == "call" and a[1][1] in conversions and self.sym.lookup(p, a[1]) == S.ERR for a in p.atoms)
                # the range test that protects a hand-made big-endian encoding on the other paths: x > limit => Err
                range_fail = bool(p.atoms) and any(self.guard_fails(p.atoms[-1], g) for g in all_guards)
                if not conv_fail and not range_fail:
                    why = "; ".join(S.show_atom(a) for a in p.atoms if not (a[0] in ("is", "isnot") and any(x.term == a[1] for x in p.effects)))[:200]
                    ctx.oblige(key + "|explicit-error|" + why[:80], False,
                               "%s fails with a hand-written test (%s) rather than because an append did not fit: inputs that fit exactly may be rejected" % (who, why), cfg=cfg, where=where)
            for s in segs:
                if s.guard is not None and out in ("ok", "returned"):
                    ctx.oblige(key + "|be-guard|" + S.show(s.guard[0])[:50], self.guard_holds(p, s.guard),
                               "%s writes %s as %d big-endian bytes without checking that it is <= %d on this path: a larger value would wrap" % (who, S.show(s.guard[0]), s.n, s.guard[1]), cfg=cfg, where=where)
        return longest


def term_type(F, fn, t):
    """static type string of a parameter / field / variant-payload term (None if unknown)"""
    from .sym import split_generic
    if t[0] == "param":
        for p in fn.get("params", []):
            for name, pid in H.pat_bindings(p):
                if name == t[1]:
                    return p.get("ty") if p.get("k") == "bind" else None
        return None
    if t[0] in ("field", "proj"):
        bt = term_type(F, fn, t[1])
        if bt is None:
            return None
        bt = bt.strip()
        while bt.startswith("&"):
            bt = bt[1:].strip()
            if bt.startswith("mut "):
                bt = bt[4:]
            if bt.startswith("'"):
                bt = bt.split(" ", 1)[1] if " " in bt else bt
        base, _ = split_generic(bt)
        a = F.adt(base)
        if a is None:
            return None
        if t[0] == "field":
            if a["kind"] != "struct":
                return None
            for f in a["variants"][0]["fields"]:
                if f["name"] == t[2]:
                    return f["ty"]["s"]
            return None
        vname = t[2].split("::")[-1]
        for v in a["variants"]:
            if v["name"] == vname:
                i = t[3]
                if isinstance(i, int) and i < len(v["fields"]):
                    return v["fields"][i]["ty"]["s"]
                for f in v["fields"]:
                    if f["name"] == i:
                        return f["ty"]["s"]
        return None
    return None
