"""C07 — authenticator data is laid out byte-for-byte as WebAuthn specifies.

Decides (O, W, E, T) on every control-flow path of AuthenticatorData::serialize and of
AttestedCredentialData::serialize (loop-free; `?` forks enumerated):
  * order of appends: rpIdHash, flags, signCount [, attested credential data] [, extensions], the
    optional parts exactly when their field is Some; aaguid, credentialIdLength, credentialId, key;
  * widths / endianness: the counter goes through u32::to_be_bytes, the length through
    u16::try_from(len) and u16::to_be_bytes — no `as` narrowing, no little/native endian;
  * the output is a fresh Bytes<676>; only push / extend_from_slice / the two delegations touch it;
  * every append's Result is propagated with `?` (or is the function result): overflow is an error,
    never a panic, never a shortened value;  the id-length conversion failure is propagated too;
  * flag bit constants, the capacity constant, rp_id_hash: &[u8; 32], sign_count: u32;
  * NoAttestedCredentialData::serialize appends nothing.
Not decided: the CBOR bytes of the extension map (C02/C03 + cbor-smol).
"""
import json
import os

from . import hirq as H
from .appendchain import Chain
from . import oblig_rules as OR
from .pathcond import TooManyPaths
from .engine import VERIF

LEVEL = "other"

AD = "ctap2::AuthenticatorData::<'a, A, E>::serialize"
ACD = "<ctap2::make_credential::AttestedCredentialData<'a> as ctap2::SerializeAttestedCredentialData>::serialize"
NOACD = "<ctap2::get_assertion::NoAttestedCredentialData as ctap2::SerializeAttestedCredentialData>::serialize"
EXT = "heapless::vec::Vec::<T, N>::extend_from_slice"
PUSH = "heapless::vec::Vec::<T, N>::push"


def chain_common(ctx, cfg, c, key, who):
    """who-may-call + propagation on all paths"""
    seen = {}
    for p in c.paths:
        if p.loops:
            ctx.oblige(key + "|no-loop", False, "%s appends inside a loop" % who, cfg=cfg, where=c.fn["sp"])
        for e in p.effects:
            seen[id(e)] = e
    for e in seen.values():
        m = c.method(e)
        if m is not None:
            ctx.oblige(key + "|append-only|" + m, e.get("callee") in (EXT, PUSH),
                       "%s calls `%s` on the output buffer: not an append" % (who, e.get("callee")), cfg=cfg, where=H.line(e))
        elif e.get("k") in ("assign", "assignop"):
            ctx.oblige(key + "|append-only|assign", False, "%s overwrites the output buffer" % who, cfg=cfg, where=H.line(e))
        ok, why = c.propagated(e)
        ctx.oblige(key + "|propagated|" + c.data_desc(e)[:70], ok,
                   "%s: the Result of appending %s is not propagated (%s): overflow would be a panic or silently shortened data" % (who, c.data_desc(e)[:70], why), cfg=cfg, where=H.line(e))
    # error exits: only failed appends / delegations / conversions propagated with `?`; an explicit `Err(..)` result moves the
    # accept/reject frontier by a hand-written test (conservative: a correct pre-check is reported too, DESIGN section 4.1)
    for s in c.A.sites:
        if s.wrappers[:1] == ["core::result::Result::Err"]:
            ctx.oblige(key + "|explicit-error|" + " & ".join(c.A.cond_str(x) for x in s.conds)[:80], False,
                       "%s fails with a hand-written test (%s) rather than because an append did not fit: inputs that fit exactly may be rejected" % (who, "; ".join(c.A.cond_str(x) for x in s.conds)[:160]),
                       cfg=cfg, where=H.line(s.node) if s.node else None)
    return len(seen)


def run(ctx):
    spec = json.load(open(os.path.join(VERIF, "spec", "layouts.json")))
    ctx.explanation = ("Ordered-append analysis: all control-flow paths of the two serializers are enumerated from typed HIR; on each success path the sequence of appends to the output buffer "
                       "(method, canonical description of the appended expression with resolved callees) is compared with the WebAuthn layout; who-may-call and Result-propagation rules hold on all paths.")
    ctx.rule = "obligation = (path, position) | (append site, clause) | constant, per configuration"
    ctx.trusted = ["heapless 0.7.17 Vec::push / extend_from_slice are all-or-nothing and report overflow as Err", "core: u32/u16::to_be_bytes, u16::try_from(usize)", "cbor-smol 0.5.1 cbor_serialize_to appends exactly the encoding or fails"]
    for cfg, F in ctx.facts.items():
        n_sites = 0
        # ---------------- AuthenticatorData::serialize
        fn = F.fn(AD)
        if ctx.oblige("C07|ad|anchor", fn is not None, "anchor missing: AuthenticatorData::serialize", cfg=cfg):
            lets = [s for s in fn["body"].get("stmts", []) if s["k"] == "let" and s["pat"].get("k") == "bind"]
            out = None
            for s in lets:
                i = H.strip_block(s.get("init") or {})
                if i.get("k") == "call" and (i.get("callee") or "").endswith("::new") and s["pat"]["ty"].startswith("heapless_bytes::Bytes<"):
                    out = s
            if ctx.oblige("C07|ad|fresh-buffer", out is not None, "the output is no longer a freshly created Bytes<N>", cfg=cfg, where=fn["sp"]):
                cap = spec["authenticator_data"]["capacity"]
                ctx.oblige("C07|ad|capacity", out["pat"]["ty"] == "heapless_bytes::Bytes<%d>" % cap, "authenticator data buffer is %s, expected capacity %d" % (out["pat"]["ty"], cap), cfg=cfg)
                try:
                    c = Chain(fn, out["pat"]["id"])
                except TooManyPaths:
                    c = None
                    ctx.violation("C07|ad|paths", "too many paths", cfg=cfg)
                if c is not None:
                    n_sites += chain_common(ctx, cfg, c, "C07|ad", "AuthenticatorData::serialize")
                    sp = c.success_paths()
                    ctx.oblige("C07|ad|success-paths", len(sp) == 4, "AuthenticatorData::serialize has %d success paths, expected 4 (attested data x extensions)" % len(sp), cfg=cfg)
                    for p in sp:
                        has_acd = has_ext = None
                        for cd in p.conds:
                            if cd.kind == "let" and H.pat_ctor(cd.pat) == "core::option::Option::Some":
                                d = c.A.desc(cd.init)
                                if "self.attested_credential_data" in d:
                                    has_acd = cd.pol
                                elif "self.extensions" in d:
                                    has_ext = cd.pol
                        label = "acd=%s,ext=%s" % (has_acd, has_ext)
                        key = "C07|ad|layout|" + label
                        want = ["extend_from_slice:param:self.rp_id_hash", "push:ctap2::AuthenticatorDataFlags::bits(param:self.flags)",
                                "extend_from_slice:core::num::<impl u32>::to_be_bytes(param:self.sign_count)"]
                        if has_acd:
                            want.append("call:ctap2::SerializeAttestedCredentialData::serialize(<Some binding of self.attested_credential_data>)")
                        if has_ext:
                            want.append("call:cbor_smol::cbor_serialize_to(<Some binding of self.extensions>)")
                        got = []
                        for e in p.effects:
                            m = c.method(e)
                            if m:
                                got.append("%s:%s" % (m, c.data_desc(e)))
                            else:
                                # delegation: receiver / first argument must be the Some-binding of the right field
                                args = [a for a in H.call_args(e) if H.local_id(a) != c.buf_id]
                                src = None
                                if len(args) == 1:
                                    lid = H.local_id(args[0])
                                    for cd in p.conds:
                                        if cd.kind == "let" and cd.pol and lid in [i for _, i in H.pat_bindings(cd.pat)]:
                                            d = c.A.desc(cd.init)
                                            src = "self.attested_credential_data" if "self.attested_credential_data" in d else "self.extensions" if "self.extensions" in d else d
                                got.append("call:%s(<Some binding of %s>)" % (e.get("callee"), src))
                        ctx.oblige("C07|ad|flags-known|" + label, has_acd is not None and has_ext is not None, "cannot tell which optional parts are present on this path", cfg=cfg, nontrivial=False)
                        ctx.oblige(key, got == want, "authenticator data is laid out as %s, WebAuthn requires %s" % (got, want), cfg=cfg, where=fn["sp"])
                        ctx.sample({"cfg": cfg, "fn": "AuthenticatorData::serialize", "path": label, "appends": got}, limit=16)
                    # result is the buffer
                    ok_sites = [s for s in c.A.sites if s.wrappers == ["core::result::Result::Ok"]]
                    ctx.oblige("C07|ad|returns-buffer", len(ok_sites) == 1 and H.local_id(ok_sites[0].node) == out["pat"]["id"], "the function does not return the buffer it filled", cfg=cfg)
        # field types
        fs = F.struct_fields("ctap2::AuthenticatorData")
        if ctx.oblige("C07|ad|adt", fs is not None, "anchor missing: struct AuthenticatorData", cfg=cfg):
            ft = {f["name"]: f["ty"]["s"] for f in fs}
            ctx.oblige("C07|ad|type|rp_id_hash", ft.get("rp_id_hash") in ("&'a [u8; 32]", "&[u8; 32]"), "rp_id_hash is %s, expected &[u8; 32]" % ft.get("rp_id_hash"), cfg=cfg)
            ctx.oblige("C07|ad|type|sign_count", ft.get("sign_count") == "u32", "sign_count is %s, expected u32" % ft.get("sign_count"), cfg=cfg)
            ctx.oblige("C07|ad|type|flags", ft.get("flags") == "ctap2::AuthenticatorDataFlags", "flags is %s" % ft.get("flags"), cfg=cfg)
        for name, val in spec["authenticator_data"]["flags"].items():
            got = F.const_value("ctap2::AuthenticatorDataFlags::" + name)
            ctx.oblige("C07|flag|" + name, got == val, "AuthenticatorDataFlags::%s = %s, WebAuthn says %s" % (name, got, val), cfg=cfg)
        ff = F.struct_fields("ctap2::AuthenticatorDataFlags")
        ctx.oblige("C07|flag|width", ff is not None and len(ff) == 1 and ff[0]["ty"]["s"] == "u8", "the flags are not a single byte", cfg=cfg)
        ctx.oblige("C07|capacity-const", F.const_value("sizes::AUTHENTICATOR_DATA_LENGTH") == spec["authenticator_data"]["capacity"],
                   "AUTHENTICATOR_DATA_LENGTH = %s" % F.const_value("sizes::AUTHENTICATOR_DATA_LENGTH"), cfg=cfg)
        al = F.aliases.get("ctap2::SerializedAuthenticatorData")
        ctx.oblige("C07|alias", al is not None and al["s"].startswith("heapless_bytes::Bytes<"), "SerializedAuthenticatorData is %s" % (al and al["s"]), cfg=cfg, nontrivial=False)
        # ---------------- AttestedCredentialData::serialize
        fn = F.fn(ACD)
        if ctx.oblige("C07|acd|anchor", fn is not None, "anchor missing: AttestedCredentialData::serialize", cfg=cfg):
            bid = [i for p in fn["params"] for n, i in H.pat_bindings(p) if n != "self"]
            c = Chain(fn, bid[0])
            n_sites += chain_common(ctx, cfg, c, "C07|acd", "AttestedCredentialData::serialize")
            sp = c.success_paths()
            ctx.oblige("C07|acd|success-paths", len(sp) == 1, "AttestedCredentialData::serialize has %d success paths" % len(sp), cfg=cfg)
            want = ["extend_from_slice:param:self.aaguid",
                    "extend_from_slice:core::num::<impl u16>::to_be_bytes(try(core::result::Result::<T, E>::map_err(core::convert::TryFrom::try_from(core::slice::<impl [T]>::len(param:self.credential_id)), closure)))",
                    "extend_from_slice:param:self.credential_id", "extend_from_slice:param:self.credential_public_key"]
            for p in sp:
                got = ["%s:%s" % (c.method(e) or "call", c.data_desc(e)) for e in p.effects]
                ctx.oblige("C07|acd|layout", got == want, "attested credential data is laid out as %s, WebAuthn requires %s" % (got, want), cfg=cfg, where=fn["sp"])
                ctx.sample({"cfg": cfg, "fn": "AttestedCredentialData::serialize", "appends": got}, limit=16)
            # the length conversion is the checked u16::try_from(usize), no `as` narrowing anywhere
            casts = [x for x in H.walk(fn["body"]) if x.get("k") == "cast"]
            ctx.oblige("C07|acd|no-narrowing-cast", not casts, "a length is narrowed with `as` (%s): a 65536-byte id would wrap" % [x.get("ty") for x in casts], cfg=cfg)
            conv = [x for x in H.walk(fn["body"]) if x.get("callee") == "core::convert::TryFrom::try_from"]
            ctx.oblige("C07|acd|checked-length", len(conv) == 1 and (conv[0].get("targs") or [])[:2] == ["u16", "usize"], "credential id length is not converted with u16::try_from(usize)", cfg=cfg)
        fs = F.struct_fields("ctap2::make_credential::AttestedCredentialData")
        if fs:
            ft = {f["name"]: f["ty"]["s"] for f in fs}
            for f in ("aaguid", "credential_id", "credential_public_key"):
                ctx.oblige("C07|acd|type|" + f, ft.get(f) in ("&'a [u8]", "&[u8]"), "%s is %s" % (f, ft.get(f)), cfg=cfg, nontrivial=False)
        # ---------------- NoAttestedCredentialData
        fn = F.fn(NOACD)
        if ctx.oblige("C07|noacd|anchor", fn is not None, "anchor missing: NoAttestedCredentialData::serialize", cfg=cfg):
            bid = [i for p in fn["params"] for n, i in H.pat_bindings(p) if n != "self"]
            c = Chain(fn, bid[0])
            eff = [e for p in c.paths for e in p.effects]
            oks = [s for s in c.A.sites if s.wrappers == ["core::result::Result::Ok"]]
            ctx.oblige("C07|noacd|appends-nothing", not eff and len(oks) == len(c.A.sites) == 1 and not c.A.tries, "the GetAssertion flavour appends attested credential data", cfg=cfg)
        # the two flavours are wired to the right delegates
        for alias, a_ty, e_ty in (("ctap2::make_credential::AuthenticatorData", "ctap2::make_credential::AttestedCredentialData", "ctap2::make_credential::Extensions"),
                                  ("ctap2::get_assertion::AuthenticatorData", "ctap2::get_assertion::NoAttestedCredentialData", "ctap2::get_assertion::ExtensionsOutput")):
            al = F.aliases.get(alias)
            args = [x.get("path") for x in (al or {}).get("args", [])]
            ctx.oblige("C07|flavour|" + alias, al is not None and args == [a_ty, e_ty], "%s is instantiated with %s" % (alias, args), cfg=cfg)
        ctx.floor("append sites", n_sites, 3, cfg=cfg)
        # "never panics": obligations in the /repo instances reachable from both flavours of AuthenticatorData::serialize
        for alias in ("ctap2::make_credential::AuthenticatorData", "ctap2::get_assertion::AuthenticatorData"):
            OR.check_root(ctx, F, cfg, "C07", AD + "@alias:" + alias, what="while serialising authenticator data")
