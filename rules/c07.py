"""C07 — authenticator data is laid out byte-for-byte as WebAuthn specifies.

Decides (O, W, E, T) on every control-flow path of AuthenticatorData::serialize and of
AttestedCredentialData::serialize (loop-free; `?` forks enumerated):
  * order of appends: rpIdHash, flags, signCount [, attested credential data] [, extensions], the
    optional parts exactly when their field is Some; aaguid, credentialIdLength, credentialId, key;
  * widths / endianness: the counter goes through u32::to_be_bytes, the length through
    u16::try_from(len) and u16::to_be_bytes — no `as` narrowing, no little/native endian;
  * the output is a fresh Bytes<676>; only push / extend_from_slice / the two delegations touch it;
  * every append's Result is propagated with `?` (or is the function result): overflow is an error,
    never a panic, never a shortened value;  the id-length conversion failure is propagated too;
  * flag bit constants, the capacity constant, rp_id_hash: &[u8; 32], sign_count: u32;
  * NoAttestedCredentialData::serialize appends nothing.
Not decided: the CBOR bytes of the extension map (C02/C03 + cbor-smol).
"""
import json
import os

from . import hirq as H
from .chain2 import Chain2, method_of, norm as cnorm
from . import sym as S
from . import oblig_rules as OR
from .pathcond import TooManyPaths
from .engine import VERIF

LEVEL = "other"

AD = "ctap2::AuthenticatorData::<'a, A, E>::serialize"
ACD = "<ctap2::make_credential::AttestedCredentialData<'a> as ctap2::SerializeAttestedCredentialData>::serialize"
NOACD = "<ctap2::get_assertion::NoAttestedCredentialData as ctap2::SerializeAttestedCredentialData>::serialize"
ACD_TRAIT = "ctap2::SerializeAttestedCredentialData::serialize"
CBOR_TO = "cbor_smol::cbor_serialize_to"
U16_FROM_USIZE = ("core::convert::num::ptr_try_from_impls::<impl core::convert::TryFrom<usize> for u16>::try_from",)
EXT = "heapless::vec::Vec::<T, N>::extend_from_slice"
PUSH = "heapless::vec::Vec::<T, N>::push"


def run(ctx):
    spec = json.load(open(os.path.join(VERIF, "spec", "layouts.json")))
    ctx.explanation = ("Ordered-append analysis: all control-flow paths of the two serializers are enumerated from typed HIR; on each success path the sequence of appends to the output buffer "
                       "(method, canonical description of the appended expression with resolved callees) is compared with the WebAuthn layout; who-may-call and Result-propagation rules hold on all paths.")
    ctx.rule = "obligation = (path, position) | (append site, clause) | constant, per configuration"
    ctx.trusted = ["heapless 0.7.17 Vec::push / extend_from_slice are all-or-nothing and report overflow as Err", "core: u32/u16::to_be_bytes, u16::try_from(usize)", "cbor-smol 0.5.1 cbor_serialize_to appends exactly the encoding or fails"]
    for cfg, F in ctx.facts.items():
        n_sites = 0
        # ---------------- AuthenticatorData::serialize
        fn = F.fn(AD)
        if ctx.oblige("C07|ad|anchor", fn is not None, "anchor missing: AuthenticatorData::serialize", cfg=cfg):
            c = Chain2(F, fn, buf=None)
            bufs = c.buffers()
            if ctx.oblige("C07|ad|fresh-buffer", len(bufs) == 1 and not c.error, "the output is no longer one freshly created Bytes<N> (%d candidates)" % len(bufs), cfg=cfg, where=fn["sp"]):
                buf = next(iter(bufs))
                cap = spec["authenticator_data"]["capacity"]
                bt = c.buffer_type(buf)
                ctx.oblige("C07|ad|capacity", bt == "heapless_bytes::Bytes<%d>" % cap, "authenticator data buffer is %s, expected capacity %d" % (bt, cap), cfg=cfg)
                n_sites += c.check_common(ctx, cfg, "C07|ad", "AuthenticatorData::serialize", delegates=(ACD_TRAIT, CBOR_TO))
                sp = c.success_paths()
                ctx.oblige("C07|ad|success-paths", len(sp) == 4, "AuthenticatorData::serialize has %d success paths, expected 4 (attested data x extensions)" % len(sp), cfg=cfg)
                me = ("param", "self")
                f_acd, f_ext = ("field", me, "attested_credential_data"), ("field", me, "extensions")
                for p in sp:
                    has_acd = {S.SOME: True, S.NONE: False}.get(c.sym.lookup(p, f_acd))
                    has_ext = {S.SOME: True, S.NONE: False}.get(c.sym.lookup(p, f_ext))
                    label = "acd=%s,ext=%s" % (has_acd, has_ext)
                    key = "C07|ad|layout|" + label
                    segs = c.segments(p)
                    got = [x.show() for x in segs]
                    ok = len(segs) >= 3 and segs[0].kind == "chunk" and segs[0].term == ("field", me, "rp_id_hash")
                    ok = ok and segs[1].kind == "byte" and segs[1].term[0] == "call" and segs[1].term[1] == "ctap2::AuthenticatorDataFlags::bits" and segs[1].term[2] == (("field", me, "flags"),)
                    ok = ok and segs[2].kind == "be" and segs[2].n == 4 and segs[2].term == ("field", me, "sign_count") and segs[2].guard is None
                    rest = segs[3:]
                    want_rest = []
                    if has_acd:
                        want_rest.append((ACD_TRAIT, (("proj", f_acd, S.SOME, 0),)))
                    if has_ext:
                        want_rest.append((CBOR_TO, (("proj", f_ext, S.SOME, 0),)))
                    ok = ok and [(x.callee, x.term) for x in rest if x.kind == "delegate"] == want_rest and all(x.kind == "delegate" for x in rest)
                    ctx.oblige("C07|ad|flags-known|" + label, has_acd is not None and has_ext is not None, "cannot tell which optional parts are present on this path", cfg=cfg, nontrivial=False)
                    ctx.oblige(key, ok, "authenticator data is laid out as %s, WebAuthn requires rpIdHash, flags, signCount(be32)%s%s" % (got, ", attested credential data" if has_acd else "", ", extensions" if has_ext else ""), cfg=cfg, where=fn["sp"])
                    ctx.oblige("C07|ad|returns-buffer|" + label, p.result == ("ctor", S.OK, (buf,)), "the function does not return the buffer it filled (returns %s)" % S.show(p.result)[:120], cfg=cfg)
                    ctx.sample({"cfg": cfg, "fn": "AuthenticatorData::serialize", "path": label, "appends": got}, limit=16)
        # field types
        fs = F.struct_fields("ctap2::AuthenticatorData")
        if ctx.oblige("C07|ad|adt", fs is not None, "anchor missing: struct AuthenticatorData", cfg=cfg):
            ft = {f["name"]: f["ty"]["s"] for f in fs}
            ctx.oblige("C07|ad|type|rp_id_hash", ft.get("rp_id_hash") in ("&'a [u8; 32]", "&[u8; 32]"), "rp_id_hash is %s, expected &[u8; 32]" % ft.get("rp_id_hash"), cfg=cfg)
            ctx.oblige("C07|ad|type|sign_count", ft.get("sign_count") == "u32", "sign_count is %s, expected u32" % ft.get("sign_count"), cfg=cfg)
            ctx.oblige("C07|ad|type|flags", ft.get("flags") == "ctap2::AuthenticatorDataFlags", "flags is %s" % ft.get("flags"), cfg=cfg)
        for name, val in spec["authenticator_data"]["flags"].items():
            got = F.const_value("ctap2::AuthenticatorDataFlags::" + name)
            ctx.oblige("C07|flag|" + name, got == val, "AuthenticatorDataFlags::%s = %s, WebAuthn says %s" % (name, got, val), cfg=cfg)
        ff = F.struct_fields("ctap2::AuthenticatorDataFlags")
        ctx.oblige("C07|flag|width", ff is not None and len(ff) == 1 and ff[0]["ty"]["s"] == "u8", "the flags are not a single byte", cfg=cfg)
        ctx.oblige("C07|capacity-const", F.const_value("sizes::AUTHENTICATOR_DATA_LENGTH") == spec["authenticator_data"]["capacity"],
                   "AUTHENTICATOR_DATA_LENGTH = %s" % F.const_value("sizes::AUTHENTICATOR_DATA_LENGTH"), cfg=cfg)
        al = F.aliases.get("ctap2::SerializedAuthenticatorData")
        ctx.oblige("C07|alias", al is not None and al["s"].startswith("heapless_bytes::Bytes<"), "SerializedAuthenticatorData is %s" % (al and al["s"]), cfg=cfg, nontrivial=False)
        # ---------------- AttestedCredentialData::serialize
        fn = F.fn(ACD)
        if ctx.oblige("C07|acd|anchor", fn is not None, "anchor missing: AttestedCredentialData::serialize", cfg=cfg):
            bname = [n for p in fn["params"] for n, i in H.pat_bindings(p) if n != "self"]
            c = Chain2(F, fn, buf=("param", bname[0]))
            n_sites += c.check_common(ctx, cfg, "C07|acd", "AttestedCredentialData::serialize", conversions=U16_FROM_USIZE)
            sp = c.success_paths()
            ctx.oblige("C07|acd|success-paths", len(sp) == 1, "AttestedCredentialData::serialize has %d success paths" % len(sp), cfg=cfg)
            me = ("param", "self")
            for p in sp:
                segs = c.segments(p)
                got = [x.show() for x in segs]
                ok = len(segs) == 4 and segs[0].kind == "chunk" and segs[0].term == ("field", me, "aaguid")
                ok = ok and segs[2].kind == "chunk" and segs[2].term == ("field", me, "credential_id") and segs[3].kind == "chunk" and segs[3].term == ("field", me, "credential_public_key")
                ctx.oblige("C07|acd|layout", ok, "attested credential data is laid out as %s, WebAuthn requires aaguid, credentialIdLength(be16), credentialId, credentialPublicKey" % got, cfg=cfg, where=fn["sp"])
                # the length: 2 big-endian bytes of len(self.credential_id), converted with a *checked* conversion
                # (u16::try_from, or hand-made bytes under an explicit `<= 0xFFFF` test) -- never an `as` narrowing
                l_ok, why = False, "the second segment is not a 2-byte big-endian integer"
                if len(segs) == 4 and segs[1].kind == "be" and segs[1].n == 2:
                    t = segs[1].term
                    def is_len(x):
                        return x[0] == "call" and method_of(x[1]) == "len" and len(x[2]) == 1 and cnorm(x[2][0]) == ("field", me, "credential_id")
                    if t[0] == "proj" and t[2] == S.OK and t[1][0] == "call" and t[1][1] in U16_FROM_USIZE and is_len(t[1][2][0]):
                        l_ok = True
                    elif is_len(t) and segs[1].guard is not None:
                        l_ok = True     # the guard itself is checked by the be-guard clause of check_common
                    elif t[0] == "cast":
                        why = "the length is narrowed with `as %s`: a 65536-byte id would wrap" % t[2]
                    else:
                        why = "the length prefix is %s, not the checked 16-bit length of self.credential_id" % S.show(t)
                ctx.oblige("C07|acd|checked-length", l_ok, why, cfg=cfg, where=fn["sp"])
                ctx.sample({"cfg": cfg, "fn": "AttestedCredentialData::serialize", "appends": got}, limit=16)
        fs = F.struct_fields("ctap2::make_credential::AttestedCredentialData")
        if fs:
            ft = {f["name"]: f["ty"]["s"] for f in fs}
            for f in ("aaguid", "credential_id", "credential_public_key"):
                ctx.oblige("C07|acd|type|" + f, ft.get(f) in ("&'a [u8]", "&[u8]"), "%s is %s" % (f, ft.get(f)), cfg=cfg, nontrivial=False)
        # ---------------- NoAttestedCredentialData
        fn = F.fn(NOACD)
        if ctx.oblige("C07|noacd|anchor", fn is not None, "anchor missing: NoAttestedCredentialData::serialize", cfg=cfg):
            bname = [n for p in fn["params"] for n, i in H.pat_bindings(p) if n != "self"]
            c = Chain2(F, fn, buf=("param", bname[0]))
            eff = [e for p in c.paths for e in p.effects]
            ctx.oblige("C07|noacd|appends-nothing", not c.error and not eff and len(c.paths) == 1 and c.outcome(c.paths[0]) == "ok", "the GetAssertion flavour appends attested credential data or can fail", cfg=cfg)
        # the two flavours are wired to the right delegates
        for alias, a_ty, e_ty in (("ctap2::make_credential::AuthenticatorData", "ctap2::make_credential::AttestedCredentialData", "ctap2::make_credential::Extensions"),
                                  ("ctap2::get_assertion::AuthenticatorData", "ctap2::get_assertion::NoAttestedCredentialData", "ctap2::get_assertion::ExtensionsOutput")):
            al = F.aliases.get(alias)
            args = [x.get("path") for x in (al or {}).get("args", [])]
            ctx.oblige("C07|flavour|" + alias, al is not None and args == [a_ty, e_ty], "%s is instantiated with %s" % (alias, args), cfg=cfg)
        ctx.floor("append sites", n_sites, 3, cfg=cfg)
        # "never panics": obligations in the /repo instances reachable from both flavours of AuthenticatorData::serialize
        for alias in ("ctap2::make_credential::AuthenticatorData", "ctap2::get_assertion::AuthenticatorData"):
            OR.check_root(ctx, F, cfg, "C07", AD + "@alias:" + alias, what="while serialising authenticator data")
