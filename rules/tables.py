"""Table extraction from resolved code: match tables of conversion functions, serde
impl tables (indexed / text-keyed, both directions), enum discriminant tables."""
from . import hirq as H
from .facts import SER, DE, VISITOR


class Unreadable(Exception):
    """an impl / function does not have a shape the extractor understands"""


# --------------------------------------------------------------------------- patterns

def pat_values(p, facts):
    """(set of python values matched, is_catchall).  Literal / const-path / range / or patterns."""
    k = p.get("k")
    if k == "wild":
        return set(), True
    if k == "bind":
        if "sub" in p:
            return pat_values(p["sub"], facts)
        return set(), True
    if k in ("ref", "deref"):
        return pat_values(p["pat"], facts)
    if k == "expr":
        v = patexpr_value(p["e"], facts)
        if v is None:
            raise Unreadable("pattern constant cannot be evaluated: %r" % (p["e"],))
        return {v}, False
    if k == "range":
        lo = patexpr_value(p["lo"], facts) if "lo" in p else None
        hi = patexpr_value(p["hi"], facts) if "hi" in p else None
        if not isinstance(lo, int) or not isinstance(hi, int):
            raise Unreadable("open or non-integer range pattern")
        return set(range(lo, hi + (1 if p["inclusive"] else 0))), False
    if k == "or":
        s, c = set(), False
        for q in p["pats"]:
            s2, c2 = pat_values(q, facts)
            s |= s2
            c = c or c2
        return s, c
    raise Unreadable("unsupported pattern kind " + str(k))


def patexpr_value(e, facts):
    if e.get("k") == "lit":
        return e.get("v")
    if e.get("k") == "path":
        r = e["res"]
        if (r.get("rk") or "").split(" ")[0].split("{")[0] in ("AssocConst", "Const"):
            return facts.const_value(r["path"])
    return None


def top_match(body):
    """the single top-level `match` of a conversion function, possibly inside Ok(..) /
    a block.  Returns (match node, wrapper ctor path or None)."""
    n = H.strip_block(body)
    if n.get("k") == "block":
        # allow leading `use` only (no statements survive in HIR for `use`)
        if n.get("stmts"):
            raise Unreadable("statements before the match")
        n = H.strip_block(n["expr"])
    wrap = None
    if n.get("k") == "call" and "ctor" in n and len(n["args"]) == 1:
        wrap = n["ctor"]
        n = H.strip_block(n["args"][0])
    if n.get("k") != "match" or n.get("src") != "normal":
        raise Unreadable("no top-level match")
    return n, wrap


def arm_result(body, wrap):
    """classify a match-arm body of a conversion: ('ok', node) / ('err', node) / ('val', node)"""
    b = H.strip_block(body)
    if b.get("k") == "ret":
        e = H.strip_block(b.get("e", {}))
        if e.get("k") == "call" and e.get("ctor") == "core::result::Result::Err":
            return "err", e["args"][0]
        if e.get("k") == "call" and e.get("ctor") == "core::result::Result::Ok":
            return "ok", e["args"][0]
        raise Unreadable("return of a non Ok/Err value")
    if b.get("k") == "call" and b.get("ctor") == "core::result::Result::Err" and wrap is None:
        return "err", b["args"][0]
    if b.get("k") == "call" and b.get("ctor") == "core::result::Result::Ok" and wrap is None:
        return "ok", b["args"][0]
    if wrap == "core::result::Result::Ok":
        return "ok", b
    if wrap is None:
        return "val", b
    raise Unreadable("unexpected wrapper " + str(wrap))


def conversion_table(fn, facts):
    """rows [(values:set, catchall:bool, kind, result node, arm)] in arm order, plus scrutinee"""
    m, wrap = top_match(fn["body"])
    rows = []
    for a in m["arms"]:
        if "guard" in a:
            raise Unreadable("match guard in a conversion table")
        vals, ca = pat_values(a["pat"], facts)
        kind, res = arm_result(a["body"], wrap)
        rows.append({"vals": vals, "catchall": ca, "kind": kind, "res": res, "arm": a})
    return m, rows


def variant_table(fn, facts):
    """for `match <enum value> { Variant => result }`: [(variant path, bindings, kind, result)]"""
    m, wrap = top_match(fn["body"])
    rows = []
    for a in m["arms"]:
        if "guard" in a:
            raise Unreadable("match guard")
        pats = a["pat"]["pats"] if a["pat"].get("k") == "or" else [a["pat"]]
        kind, res = arm_result(a["body"], wrap)
        for p in pats:
            if H.pat_is_catchall(p):
                rows.append({"variant": None, "binds": H.pat_bindings(p), "kind": kind, "res": res, "arm": a})
            else:
                v = H.pat_ctor(p)
                if v is None:
                    raise Unreadable("pattern is not a variant")
                rows.append({"variant": v, "binds": H.pat_bindings(p), "kind": kind, "res": res, "arm": a})
    return m, rows


def first_match(rows, value):
    for r in rows:
        if r["catchall"] or value in r["vals"]:
            return r
    return None


def result_value(node, facts):
    """python value of a conversion result: literal, const path -> value, unit/variant ctor -> path"""
    n = H.strip(node)
    v = H.lit(n)
    if v is not None:
        return ("lit", v)
    if n.get("k") == "path":
        r = n["res"]
        if (r.get("rk") or "").split(" ")[0].split("{")[0] in ("AssocConst", "Const"):
            return ("lit", facts.const_value(r["path"]))
        c = H.ctor(n)
        if c:
            return ("ctor", c)
    if n.get("k") == "call" and "ctor" in n:
        return ("ctor", n["ctor"])
    if n.get("k") == "struct":
        return ("ctor", n["res"].get("path"))
    return ("other", None)


# --------------------------------------------------------------------------- enums

def enum_discriminants(facts, path):
    a = facts.adt(path)
    if not a or a["kind"] != "enum":
        return None
    return {v["name"]: v.get("discr") for v in a["variants"]}


# --------------------------------------------------------------------------- ordered calls

def ordered_calls(n, guards=(), flags=frozenset()):
    """yields (call node, guards, flags) in evaluation order.  guards: tuple of
    ('if', cond, polarity) / ('match', scrut, pat); flags: subset of {'loop','closure','match'}"""
    k = n.get("k")
    if k == "block":
        for s in n.get("stmts", []):
            if s["k"] == "let":
                if "init" in s:
                    yield from ordered_calls(s["init"], guards, flags)
                if "els" in s:
                    yield from ordered_calls(s["els"], guards + (("letelse", s["pat"], False),), flags)
            else:
                yield from ordered_calls(s["e"], guards, flags)
        if "expr" in n:
            yield from ordered_calls(n["expr"], guards, flags)
        return
    if k == "if":
        yield from ordered_calls(n["cond"], guards, flags)
        yield from ordered_calls(n["then"], guards + (("if", n["cond"], True),), flags)
        if "else" in n:
            yield from ordered_calls(n["else"], guards + (("if", n["cond"], False),), flags)
        return
    if k == "match":
        yield from ordered_calls(n["scrut"], guards, flags)
        for a in n["arms"]:
            g = guards + (("match", n["scrut"], a["pat"]),)
            if "guard" in a:
                yield from ordered_calls(a["guard"], g, flags | {"match"})
            yield from ordered_calls(a["body"], g, flags | {"match"})
        return
    if k == "loop":
        yield from ordered_calls(n["body"], guards, flags | {"loop"})
        return
    if k == "closure":
        yield from ordered_calls(n["body"], guards, flags | {"closure"})
        return
    if k in ("call", "mcall"):
        if k == "call":
            yield from ordered_calls(n["f"], guards, flags)
        for a in H.call_args(n):
            yield from ordered_calls(a, guards, flags)
        yield n, guards, flags
        return
    for ch in H.children(n):
        yield from ordered_calls(ch, guards, flags)


IS_NONE = "core::option::Option::<T>::is_none"


def presence_guard(guards):
    """normalise the guard list of an emission: None (unconditional) or
    {'pred': callee path, 'field': self field tested, 'emit_when_pred': bool}"""
    if not guards:
        return None
    if len(guards) != 1 or guards[0][0] != "if":
        raise Unreadable("emission under a guard that is not a single `if`")
    _, cond, pol = guards[0]
    c = H.strip_block(cond)
    neg = False
    while c.get("k") == "unary" and c["op"] == "not":
        neg = not neg
        c = H.strip_block(c["e"])
    if c.get("k") not in ("call", "mcall") or not c.get("callee"):
        raise Unreadable("presence predicate is not a call")
    args = H.call_args(c)
    if len(args) != 1:
        raise Unreadable("presence predicate with %d arguments" % len(args))
    f = H.self_field(args[0])
    if f is None:
        raise Unreadable("presence predicate does not test a field of self")
    # emitted when (pred xor neg) == pol
    emit_when_pred = (pol != neg)
    return {"pred": c["callee"], "field": f, "emit_when_pred": emit_when_pred}


# --------------------------------------------------------------------------- serde: Serialize

def ser_impl(F, path):
    l = F.impl_fn(SER, path, "serialize")
    if len(l) != 1:
        return None
    return l[0]


def de_impl(F, path):
    l = F.impl_fn(DE, path, "deserialize")
    if len(l) != 1:
        return None
    return l[0]


def impl_kind(fn):
    pv = (fn.get("impl") or {}).get("impl_pv", "user")
    for k in ("SerializeIndexed", "DeserializeIndexed", "Serialize_repr", "Deserialize_repr", "Serialize", "Deserialize"):
        if pv == "derive:" + k:
            return k
    return "user" if pv == "user" else pv


def map_ser_table(fn):
    """Serialize impl that emits a map: indexed (serialize_map/serialize_entry with integer keys)
    or text-keyed (serialize_struct/serialize_field).  Returns dict(kind, entries, header)."""
    entries = []
    header = None
    kind = None
    ended = False
    for c, guards, flags in ordered_calls(fn["body"]):
        cal = c.get("callee")
        if cal == "serde_core::ser::Serializer::serialize_map":
            a = H.strip_block(H.call_args(c)[1])
            header = {"call": "serialize_map", "definite": a.get("k") == "call" and a.get("ctor") == "core::option::Option::Some", "node": c}
            kind = "indexed"
        elif cal == "serde_core::ser::Serializer::serialize_struct":
            header = {"call": "serialize_struct", "definite": True, "name": H.lit(H.call_args(c)[1]), "node": c}
            kind = "text"
        elif cal == "serde_core::ser::SerializeMap::serialize_entry":
            if flags:
                raise Unreadable("serialize_entry inside %s" % sorted(flags))
            args = H.call_args(c)
            key = H.lit(args[1])
            f = H.self_field(args[2])
            if f is None:
                raise Unreadable("serialize_entry value is not a field of self")
            entries.append({"key": key, "field": f, "guard": presence_guard(guards), "node": c, "vty": (c.get("targs") or [None, None, None])[2]})
        elif cal == "serde_core::ser::SerializeStruct::serialize_field":
            if flags:
                raise Unreadable("serialize_field inside %s" % sorted(flags))
            args = H.call_args(c)
            key = H.lit(args[1])
            f = H.self_field(args[2])
            if f is None:
                raise Unreadable("serialize_field value is not a field of self")
            entries.append({"key": key, "field": f, "guard": presence_guard(guards), "node": c, "vty": (c.get("targs") or [None, None])[1]})
        elif cal in ("serde_core::ser::SerializeMap::end", "serde_core::ser::SerializeStruct::end"):
            ended = True
        elif cal in ("serde_core::ser::SerializeMap::serialize_key", "serde_core::ser::SerializeMap::serialize_value"):
            raise Unreadable("split key/value emission")
    if header is None:
        return None
    return {"kind": kind, "entries": entries, "header": header, "ended": ended}


# --------------------------------------------------------------------------- serde: Deserialize

def _while_let_loop(body):
    """the `while let Some(key) = map.next_key()? { match key {..} }` loop of a visit_map:
    returns (key binding id, match node) """
    for s in body.get("stmts", []):
        e = s.get("e")
        if not e:
            continue
        e = H.strip_block(e)
        if e.get("k") == "loop" and e.get("src") == "while":
            inner = H.strip_block(e["body"])
            if inner.get("k") == "block":
                inner = H.strip_block(inner.get("expr", {}))
            if inner.get("k") != "if":
                raise Unreadable("while-let loop of unexpected shape")
            cond = H.strip_block(inner["cond"])
            if cond.get("k") != "letexpr":
                raise Unreadable("loop condition is not `let Some(key) = next_key()?`")
            binds = H.pat_bindings(cond["pat"])
            init = H.strip_block(cond["init"])
            if init.get("k") != "try" or H.strip_block(init["e"]).get("callee") != "serde_core::de::MapAccess::next_key":
                raise Unreadable("loop does not iterate next_key()?")
            if "else" not in inner or H.strip_block(inner["else"]).get("k") not in ("break", "block"):
                raise Unreadable("loop else-branch is not `break`")
            then = H.strip_block(inner["then"])
            m = then
            if then.get("k") == "block":
                st = then.get("stmts", [])
                if len(st) == 1 and "expr" not in then:
                    m = H.strip_block(st[0]["e"])
                elif not st and "expr" in then:
                    m = H.strip_block(then["expr"])
            if m.get("k") != "match":
                raise Unreadable("loop body is not a single match on the key")
            if len(binds) != 1 or H.local_id(m["scrut"]) != binds[0][1]:
                raise Unreadable("loop body does not match on the key")
            return binds[0][1], m, s
    raise Unreadable("no while-let loop over next_key()")


def _arm_store(arm_body):
    """in a visit_map arm: (assigned local name, decoded type, has duplicate check, value node)"""
    b = H.strip_block(arm_body)
    stmts = list(b.get("stmts", [])) if b.get("k") == "block" else []
    if b.get("k") == "block" and "expr" in b:
        stmts.append({"k": "expr", "e": b["expr"]})
    dup = False
    store = None
    for s in stmts:
        e = H.strip_block(s.get("e") or {})
        if e.get("k") == "if":
            c = H.strip_block(e["cond"])
            if c.get("callee") == "core::option::Option::<T>::is_some" and H.diverges(e["then"]):
                if any(x.get("callee") == "serde_core::de::Error::duplicate_field" for x in H.walk(e["then"])):
                    dup = H.local_name(H.call_args(c)[0])
        elif e.get("k") == "assign":
            store = e
    if store is None:
        return None
    target = H.local_name(store["l"])
    r = H.strip_block(store["r"])
    if not (r.get("k") == "call" and r.get("ctor") == "core::option::Option::Some"):
        raise Unreadable("arm does not store Some(value)")
    val = r["args"][0]
    nv = [x for x in H.walk(val) if x.get("callee") == "serde_core::de::MapAccess::next_value"]
    if len(nv) != 1:
        raise Unreadable("arm does not decode exactly one value")
    return {"local": target, "dup": dup == target, "ty": (nv[0].get("targs") or [None, None])[1], "val": val, "val_ty": val.get("ty")}


def indexed_de_table(F, fn):
    """DeserializeIndexed impl -> dict(entries [{key, field, ty, dup}], required {field}, catchall_err)"""
    vms = [c for c in F.nested(fn, name="visit_map")]
    if len(vms) != 1:
        raise Unreadable("no unique visit_map")
    vm = vms[0]
    body = vm["body"]
    key_id, m, loop_stmt = _while_let_loop(body)
    entries = []
    catch = None
    for a in m["arms"]:
        if "guard" in a:
            raise Unreadable("guard in key match")
        vals, ca = pat_values(a["pat"], F)
        if ca:
            catch = "err" if (H.diverges(a["body"]) and any(x.get("ctor") == "core::result::Result::Err" for x in H.walk(a["body"]))) else "accept"
            break
        st = _arm_store(a["body"])
        if st is None:
            raise Unreadable("key arm without a store")
        for v in sorted(vals):
            entries.append({"key": v, "local": st["local"], "ty": st["ty"], "dup": st["dup"]})
    # post-loop: required members and the tail struct literal
    required = {}
    after = False
    shadow = {}   # new local name -> original local name
    for s in body.get("stmts", []):
        if s is loop_stmt:
            after = True
            continue
        if not after or s["k"] != "let":
            continue
        init = H.strip_block(s.get("init") or {})
        if init.get("k") == "try":
            call = H.strip_block(init["e"])
            if call.get("callee") == "core::option::Option::<T>::ok_or_else":
                src = H.local_name(H.call_args(call)[0])
                miss = [H.lit(H.call_args(x)[0]) for x in H.walk(call) if x.get("callee") == "serde_core::de::Error::missing_field"]
                if len(miss) == 1 and s["pat"].get("k") == "bind":
                    required[src] = miss[0]
                    shadow[s["pat"]["name"]] = src
                    continue
        raise Unreadable("unexpected statement after the key loop")
    tail = H.strip_block(body.get("expr", {}))
    if not (tail.get("k") == "call" and tail.get("ctor") == "core::result::Result::Ok"):
        raise Unreadable("visit_map does not end in Ok(..)")
    st = H.strip_block(tail["args"][0])
    if st.get("k") != "struct":
        raise Unreadable("visit_map does not build the struct")
    local_to_field = {}
    for f in st["fields"]:
        ln = H.local_name(f["e"])
        if ln is None:
            raise Unreadable("struct field %s is not initialised from a key local" % f["name"])
        local_to_field.setdefault(shadow.get(ln, ln), []).append(f["name"])
    for e in entries:
        fs = local_to_field.get(e["local"], [])
        e["field"] = fs[0] if len(fs) == 1 else None
    return {"entries": entries, "required": {local_to_field.get(k, [None])[0]: v for k, v in required.items()},
            "catchall": catch, "struct": st["res"].get("path"), "fields_built": [f["name"] for f in st["fields"]], "visit_map": vm}


def text_de_table(F, fn):
    """derive(Deserialize) struct impl -> dict(names {str: idx}, unknown: 'ignore'|'error'|..,
    members {idx: {field, ty, with, missing: 'missing_field'|'default', dup}}, entry: deserialize_struct?)"""
    vstr = [c for c in F.nested(fn, name="visit_str") if "__FieldVisitor" in c["impl"]["self_ty"]["s"]]
    vmap = [c for c in F.nested(fn, name="visit_map") if "__Visitor" in c["impl"]["self_ty"]["s"]]
    if len(vstr) != 1 or len(vmap) != 1:
        raise Unreadable("not a derive(Deserialize) struct impl")
    # names
    m, rows = conversion_table(vstr[0], F)
    names = {}
    unknown = None
    for r in rows:
        k, c = result_value(r["res"], F)
        ident = c.split("::")[-1] if k == "ctor" and c else None
        if r["catchall"]:
            if r["kind"] == "ok" and ident == "__ignore":
                unknown = "ignore"
            elif r["kind"] == "err" or any(x.get("callee") == "serde_core::de::Error::unknown_field" for x in H.walk(r["res"])):
                unknown = "error"
            else:
                unknown = "other"
            break
        if r["kind"] != "ok" or ident is None:
            raise Unreadable("field-name arm of unexpected shape")
        for v in r["vals"]:
            names.setdefault(v, ident)
    vm = vmap[0]
    body = vm["body"]
    key_id, km, loop_stmt = _while_let_loop(body)
    withs = [c for c in F.nested(vm, name="deserialize") if "__DeserializeWith" in c["impl"]["self_ty"]["s"]]
    wi = 0
    members = {}
    ignore_consumes = None
    for a in km["arms"]:
        p = a["pat"]
        if H.pat_is_catchall(p):
            nv = [x for x in H.walk(a["body"]) if x.get("callee") == "serde_core::de::MapAccess::next_value"]
            ignore_consumes = len(nv) == 1 and (nv[0].get("targs") or [None, None])[1] == "serde_core::de::ignored_any::IgnoredAny"
            break
        ident = (H.pat_ctor(p) or "").split("::")[-1]
        st = _arm_store(a["body"])
        if st is None:
            raise Unreadable("field arm without a store")
        mem = {"local": st["local"], "dup": st["dup"], "ty": st["ty"], "with": None, "val_ty": st["val_ty"]}
        if st["ty"] and "__DeserializeWith" in st["ty"]:
            if wi >= len(withs):
                raise Unreadable("deserialize_with wrapper not found")
            w = withs[wi]
            wi += 1
            calls = [x for x in H.walk(w["body"]) if x.get("k") == "call" and x.get("callee") and x.get("callee_krate") == "ctap_types"]
            if len(calls) != 1:
                raise Unreadable("deserialize_with wrapper does not call exactly one crate function")
            mem["with"] = {"fn": calls[0]["callee"], "targs": calls[0].get("targs")}
            # decoded type = type of the wrapper's `value` field
            mem["ty"] = None
            for x in H.walk(w["body"]):
                if x.get("k") == "struct":
                    for f in x["fields"]:
                        if f["name"] == "value":
                            mem["ty"] = f["e"].get("ty")
        members[ident] = mem
    # post-loop: missing handling
    after = False
    for s in body.get("stmts", []):
        if s is loop_stmt:
            after = True
            continue
        if not after or s["k"] != "let":
            continue
        init = H.strip_block(s.get("init") or {})
        if init.get("k") != "match":
            raise Unreadable("unexpected statement after the key loop")
        src = H.local_name(init["scrut"])
        how = None
        for a in init["arms"]:
            c = H.pat_ctor(a["pat"])
            if c == "core::option::Option::None":
                b = H.strip_block(a["body"])
                if b.get("k") == "try" and H.strip_block(b["e"]).get("callee") == "serde::private::de::missing_field":
                    how = ("missing_field", H.lit(H.call_args(H.strip_block(b["e"]))[0]), (H.strip_block(b["e"]).get("targs") or [None])[0])
                elif b.get("callee") == "core::default::Default::default":
                    how = ("default", None, (b.get("targs") or [None])[0])
                else:
                    how = ("other", None, None)
        for ident, mem in members.items():
            if mem["local"] == src:
                mem["missing"] = how
    tail = H.strip_block(body.get("expr", {}))
    if not (tail.get("k") == "call" and tail.get("ctor") == "core::result::Result::Ok"):
        raise Unreadable("visit_map does not end in Ok(..)")
    st = H.strip_block(tail["args"][0])
    if st.get("k") != "struct":
        raise Unreadable("visit_map does not build the struct")
    for f in st["fields"]:
        ln = H.local_name(f["e"])
        for ident, mem in members.items():
            if mem["local"] == ln:
                mem.setdefault("fields", []).append(f["name"])
    for mem in members.values():
        fs = mem.pop("fields", [])
        mem["field"] = fs[0] if len(fs) == 1 else None
    entry = [x.get("callee") for x in H.walk(fn["body"]) if (x.get("callee") or "").startswith("serde_core::de::Deserializer::deserialize_")]
    return {"names": names, "unknown": unknown, "ignore_consumes": ignore_consumes, "members": members, "entry": entry,
            "struct": st["res"].get("path"), "fields_built": [f["name"] for f in st["fields"]], "visit_map": vm, "visit_str": vstr[0]}


def member_required(mem):
    """serde semantics: a member is required iff absence raises missing_field *and* the decoded
    type is not Option<_> (serde's missing_field yields None for Option members)"""
    how = mem.get("missing")
    if not how:
        return None
    if how[0] == "default":
        return False
    if how[0] == "missing_field":
        ty = how[2] or mem.get("ty") or ""
        return not ty.startswith("core::option::Option<")
    return None


def seq_ser_check(fn):
    """hand-written sequence Serialize impl: the announced length and the emitted elements agree.
    Returns (ok, reason, info).  Shape: `let mut seq = s.serialize_seq(Some(X.len()))?; for e in <X> {
    .. seq.serialize_element(..)? } seq.end()` with exactly one element emitted on every iteration."""
    from .pathcond import Analysis, effect_paths
    A = Analysis(fn)
    calls = [c for c, _, _ in ordered_calls(fn["body"])]
    hdr = [c for c in calls if c.get("callee") == "serde_core::ser::Serializer::serialize_seq"]
    if len(hdr) != 1:
        return False, "expected exactly one serialize_seq", None
    n = H.strip_block(H.call_args(hdr[0])[1])
    if not (n.get("k") == "call" and n.get("ctor") == "core::option::Option::Some"):
        return False, "sequence of indefinite length", None
    ln = A.subst(n["args"][0])
    if not (ln.get("k") == "mcall" and ln.get("method") == "len"):
        return False, "announced length is not <collection>.len()", None
    coll = A.desc(ln["recv"])
    loops = H.for_loops(fn["body"])
    all_loops = [x for x in H.walk(fn["body"]) if x.get("k") == "loop"]
    if len(loops) != 1 or len(all_loops) != 1:
        return False, "expected exactly one `for` loop over the collection", None
    it = H.strip(loops[0]["iter"])
    # count-preserving adaptors do not change how many elements are visited
    while it.get("k") == "mcall" and it.get("method") in ("iter", "into_iter", "enumerate", "rev", "copied", "cloned", "by_ref", "as_slice") and not it.get("args"):
        it = H.strip(it["recv"])
    if A.desc(it) != coll:
        return False, "the loop iterates %s but the header announces %s.len()" % (A.desc(it), coll), None
    body = loops[0]["body"]
    if body is None:
        return False, "loop body not found", None
    is_elem = lambda x: x.get("k") in ("call", "mcall") and x.get("callee") == "serde_core::ser::SerializeSeq::serialize_element"
    paths = effect_paths(body, is_elem)
    for p in paths:
        if p.done == "try-err":
            continue   # the whole serialisation fails
        if p.done in ("ret", "break", "diverge") or p.loops:
            return False, "the loop can stop before all announced elements are emitted (%s)" % p.done, None
        k = len(p.effects)
        if k != 1:
            return False, "an iteration emits %d elements on some path (e.g. a `continue` / conditional emission) while the header announces one per entry" % k, None
    ends = [c for c in calls if c.get("callee") == "serde_core::ser::SerializeSeq::end"]
    if len(ends) != 1:
        return False, "the sequence is not ended exactly once", None
    return True, "", {"collection": coll}


# --------------------------------------------------------------------------- tables from path literals

RANGE_CONTAINS = ("core::ops::range::Range::<Idx>::contains", "core::ops::range::RangeInclusive::<Idx>::contains",
                  "core::ops::range::RangeFrom::<Idx>::contains", "core::ops::range::RangeTo::<Idx>::contains",
                  "core::ops::range::RangeToInclusive::<Idx>::contains", "core::ops::range::RangeBounds::contains")


def _const_int(A, n, facts):
    n = A.subst(n)
    v = H.lit(n)
    if isinstance(v, int) and not isinstance(v, bool):
        return v
    if n.get("k") == "path":
        r = n["res"]
        if (r.get("rk") or "").split(" ")[0].split("{")[0] in ("AssocConst", "Const"):
            c = facts.const_value(r["path"])
            if isinstance(c, int):
                return c
    if n.get("k") == "cast":
        return _const_int(A, n["e"], facts)
    return None


def _is_var(A, n, var_ids):
    n = H.strip(A.subst(n))
    if n.get("k") == "cast":
        n = H.strip(A.subst(n["e"]))
    return H.local_id(n) in var_ids


def _range_bounds(A, r, facts):
    """(lo, hi_exclusive) of a range expression with constant bounds; None ends are open"""
    r = H.strip(A.subst(r))
    if r.get("k") == "struct":
        p = r["res"].get("path", "")
        f = {x["name"]: _const_int(A, x["e"], facts) for x in r["fields"]}
        if p == "core::ops::range::Range":
            return f.get("start"), f.get("end")
        if p == "core::ops::range::RangeFrom":
            return f.get("start"), None
        if p == "core::ops::range::RangeTo":
            return None, f.get("end")
        if p == "core::ops::range::RangeToInclusive":
            return None, (f.get("end") + 1) if f.get("end") is not None else None
    if r.get("k") == "call" and r.get("callee") == "core::ops::range::RangeInclusive::<Idx>::new":
        a, b = _const_int(A, r["args"][0], facts), _const_int(A, r["args"][1], facts)
        return a, (b + 1) if b is not None else None
    raise Unreadable("range with non-constant bounds")


def bool_set(A, e, var_ids, facts, domain):
    """the subset of `domain` on which a boolean expression over one variable is true — a closed set
    of idioms (comparisons with constants, range.contains, && || !), converted to a value set"""
    e = H.strip_block(e)
    k = e.get("k")
    dom = set(domain)
    if k == "unary" and e["op"] == "not":
        return dom - bool_set(A, e["e"], var_ids, facts, domain)
    if k == "binary" and e["op"] == "&&":
        return bool_set(A, e["l"], var_ids, facts, domain) & bool_set(A, e["r"], var_ids, facts, domain)
    if k == "binary" and e["op"] == "||":
        return bool_set(A, e["l"], var_ids, facts, domain) | bool_set(A, e["r"], var_ids, facts, domain)
    if k == "binary" and e["op"] in ("==", "!=", "<", "<=", ">", ">="):
        l, r, op = e["l"], e["r"], e["op"]
        if not _is_var(A, l, var_ids) and _is_var(A, r, var_ids):
            l, r = r, l
            op = {"==": "==", "!=": "!=", "<": ">", ">": "<", "<=": ">=", ">=": "<="}[op]
        c = _const_int(A, r, facts)
        if _is_var(A, l, var_ids) and c is not None:
            f = {"==": lambda x: x == c, "!=": lambda x: x != c, "<": lambda x: x < c, "<=": lambda x: x <= c, ">": lambda x: x > c, ">=": lambda x: x >= c}[op]
            return {x for x in dom if f(x)}
        raise Unreadable("comparison that is not <variable> <op> <constant>")
    if k in ("mcall", "call") and e.get("callee") in RANGE_CONTAINS:
        args = H.call_args(e)
        if len(args) == 2 and _is_var(A, args[1], var_ids):
            lo, hi = _range_bounds(A, args[0], facts)
            return {x for x in dom if (lo is None or x >= lo) and (hi is None or x < hi)}
        raise Unreadable("range.contains on something other than the variable")
    v = H.lit(e)
    if isinstance(v, bool):
        return dom if v else set()
    raise Unreadable("condition of unsupported shape: " + str(k))


def site_table(fn, facts, domain=range(256)):
    """decision table of a function of one integer argument from its path literals: rows
    [{vals, kind ('ok'|'err'|'val'), res (leaf node), site}] — value sets are disjoint by construction.
    Accepts match tables, if/else chains, early returns, range.contains, comparisons."""
    from .pathcond import Analysis, OK, ERR
    A = Analysis(fn)
    pids = set(A.param_ids)
    if len(pids) != 1:
        raise Unreadable("not a function of one argument")
    rows = []
    for s in A.sites:
        vals = set(domain)
        var_ids = set(pids)
        for c in s.conds:
            if c.kind == "match":
                if not _is_var(A, c.scrut, var_ids):
                    raise Unreadable("match on something other than the argument")
                if c.guard is not None:
                    raise Unreadable("match guard")
                pv, ca = pat_values(c.pat, facts)
                cur = set(domain) if ca else set(pv)
                for q in c.prior:
                    qv, qca = pat_values(q, facts)
                    cur -= set(domain) if qca else set(qv)
                vals &= cur
                for _, bid in H.pat_bindings(c.pat):
                    var_ids.add(bid)   # `code @ A..=B` binds the argument itself
            elif c.kind == "expr":
                t = bool_set(A, c.e, var_ids, facts, domain)
                vals &= t if c.pol else (set(domain) - t)
            else:
                raise Unreadable("unsupported path literal kind " + c.kind)
        kind = "ok" if s.wrappers[:1] == [OK] else "err" if s.wrappers[:1] == [ERR] else "val"
        rows.append({"vals": vals, "catchall": False, "kind": kind, "res": s.node, "site": s, "var_ids": var_ids, "wrappers": s.wrappers})
    # `?` exits: error rows for the values that reach them are the callee's business; record them
    cover = set()
    for r in rows:
        if cover & r["vals"]:
            raise Unreadable("overlapping rows")
        cover |= r["vals"]
    return A, rows


def byte_table(fn, facts):
    """rows of a u8 -> Result conversion: the single-match form, or any form site_table can read"""
    try:
        return conversion_table(fn, facts)
    except Unreadable:
        A, rows = site_table(fn, facts)
        return None, rows
