"""Table extraction from resolved code: match tables of conversion functions, serde
impl tables (indexed / text-keyed, both directions), enum discriminant tables."""
from . import hirq as H
from .facts import SER, DE, VISITOR


class Unreadable(Exception):
    """an impl / function does not have a shape the extractor understands"""


# --------------------------------------------------------------------------- patterns

def pat_values(p, facts):
    """(set of python values matched, is_catchall).  Literal / const-path / range / or patterns."""
    k = p.get("k")
    if k == "wild":
        return set(), True
    if k == "bind":
        if "sub" in p:
            return pat_values(p["sub"], facts)
        return set(), True
    if k in ("ref", "deref"):
        return pat_values(p["pat"], facts)
    if k == "expr":
        v = patexpr_value(p["e"], facts)
        if v is None:
            raise Unreadable("pattern constant cannot be evaluated: %r" % (p["e"],))
        return {v}, False
    if k == "range":
        lo = patexpr_value(p["lo"], facts) if "lo" in p else None
        hi = patexpr_value(p["hi"], facts) if "hi" in p else None
        if not isinstance(lo, int) or not isinstance(hi, int):
            raise Unreadable("open or non-integer range pattern")
        return set(range(lo, hi + (1 if p["inclusive"] else 0))), False
    if k == "or":
        s, c = set(), False
        for q in p["pats"]:
            s2, c2 = pat_values(q, facts)
            s |= s2
            c = c or c2
        return s, c
    raise Unreadable("unsupported pattern kind " + str(k))


def patexpr_value(e, facts):
    if e.get("k") == "lit":
        return e.get("v")
    if e.get("k") == "path":
        r = e["res"]
        if (r.get("rk") or "").split(" ")[0].split("{")[0] in ("AssocConst", "Const"):
            return facts.const_value(r["path"])
    return None


def top_match(body):
    """the single top-level `match` of a conversion function, possibly inside Ok(..) /
    a block.  Returns (match node, wrapper ctor path or None)."""
    n = H.strip_block(body)
    if n.get("k") == "block":
        # allow leading `use` only (no statements survive in HIR for `use`)
        if n.get("stmts"):
            raise Unreadable("statements before the match")
        n = H.strip_block(n["expr"])
    wrap = None
    if n.get("k") == "call" and "ctor" in n and len(n["args"]) == 1:
        wrap = n["ctor"]
        n = H.strip_block(n["args"][0])
    if n.get("k") != "match" or n.get("src") != "normal":
        raise Unreadable("no top-level match")
    return n, wrap


def arm_result(body, wrap):
    """classify a match-arm body of a conversion: ('ok', node) / ('err', node) / ('val', node)"""
    b = H.strip_block(body)
    if b.get("k") == "ret":
        e = H.strip_block(b.get("e", {}))
        if e.get("k") == "call" and e.get("ctor") == "core::result::Result::Err":
            return "err", e["args"][0]
        if e.get("k") == "call" and e.get("ctor") == "core::result::Result::Ok":
            return "ok", e["args"][0]
        raise Unreadable("return of a non Ok/Err value")
    if b.get("k") == "call" and b.get("ctor") == "core::result::Result::Err" and wrap is None:
        return "err", b["args"][0]
    if b.get("k") == "call" and b.get("ctor") == "core::result::Result::Ok" and wrap is None:
        return "ok", b["args"][0]
    if wrap == "core::result::Result::Ok":
        return "ok", b
    if wrap is None:
        return "val", b
    raise Unreadable("unexpected wrapper " + str(wrap))


def conversion_table(fn, facts):
    """rows [(values:set, catchall:bool, kind, result node, arm)] in arm order, plus scrutinee"""
    m, wrap = top_match(fn["body"])
    rows = []
    for a in m["arms"]:
        if "guard" in a:
            raise Unreadable("match guard in a conversion table")
        vals, ca = pat_values(a["pat"], facts)
        kind, res = arm_result(a["body"], wrap)
        rows.append({"vals": vals, "catchall": ca, "kind": kind, "res": res, "arm": a})
    return m, rows


def variant_table(fn, facts):
    """for `match <enum value> { Variant => result }`: [(variant path, bindings, kind, result)]"""
    m, wrap = top_match(fn["body"])
    rows = []
    for a in m["arms"]:
        if "guard" in a:
            raise Unreadable("match guard")
        pats = a["pat"]["pats"] if a["pat"].get("k") == "or" else [a["pat"]]
        kind, res = arm_result(a["body"], wrap)
        for p in pats:
            if H.pat_is_catchall(p):
                rows.append({"variant": None, "binds": H.pat_bindings(p), "kind": kind, "res": res, "arm": a})
            else:
                v = H.pat_ctor(p)
                if v is None:
                    raise Unreadable("pattern is not a variant")
                rows.append({"variant": v, "binds": H.pat_bindings(p), "kind": kind, "res": res, "arm": a})
    return m, rows


def first_match(rows, value):
    for r in rows:
        if r["catchall"] or value in r["vals"]:
            return r
    return None


def result_value(node, facts):
    """python value of a conversion result: literal, const path -> value, unit/variant ctor -> path"""
    n = H.strip(node)
    v = H.lit(n)
    if v is not None:
        return ("lit", v)
    if n.get("k") == "path":
        r = n["res"]
        if (r.get("rk") or "").split(" ")[0].split("{")[0] in ("AssocConst", "Const"):
            return ("lit", facts.const_value(r["path"]))
        c = H.ctor(n)
        if c:
            return ("ctor", c)
    if n.get("k") == "call" and "ctor" in n:
        return ("ctor", n["ctor"])
    if n.get("k") == "struct":
        return ("ctor", n["res"].get("path"))
    return ("other", None)


# --------------------------------------------------------------------------- enums

def enum_discriminants(facts, path):
    a = facts.adt(path)
    if not a or a["kind"] != "enum":
        return None
    return {v["name"]: v.get("discr") for v in a["variants"]}
