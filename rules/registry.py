"""Per-property claims (source of MANIFEST.json; regenerate with bin/gen-manifest)."""

DEPS = ("Trusted base: rustc 1.97 nightly (type checker, const evaluator, match semantics); the pinned dependencies "
        "cbor-smol 0.5.1, serde_derive 1.0.229, serde-indexed 0.1.1, serde_repr 0.1.21, heapless 0.7.17, heapless-bytes 0.3.0, "
        "serde_bytes 0.11.19, cosey 0.3.2, iso7816 0.1.4 for value-level encoding/decoding. ")

CLAIMS = {
    "C04": {
        "level": "other",
        "technique": "static obligation analysis over the monomorphic call graph (walked through dependency MIR): every Assert / contract-panicking call / unsafe operation in reachable /repo instances must be discharged by a typed rule (C13's templates by covered span, constant arithmetic, value-range intervals derived from parameter types, concretely unrolled counting loops, constant ranges of fixed arrays); SCC no-recursion; input-consuming-loop rule; no mutable globals; in a configuration with logging compiled in, no panic-capable construct inside the arguments of a log statement on the decode path",
        "text": "Sound-by-construction for /repo code relative to the deny table: the exact set of /repo function instances reachable from Request::deserialize is computed (88 per configuration), all their panic-capable MIR constructs are listed (5 today, all in truncate/floor_char_boundary) "
                "and discharged by the C13 template; any new one is reported with a call path. Recursion, non-consuming loops and mutable globals are excluded structurally. Panic-freedom/termination inside the dependencies is not decided; the property's byte enumeration is a dynamic technique and is not imitated.",
        "note": DEPS + "Conservative corner (DESIGN section 4.1): a new panic-capable construct that a human could prove safe is still reported as undischarged.",
    },
    "C19": {
        "level": "other",
        "technique": "static obligation analysis over the monomorphic call graph from the three derived Arbitrary impls (all features + arbitrary), each unwrap / unsafe call / pointer cast / assert discharged by a typed template over HIR slots or a path-summary rule (lengths vs capacities on every path, value-range intervals, dataflow on the Unstructured, repr(transparent) pointer chain, who-may-call; total arguments of the dispatchers' log statements with logging compiled in)",
        "text": "All 54 obligations in the reachable /repo instances (per monomorphic instance) are discharged by closed-form templates: array conversions of exactly the requested length, lengths clamped to the target capacity, loop maximum / drawn iteration count = vector capacity, unchecked UTF-8 on the validated prefix of the same buffer, "
                "transparent pointer cast with an audited single caller, derive(Arbitrary)'s selector arithmetic. Validity of produced values then follows from the container type invariants. Relative to arbitrary 1.4.2's documented contracts.",
        "note": DEPS + "Trusted: arbitrary 1.4.2 (bytes(n) returns exactly n bytes, peek_bytes does not consume, arbitrary_loop honours max, int_in_range returns a value of its range, derive expansion). Not decided: formatting/cloning/dispatching the value.",
    },
    "C13": {
        "level": "other",
        "technique": "static wiring table + path summaries of the wrapper decoders (helpers found by role, closures evaluated in place) + semantic templates for floor_char_boundary (three accepted idioms: window + rposition, reverse find over positions, step back while !is_char_boundary) and truncate, with slots read from the path terms and side conditions evaluated on the slot values (boundary byte set: the predicate constant-folded for each of the 256 byte values); the panicking String::from(&str) is accepted only behind `len <= L` on the path",
        "text": "Decides the wiring (which member uses which lossy decoder with which capacity), the exact keep/drop condition of the icon decoder, and every structural parameter the longest-prefix argument depends on "
                "(inclusive window of >= 4 positions ending at the cut, last match, result arithmetic, boundary byte set, truncate's own L, prefix pushed into a fresh String<L>), and that no other panic-capable construct exists in these functions. "
                "The for-all-strings conclusion is the paper argument over these slots (DESIGN.md), not an exploration.",
        "note": DEPS + "Input text is valid UTF-8 when it reaches these functions (serde &str decoding); the paper argument uses: <= 3 consecutive continuation bytes, text starts on a boundary.",
    },
    "C14": {
        "level": "other",
        "technique": "static error-discipline / who-may-call rules on the path summaries (one symbolic loop iteration, loop-carried locals followed through the trace, generic helpers and their closure arguments expanded; a shared generic visitor audited from the decoder through serde's deserialize_seq -> visit_seq contract) of the two hand-written filtering visit_seq decoders; decision table of the known-parameter conversion over a probe domain; constants and capacities from rustc's evaluated tables",
        "text": "Decides that the only failure of either list decoder is a CBOR fault in next_element, that unknown entries continue / set the flag, that known entries are appended in input order by push with its Result discarded (first N by capacity), "
                "that the accepted set is exactly {type == \"public-key\", alg in {-7,-8}} / {\"none\",\"packed\"}, and that the capacities equal the number of known values. This fixes the filters' input/output relation for every list.",
        "note": DEPS + "Relative to heapless Vec::push, cbor-smol's SeqAccess and serde's Deserializer::deserialize_seq contract (the visitor's visit_seq is called with the sequence, or the call fails without it).",
    },
    "C07": {
        "level": "other",
        "technique": "static ordered-append analysis on path summaries (path-sensitive value propagation over typed HIR with /repo helpers expanded at their call sites): per-path byte/big-endian/chunk segments vs the WebAuthn layout, who-may-call on the buffer, fate of every append's Result (error discipline), monomorphic-graph panic obligations",
        "text": "Layout order, field widths, endianness, presence-iff-supplied of the optional parts, append-only use of a fresh Bytes<676>, and propagation of every append's and the length conversion's failure are all structural and are decided completely on every path; "
                "flag and capacity constants are compared with the specification. Together this gives the exact layout and error-not-panic/never-shortened for all inputs, relative to heapless's all-or-nothing appends.",
        "note": DEPS + "Not decided: CBOR bytes of the extension map (C02/C03 + cbor-smol).",
    },
    "C08": {
        "level": "other",
        "technique": "static path summaries of the APDU parser (helpers expanded, constants evaluated); the comparisons of each path interpreted as sets: class/instruction over 0..=255, data-length conditions over the complete (length 0..=1100) x (byte 64) grid with a slice algebra; bounds obligation of every slice operation checked on the region admitted before it (also of the arguments of log statements, in a configuration with logging compiled in); control-byte table",
        "text": "Every result of the parser is decided from the set of branch literals that dominate it, compared with the literals the U2F raw message format requires (class precedence, instruction, exact lengths, offsets), on every (class, instruction, P1 validity, length, byte 64) combination the admitting path returns what the raw message format prescribes (totality and exactness), "
                "and every panic-capable slice operation is discharged on the set of (length, byte 64) combinations admitted by the comparisons that precede it. Holds for all APDUs relative to iso7816's accessors.",
        "note": DEPS + "Not decided: Lc/Le framing and Instruction::from (iso7816).",
    },
    "C09": {
        "level": "other",
        "technique": "static ordered-append analysis of ctap1::Response::serialize per variant on path summaries (helpers expanded, literal-array loops unrolled), who-may-call / fate-of-Result rules, static-capacity discharge of the u8 length cast and of register::Response::new's unwraps",
        "text": "Append order, big-endian counter, length-of-the-same-key-handle, append-only use of the caller's buffer, propagation of every append's failure and unconditional appends (length = sum of parts) are decided on every path; "
                "the narrowing cast and the three unwraps are discharged from type-level capacities (255 <= u8::MAX, 1+32+32 <= 65).",
        "note": DEPS + "Relative to heapless's all-or-nothing push/extend_from_slice.",
    },
    "C05": {
        "level": "other",
        "technique": "static decision-table extraction of the error conversion (path summaries selected per (outer, cbor_smol::Error) variant pair); funnel (error-discipline) rule over every error path of Request::deserialize described over the command byte; required-set agreement of the generated decoders",
        "text": "Decides that the only statuses a rejected request can carry are 0x01/0x14/0x12, which fault class selects which (conversion table total over the foreign error enum), that every error exit of the request decoder goes through that conversion with a fixed constructor, "
                "and that exactly the specification's required members have a missing_field exit (all request and nested types, 9 configurations). Which cbor_smol::Error a given malformed input raises is the dependency's and is not decided.",
        "note": DEPS + "Relies on cbor-smol mapping serde's missing_field to Error::SerdeMissingField.",
    },
    "C06": {
        "level": "other",
        "technique": "static shape / who-may-call rule on the derive-generated decoders of the host-extensible map types (typed HIR): unknown name -> __ignore, value consumed as IgnoredAny, no unknown_field error, map entry point",
        "text": "Decides the whole /repo-side lever of the property for the seven host map types in all configurations: nothing in the generated decoders rejects or mis-consumes an unknown member. "
                "That the generic skipper consumes exactly one item for every CBOR value is cbor-smol's and is not decided.",
        "note": DEPS + "Not decided: cbor-smol's ignore* routines.",
    },
    "C12": {
        "level": "other",
        "technique": "static table agreement on rustc-evaluated field types (const generics, aliases, constants resolved) and decoded types vs an independent limits table; who-may-alter rule on custom decoders",
        "text": "Decides every capacity and integer width the property lists, as the compiler evaluates them (so const/type indirection is invisible), in the struct definition and in the generated decoder, "
                "and that only the documented members/types have custom (lossy) decoders. Accept-at-capacity / reject-above behaviour of the containers is the dependencies' and is not decided.",
        "note": DEPS + "Not decided: heapless / heapless-bytes / serde_bytes capacity enforcement, cbor-smol integer range checks.",
    },
    "C15": {
        "level": "other",
        "technique": "static sibling-symmetry analysis between the Serialize and Deserialize tables of every bidirectional type (typed HIR), per-variant emission / acceptance tables of string- and integer-valued enums read from the path summaries of derived and hand-written impls alike, canonical emission order",
        "text": "Decides that both directions of all 27+ bidirectional types implement the same key<->field relation with skippable-iff-optional members, same field types and canonical emission order, and that enum tables are mutually inverse, in all 9 configurations. "
                "Equality for every leaf value rests on the symmetry of the dependency codecs and is not decided.",
        "note": DEPS + "Not decided: value-level symmetry of leaf codecs.",
    },
    "C16": {
        "level": "proof",
        "technique": "static cross-configuration diff of the extracted generators (encode/decode tables, evaluated types, discriminants, string tables, constants) over all pairs of feature configurations",
        "text": "Finite and complete: all 28 pairs of the 8 wire configurations plus the std/arbitrary corner, every type present in both, every common member: identical key, optionality, evaluated type, lossy wiring and relative order. "
                "Comparing the generators of all transcripts is strictly stronger than comparing sampled transcripts; one documented capacity-only difference is whitelisted.",
        "note": DEPS + "Relative to the tables being what the derives generate in each configuration (they are read from the compiled program, not assumed).",
    },
    "C01": {
        "level": "other",
        "technique": "static table agreement: decoder tables (key -> field, required, decoded type, lossy wiring) read from the derive-generated visit_map/visit_str bodies in typed HIR vs an independent parameter table; path-literal analysis of the command switch",
        "text": "Decides the structural half of the property completely: which key lands in which field, required-ness, the CBOR shape of the decoded type, duplicate detection, unknown-index rejection, "
                "the exact set of lossy decoders, and that every field is built from exactly one key, for all 7 indexed request structs and 7 nested text-keyed types in all 9 feature configurations; "
                "the generated decoder treats members independently, so this covers every subset of present parameters. The value-level half (each leaf value delivered unaltered) lives in the dependencies and is not decided.",
        "note": DEPS + "Not decided: leaf value decoding (cbor-smol, heapless, serde_bytes, cosey).",
    },
    "C02": {
        "level": "other",
        "technique": "static table agreement over emission tables read from generated Serialize impls (typed HIR); crate-wide no-null / no-dropped-member / member-counter rules; exhaustive path analysis of Response::serialize",
        "text": "Decides key, presence predicate and shape of every response member against an independent table, that no Option member of any map-emitting impl can be emitted as null or dropped, that the map header counts exactly the emitted members, "
                "and the framing (status 0, body from the variant's own payload, [0xA0] collapse, empty body for parameter-less responses) on all enumerated paths, in all 9 configurations. Members are emitted by independent guarded statements, so every subset is covered. "
                "Leaf value encodings are the dependencies' and are not decided.",
        "note": DEPS + "Not decided: byte encodings of leaf values.",
    },
    "C17": {
        "level": "other",
        "technique": "exhaustive path summaries of Response::serialize from typed HIR (path-sensitive value propagation, helpers expanded): per path the variant, the encoder outcome, ordered buffer operations, the status value and the final length term; per-variant body wiring; monomorphic-graph panic obligations",
        "text": "Every path (variant arm x {Ok&[0xA0], Ok, Err}) is decided clause by clause: grow to capacity first, split status/body, only the encoder writes the body tail, status assigned exactly once with the right constant, "
                "final resize is the last buffer operation with n = 1 or written-length + 1, resize results discarded. That gives complete-or-one-byte-0x7F and independence from prior contents relative to cbor_serialize's contract.",
        "note": DEPS + "Assumes cbor_serialize returns Err rather than a truncated prefix when the body does not fit, and N >= 1 (the property's precondition).",
    },
    "C10": {
        "level": "proof",
        "technique": "static decision-table extraction from the path summaries of the dispatchers (resolved trait-method callees as opaque effects, results made explicit as Ok/Err), parametric in the authenticator",
        "text": "Each dispatcher arm is decided clause by clause (exactly one opaque trait-method call on self with the arm's bindings, the oracle's response constructor, error leaving through one `?` "
                "with at most a logging-only inspect_err, no other effect, no loop); handlers are opaque trait calls, so the argument is parametric: it holds for every authenticator and every request value. "
                "All arms x clauses are discharged in all 9 configurations.",
        "note": DEPS + "Relative to core's `?`/inspect_err semantics and delog's macros expanding to a no-op under the analysed log features.",
    },
    "C03": {
        "level": "other",
        "technique": "static emission-order analysis: pairwise canonical key order over serialize_field/serialize_entry call sequences read from typed HIR; definite-length call-site rule; serialisable type closure",
        "text": "For every map-emitting Serialize impl in /repo and every one of the 9 feature configurations, every pair of members is shown to be emitted in CTAP2 canonical key order "
                "(which is equivalent to every subset being sorted, because emission is a loop-free call sequence), keys are unique, all container headers are definite-length, and the "
                "type closure of everything a response can contain has no float/char/128-bit/unordered-map member and only impls of understood shape. Complete for the part of canonicity that /repo controls; "
                "integer/length head minimality and COSE key order are the dependencies' and are not decided.",
        "note": DEPS + "Not decided: shortest-form heads, single item/no trailing bytes (cbor-smol), COSE key member order (cosey).",
    },
    "C18": {
        "level": "proof",
        "technique": "static table extraction (value / variant tables and per-variant serde emission / acceptance tables from path summaries, evaluated constants, discriminants) + row-by-row comparison with an oracle table, both directions",
        "text": "All identifier tables are finite; each is read from the type-checked program (evaluated associated constants, enum discriminants, first-match pattern tables of the hand-written "
                "and serde_repr-generated conversions, all 256 bytes for the TryFrom<u8> tables) and compared row by row with spec/identifiers.json in both directions, including the rejecting catch-all "
                "that makes every other string/number invalid, in all 9 configurations.",
        "note": DEPS + "That an out-of-range CBOR integer is rejected before reaching the u8 table is cbor-smol's range check.",
    },
    "C11": {
        "level": "proof",
        "technique": "static table extraction from path summaries (value sets over 0..=255 of the comparisons on each path) + exhaustive finite-domain comparison with an oracle table; byte-level decision table of the command switch",
        "text": "The byte<->Operation match tables are read from the type-checked program and expanded by pattern semantics over all 256 bytes / all variants, "
                "compared row by row with an independent oracle and with each other (inverse, injective); the command switch of Request::deserialize is decided per arm. "
                "The domain is finite and enumerated completely from the extracted patterns in all 9 feature configurations, so this is a proof relative to the compiler's match semantics.",
        "note": DEPS + "Payload decoding itself (cbor_deserialize) is not part of this property.",
    },
}

PENDING = "static check not built yet in this round (design in DESIGN.md section 5); not claimed until its rule engine exists"
NOT_APPLICABLE = {p: PENDING for p in ["C04", "C05", "C06", "C07", "C08", "C09", "C12", "C13", "C14", "C15", "C16", "C17", "C18", "C19"]}
for p in CLAIMS:
    NOT_APPLICABLE.pop(p, None)

NOTES = ("Static analysis only: every verdict is computed from the type-checked program (typed HIR, MIR events, type tables, evaluated constants) of /repo's "
         "current working tree; no ctap-types code is executed. See DESIGN.md.")
