"""Per-property claims (source of MANIFEST.json; regenerate with bin/gen-manifest)."""

DEPS = ("Trusted base: rustc 1.97 nightly (type checker, const evaluator, match semantics); the pinned dependencies "
        "cbor-smol 0.5.1, serde_derive 1.0.229, serde-indexed 0.1.1, serde_repr 0.1.21, heapless 0.7.17, heapless-bytes 0.3.0, "
        "serde_bytes 0.11.19, cosey 0.3.2, iso7816 0.1.4 for value-level encoding/decoding. ")

CLAIMS = {
    "C11": {
        "level": "proof",
        "technique": "static table extraction from typed HIR + exhaustive finite-domain comparison with an oracle table; path-literal analysis of the command switch",
        "text": "The byte<->Operation match tables are read from the type-checked program and expanded by pattern semantics over all 256 bytes / all variants, "
                "compared row by row with an independent oracle and with each other (inverse, injective); the command switch of Request::deserialize is decided per arm. "
                "The domain is finite and enumerated completely from the extracted patterns in all 9 feature configurations, so this is a proof relative to the compiler's match semantics.",
        "note": DEPS + "Payload decoding itself (cbor_deserialize) is not part of this property.",
    },
}

PENDING = "static check not built yet in this round (design in DESIGN.md section 5); not claimed until its rule engine exists"
NOT_APPLICABLE = {p: PENDING for p in ["C01", "C02", "C03", "C04", "C05", "C06", "C07", "C08", "C09", "C10", "C12", "C13", "C14", "C15", "C16", "C17", "C18", "C19"]}
for p in CLAIMS:
    NOT_APPLICABLE.pop(p, None)

NOTES = ("Static analysis only: every verdict is computed from the type-checked program (typed HIR, MIR events, type tables, evaluated constants) of /repo's "
         "current working tree; no ctap-types code is executed. See DESIGN.md.")
