"""Per-property claims (source of MANIFEST.json; regenerate with bin/gen-manifest)."""

DEPS = ("Trusted base: rustc 1.97 nightly (type checker, const evaluator, match semantics); the pinned dependencies "
        "cbor-smol 0.5.1, serde_derive 1.0.229, serde-indexed 0.1.1, serde_repr 0.1.21, heapless 0.7.17, heapless-bytes 0.3.0, "
        "serde_bytes 0.11.19, cosey 0.3.2, iso7816 0.1.4 for value-level encoding/decoding. ")

CLAIMS = {
    "C01": {
        "level": "other",
        "technique": "static table agreement: decoder tables (key -> field, required, decoded type, lossy wiring) read from the derive-generated visit_map/visit_str bodies in typed HIR vs an independent parameter table; path-literal analysis of the command switch",
        "text": "Decides the structural half of the property completely: which key lands in which field, required-ness, the CBOR shape of the decoded type, duplicate detection, unknown-index rejection, "
                "the exact set of lossy decoders, and that every field is built from exactly one key, for all 7 indexed request structs and 7 nested text-keyed types in all 9 feature configurations; "
                "the generated decoder treats members independently, so this covers every subset of present parameters. The value-level half (each leaf value delivered unaltered) lives in the dependencies and is not decided.",
        "note": DEPS + "Not decided: leaf value decoding (cbor-smol, heapless, serde_bytes, cosey).",
    },
    "C02": {
        "level": "other",
        "technique": "static table agreement over emission tables read from generated Serialize impls (typed HIR); crate-wide no-null / no-dropped-member / member-counter rules; exhaustive path analysis of Response::serialize",
        "text": "Decides key, presence predicate and shape of every response member against an independent table, that no Option member of any map-emitting impl can be emitted as null or dropped, that the map header counts exactly the emitted members, "
                "and the framing (status 0, body from the variant's own payload, [0xA0] collapse, empty body for parameter-less responses) on all enumerated paths, in all 9 configurations. Members are emitted by independent guarded statements, so every subset is covered. "
                "Leaf value encodings are the dependencies' and are not decided.",
        "note": DEPS + "Not decided: byte encodings of leaf values.",
    },
    "C17": {
        "level": "other",
        "technique": "exhaustive control-flow path enumeration of the loop-free Response::serialize from typed HIR with ordered effect extraction (who-may-call on the buffer, definite assignment of the status byte, final-length literal per path)",
        "text": "Every path (variant arm x {Ok&[0xA0], Ok, Err}) is decided clause by clause: grow to capacity first, split status/body, only the encoder writes the body tail, status assigned exactly once with the right constant, "
                "final resize is the last buffer operation with n = 1 or written-length + 1, resize results discarded. That gives complete-or-one-byte-0x7F and independence from prior contents relative to cbor_serialize's contract.",
        "note": DEPS + "Assumes cbor_serialize returns Err rather than a truncated prefix when the body does not fit, and N >= 1 (the property's precondition).",
    },
    "C10": {
        "level": "proof",
        "technique": "static decision-table extraction from typed HIR of the dispatchers (resolved trait-method callees, per-arm effect and `?` plumbing analysis), parametric in the authenticator",
        "text": "Each dispatcher arm is decided clause by clause (exactly one opaque trait-method call on self with the arm's bindings, the oracle's response constructor, error leaving through one `?` "
                "with at most a logging-only inspect_err, no other effect, no loop); handlers are opaque trait calls, so the argument is parametric: it holds for every authenticator and every request value. "
                "All arms x clauses are discharged in all 9 configurations.",
        "note": DEPS + "Relative to core's `?`/inspect_err semantics and delog's macros expanding to a no-op under the analysed log features.",
    },
    "C03": {
        "level": "other",
        "technique": "static emission-order analysis: pairwise canonical key order over serialize_field/serialize_entry call sequences read from typed HIR; definite-length call-site rule; serialisable type closure",
        "text": "For every map-emitting Serialize impl in /repo and every one of the 9 feature configurations, every pair of members is shown to be emitted in CTAP2 canonical key order "
                "(which is equivalent to every subset being sorted, because emission is a loop-free call sequence), keys are unique, all container headers are definite-length, and the "
                "type closure of everything a response can contain has no float/char/128-bit/unordered-map member and only impls of understood shape. Complete for the part of canonicity that /repo controls; "
                "integer/length head minimality and COSE key order are the dependencies' and are not decided.",
        "note": DEPS + "Not decided: shortest-form heads, single item/no trailing bytes (cbor-smol), COSE key member order (cosey).",
    },
    "C18": {
        "level": "proof",
        "technique": "static table extraction (match patterns, evaluated constants, discriminants) + row-by-row comparison with an oracle table, both directions",
        "text": "All identifier tables are finite; each is read from the type-checked program (evaluated associated constants, enum discriminants, first-match pattern tables of the hand-written "
                "and serde_repr-generated conversions, all 256 bytes for the TryFrom<u8> tables) and compared row by row with spec/identifiers.json in both directions, including the rejecting catch-all "
                "that makes every other string/number invalid, in all 9 configurations.",
        "note": DEPS + "That an out-of-range CBOR integer is rejected before reaching the u8 table is cbor-smol's range check.",
    },
    "C11": {
        "level": "proof",
        "technique": "static table extraction from typed HIR + exhaustive finite-domain comparison with an oracle table; path-literal analysis of the command switch",
        "text": "The byte<->Operation match tables are read from the type-checked program and expanded by pattern semantics over all 256 bytes / all variants, "
                "compared row by row with an independent oracle and with each other (inverse, injective); the command switch of Request::deserialize is decided per arm. "
                "The domain is finite and enumerated completely from the extracted patterns in all 9 feature configurations, so this is a proof relative to the compiler's match semantics.",
        "note": DEPS + "Payload decoding itself (cbor_deserialize) is not part of this property.",
    },
}

PENDING = "static check not built yet in this round (design in DESIGN.md section 5); not claimed until its rule engine exists"
NOT_APPLICABLE = {p: PENDING for p in ["C04", "C05", "C06", "C07", "C08", "C09", "C12", "C13", "C14", "C15", "C16", "C17", "C18", "C19"]}
for p in CLAIMS:
    NOT_APPLICABLE.pop(p, None)

NOTES = ("Static analysis only: every verdict is computed from the type-checked program (typed HIR, MIR events, type tables, evaluated constants) of /repo's "
         "current working tree; no ctap-types code is executed. See DESIGN.md.")
