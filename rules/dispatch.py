"""Decision table of ctap2::Request::deserialize from its path summaries (rule kinds P, T, E).

sym.Sym expands Operation::try_from (and any helper such as an extracted `parse_parameters`) at
the call sites, so every path is described directly over the command *byte*: the set of byte
values its comparisons admit (valueset), whether the payload decoder succeeded, and the returned
term.  The rules (C01, C05, C06, C11) read: which request each byte produces, that nothing but the
byte decides the route, that the payload handed to cbor_deserialize is the tail after the command
byte, and what every error exit carries."""
from . import hirq as H
from . import sym as S
from . import valueset as VS

DESER = "ctap2::Request::<'a>::deserialize"
DATA = ("param", "data")
SPLIT = "core::slice::<impl [T]>::split_first"
CBOR_DE = ("cbor_smol::cbor_deserialize", "cbor_smol::de::cbor_deserialize")
CME = "ctap2::CtapMappingError"
INVALID = CME + "::InvalidCommand"
PARSING = CME + "::ParsingError"
UNEXPECTED_END = "cbor_smol::error::Error::DeserializeUnexpectedEnd"
BYTES = range(256)


def is_split(t):
    return t[0] == "call" and t[1] == SPLIT and t[2] == (DATA,)


def is_opbyte(t):
    """the first byte of `data` in any of the forms the code can obtain it"""
    if t[0] == "tproj" and t[2] == 0 and t[1][0] == "proj" and t[1][2] == S.SOME and is_split(t[1][1]):
        return True
    if t[0] == "sproj" and t[1] == DATA and t[2] == 0:
        return True
    if t[0] == "index" and t[1] == DATA and t[2] == ("lit", 0):
        return True
    if t[0] == "proj" and t[2] == S.SOME and t[1][0] == "call" and t[1][1] == "core::slice::<impl [T]>::first" and t[1][2] == (DATA,):
        return True
    return False


def is_tail(t):
    """the bytes of `data` after the first"""
    if t[0] == "tproj" and t[2] == 1 and t[1][0] == "proj" and t[1][2] == S.SOME and is_split(t[1][1]):
        return True
    if t[0] == "smid" and t[1] == DATA and t[2] == 1 and t[3] == 0:
        return True
    if t[0] == "index" and t[1] == DATA and t[2][0] == "struct" and t[2][1].endswith("::RangeFrom") and dict(t[2][2]).get("start") == ("lit", 1):
        return True
    return False


def strip_conv(t):
    """peel error conversions: `?`'s From::from, .into(), From::from(..)"""
    while True:
        if t[0] == "conv":
            t = t[1]
        elif t[0] == "call" and t[1].split("::")[-1] in ("into", "from") and "convert" in t[1] and len(t[2]) == 1:
            t = t[2][0]
        elif t[0] == "call" and t[1].endswith("as core::convert::From<ctap2::CtapMappingError>>::from") and len(t[2]) == 1:
            t = t[2][0]
        else:
            return t


class Route:
    """one path of Request::deserialize, decoded"""
    pass


class Model:
    pass


def emptiness_atom(a):
    """atom is a test of whether `data` has a first byte"""
    t = a[1]
    if a[0] in ("is", "isnot") and (is_split(t) or (t[0] == "call" and t[1] == "core::slice::<impl [T]>::first" and t[2] == (DATA,))):
        return True
    if a[0] == "true" and t[0] == "call" and t[1] == "core::slice::<impl [T]>::is_empty" and t[2] == (DATA,):
        return True
    if a[0] == "slice" and t == DATA and a[2] in ("[1..0]", "[0,0]"):
        return True
    if a[0] == "eq" and t == DATA and a[2] == ("array", ()):
        return True
    if a[0] == "true" and t[0] == "bin" and t[1] in ("<", "<=", "==", "!="):
        ln = ("core::slice::<impl [T]>::len",)
        for x, y in ((t[2], t[3]), (t[3], t[2])):
            if x[0] == "call" and x[1] in ln and x[2] == (DATA,) and y[0] == "lit" and y[1] in (0, 1):
                return True
    return False


def build(F):
    cached = getattr(F, "_dispatch_model", None)
    if cached is not None:
        return cached
    fn = F.fn(DESER)
    m = Model()
    m.fn = fn
    m.error = None
    m.routes = []
    if fn is None:
        m.error = "anchor missing: ctap2::Request::deserialize"
        F._dispatch_model = m
        return m
    conv = F.trait_impl_fn("<ctap2::Error as core::convert::From<ctap2::CtapMappingError>>", "from")

    def inline(path, node):
        # the status conversion stays symbolic here: C05 reads its table separately and the funnel rule wants the CtapMappingError
        f = m.sym.body_for(path)
        return f is not None and f is not conv and (f.get("pv") or "user") == "user"

    m.sym = S.Sym(F, fn, is_effect=lambda callee, args, node, st: callee in CBOR_DE, inline=inline)
    try:
        paths = m.sym.run(split_result=True)
    except S.TooManyPaths:
        m.error = "Request::deserialize has too many control-flow paths to enumerate"
        F._dispatch_model = m
        return m
    for p in paths:
        r = Route()
        r.p = p
        ops = {x for a in p.atoms for x in S.subterms(a[1]) if isinstance(x, tuple) and is_opbyte(x)}
        if p.result is not None:
            ops |= {x for x in S.subterms(p.result) if is_opbyte(x)}
        r.opbytes = ops
        r.op = next(iter(ops)) if len(ops) == 1 else None
        r.decodes = list(p.effects)
        r.decode = r.decodes[0] if len(r.decodes) == 1 else None
        r.decode_known = m.sym.lookup(p, r.decode.term) if r.decode is not None else None
        r.empty = None      # True: data known empty on this path; False: known non-empty; None: untested
        r.foreign = []      # atoms that are neither emptiness, byte nor payload-decoder tests
        r.byte_atoms = []
        for a in p.atoms:
            if emptiness_atom(a):
                continue
            if r.op is not None and VS.mentions(a[1], r.op) or (len(a) > 2 and isinstance(a[2], tuple) and r.op is not None and VS.mentions(a[2], r.op)):
                r.byte_atoms.append(a)
                continue
            if a[0] in ("is", "isnot") and any(e.term == a[1] for e in p.effects):
                continue
            r.foreign.append(a)
        # emptiness: the first byte exists iff split_first is Some / !is_empty / slice pattern matched
        for a in p.atoms:
            if not emptiness_atom(a):
                continue
            t = a[1]
            if a[0] == "is":
                r.empty = (a[2] == S.NONE)
            elif a[0] == "isnot":
                r.empty = (a[2] == S.SOME)
            elif a[0] == "true" and t[0] == "call":
                r.empty = bool(a[2])
            elif a[0] == "slice":
                r.empty = not a[3]
            elif a[0] == "eq":
                r.empty = bool(a[3])
        if r.op is not None:
            r.empty = False
        if r.op is not None:
            r.bytes, r.unread = VS.path_set(r.byte_atoms, r.op, BYTES)
        else:
            r.bytes, r.unread = set(), list(r.byte_atoms)
        res = p.result
        r.outcome = "ok" if res is not None and res[0] == "ctor" and res[1] == S.OK else "err" if res is not None and res[0] == "ctor" and res[1] == S.ERR else "other"
        r.value = res[2][0] if r.outcome in ("ok", "err") and res[2] else None
        r.err = strip_conv(r.value) if r.outcome == "err" and r.value is not None else None
        r.panics = bool(p.done and p.done[0] == "panic")
        m.routes.append(r)
    F._dispatch_model = m
    return m


def show_route(r):
    return {"bytes": compress(sorted(r.bytes)), "when": [S.show_atom(a) for a in r.p.atoms if not (r.op is not None and VS.mentions(a[1], r.op))][:6],
            "result": S.show(r.p.result)[:160]}


def compress(vals):
    out = []
    i = 0
    while i < len(vals):
        j = i
        while j + 1 < len(vals) and vals[j + 1] == vals[j] + 1:
            j += 1
        out.append("0x%02x" % vals[i] if i == j else "0x%02x..=0x%02x" % (vals[i], vals[j]))
        i = j + 1
    return out
