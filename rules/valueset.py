"""Value sets of one integer variable from the atoms of a path (rule kind T/P): set algebra on the
comparisons written in the code (match literals and ranges, ==, <, <=, range.contains), over a
finite domain.  No evaluation of the program: an atom either constrains the variable to a set of
values, or does not mention it."""
from . import sym as S

CONTAINS = ("core::ops::range::RangeInclusive::<Idx>::contains", "core::ops::range::Range::<Idx>::contains", "core::ops::RangeInclusive::<Idx>::contains", "core::ops::Range::<Idx>::contains")


def _int(t):
    return t[1] if t[0] == "lit" and isinstance(t[1], int) and not isinstance(t[1], bool) else None


def range_bounds(r):
    """(lo, hi inclusive) of a range term with literal bounds, else None"""
    if r[0] == "call" and r[1].endswith("RangeInclusive::<Idx>::new") and len(r[2]) == 2:
        lo, hi = _int(r[2][0]), _int(r[2][1])
        return (lo, hi) if lo is not None and hi is not None else None
    if r[0] == "struct" and r[1].endswith("::Range"):
        f = dict(r[2])
        lo, hi = _int(f.get("start", ("x",))), _int(f.get("end", ("x",)))
        return (lo, hi - 1) if lo is not None and hi is not None else None
    if r[0] == "struct" and r[1].endswith("::RangeInclusive"):
        f = dict(r[2])
        lo, hi = _int(f.get("start", ("x",))), _int(f.get("end", ("x",)))
        return (lo, hi) if lo is not None and hi is not None else None
    return None


def mentions(t, var):
    return any(x == var for x in S.subterms(t))


def atom_set(a, var, domain):
    """the subset of `domain` admitted by atom a, None if a does not mention var, 'unknown' if it does in a form not understood"""
    k = a[0]
    full = set(domain)
    if k == "eq":
        t, v, pol = a[1], a[2], a[3]
        if t != var and v == var:
            t, v = v, t
        if t == var:
            c = _int(v)
            if c is None and v[0] == "lit" and isinstance(v[1], str):
                c = v[1]
            if c is None:
                return "unknown"
            s = {c} & full
            return s if pol else full - s
        return "unknown" if mentions(t, var) or mentions(v, var) else None
    if k == "in":
        t, lo, hi, pol = a[1], a[2], a[3], a[4]
        if t == var:
            s = {x for x in full if (lo is None or lo <= x) and (hi is None or x <= hi)}
            return s if pol else full - s
        return "unknown" if mentions(t, var) else None
    if k == "true":
        t, pol = a[1], a[2]
        if not mentions(t, var):
            return None
        s = term_set(t, var, full)
        if s is None:
            return "unknown"
        return s if pol else full - s
    if k in ("is", "isnot") and a[1][0] == "call" and a[1][1] == "sym::find_eq" and a[1][2][1] == var and a[1][2][0][0] == "array":
        # `arr.iter().find(|k| k == var)` is Some exactly for the members of the literal array
        vals = {_int(x) for x in a[1][2][0][1]}
        some = (a[2].endswith("::Some")) == (k == "is")
        s = {x for x in full if x in vals}
        return s if some else full - s
    if k in ("is", "isnot", "slice", "pat"):
        return "unknown" if mentions(a[1], var) else None
    return "unknown"


def term_set(t, var, full):
    """values of var for which the boolean term t is true"""
    if t[0] == "bin" and t[1] in ("<", "<=", "==", "!="):
        op, l, r = t[1], t[2], t[3]
        if l == var and _int(r) is not None:
            c = _int(r)
            return {x for x in full if {"<": x < c, "<=": x <= c, "==": x == c, "!=": x != c}[op]}
        if r == var and _int(l) is not None:
            c = _int(l)
            return {x for x in full if {"<": c < x, "<=": c <= x, "==": x == c, "!=": x != c}[op]}
        return None
    if t[0] == "call" and t[1] in CONTAINS and len(t[2]) == 2 and t[2][1] == var:
        b = range_bounds(t[2][0])
        if b is None:
            return None
        return {x for x in full if b[0] <= x <= b[1]}
    if t[0] == "call" and t[1] == "core::slice::<impl [T]>::contains" and len(t[2]) == 2 and t[2][1] == var and t[2][0][0] == "array":
        vals = {_int(x) for x in t[2][0][1]}
        return {x for x in full if x in vals}
    if t[0] == "un" and t[1] == "not":
        s = term_set(t[2], var, full)
        return None if s is None else full - s
    return None


def path_set(atoms, var, domain):
    """(set of values of var admitted by the path, list of atoms about var that were not understood)"""
    cur = set(domain)
    bad = []
    for a in atoms:
        s = atom_set(a, var, domain)
        if s is None:
            continue
        if s == "unknown":
            bad.append(a)
            continue
        cur &= s
    return cur, bad
