"""Generic discharge rules for obligations found in the monomorphic call graph (kind B):
B-count (derive-generated member counters), B-enum-cast (compiler lowering of `Enum as int`),
B-cap-lit (heapless String::from("literal") with a literal that fits)."""
import re

from . import hirq as H
from .oblig_mono import hir_fn_for, node_at, nodes_covering

DERIVE_SER = ("derive:Serialize", "derive:SerializeIndexed", "derive:Serialize_repr")


def _counter_term(n):
    """operand of a member counter: 0/1 literal, `false as usize`, `if P {0} else {1}`, or a sum of those"""
    n = H.strip_block(n)
    k = n.get("k")
    if k == "binary" and n["op"] == "+":
        return _counter_term(n["l"]) and _counter_term(n["r"])
    if k == "cast":
        return _counter_term(n["e"])
    v = H.lit(n)
    if isinstance(v, bool) or (isinstance(v, int) and 0 <= v <= 255):
        return True
    if k == "if" and "else" in n:
        a, b = H.lit(n["then"]), H.lit(n["else"])
        return a in (0, 1) and b in (0, 1)
    return False


def discharge(F, inst, ev, kind):
    """(rule, detail) or (None, reason)"""
    rule, detail = _discharge(F, inst, ev, kind)
    if rule is None:
        r2, d2 = discharge_concrete(F, inst, ev, kind)
        if r2 is not None:
            return r2, d2
        r3, d3 = discharge_interval(F, inst, ev, kind)
        if r3 is not None:
            return r3, d3
        if d3:
            detail = "%s; %s" % (detail, d3)
        r4, d4 = discharge_const_region(F, inst, ev, kind)
        if r4 is not None:
            return r4, d4
        if d4:
            detail = "%s; %s" % (detail, d4)
    return rule, detail


def _discharge(F, inst, ev, kind):
    fn = hir_fn_for(F, inst)
    if fn is None:
        return None, "function body not found"
    pv = inst.get("pv") or ""
    if kind in ("assert:overflow:Add", "assert:overflow:Sub", "assert:overflow:Mul"):
        # arithmetic on literals / named constants: the operands are known, the result is checked against the type's range
        for x in node_at(fn, ev["sp"]):
            if x.get("k") == "binary" and x.get("op") in ("+", "-", "*"):
                a, b = _const_int(F, x["l"]), _const_int(F, x["r"])
                ty = (x.get("ty") or "").strip("&")
                rng = {"u8": (0, 255), "u16": (0, 65535), "u32": (0, 2 ** 32 - 1), "u64": (0, 2 ** 64 - 1), "usize": (0, 2 ** 32 - 1),
                       "i8": (-128, 127), "i16": (-32768, 32767), "i32": (-2 ** 31, 2 ** 31 - 1), "i64": (-2 ** 63, 2 ** 63 - 1), "isize": (-2 ** 31, 2 ** 31 - 1)}.get(ty)
                if a is not None and b is not None and rng is not None:
                    v = a + b if x["op"] == "+" else a - b if x["op"] == "-" else a * b
                    if rng[0] <= v <= rng[1]:
                        return "B-const-arith", "%d %s %d = %d: constant operands, within %s" % (a, x["op"], b, v, ty)
    if kind == "assert:overflow:Add":
        at = node_at(fn, ev["sp"]) if inst.get("pv") == "user" else []
        if at and not any(x.get("k") == "binary" for x in at):
            ec = [x for x in at if x.get("k") == "cast" and (F.adt(x.get("from") or "") or {}).get("kind") == "enum" and all(not v["fields"] for v in F.adt(x["from"])["variants"])]
            if ec:
                return "B-enum-cast", "rustc's lowering of `<fieldless enum> as %s` (discriminant arithmetic on valid variants cannot overflow)" % ec[0]["ty"]
        adds = [x for x in H.walk(fn["body"]) if x.get("k") == "binary" and x["op"] == "+" and "callee" not in x]
        if pv in DERIVE_SER and adds and all(_counter_term(x) for x in adds):
            tops = len(adds)
            return "B-count", "member counter: a sum of %d terms each 0 or 1 (< 256) cannot overflow usize" % (tops + 1)
        if not adds:
            casts = [x for x in H.walk(fn["body"]) if x.get("k") == "cast" and x.get("ty") in ("u8", "u16", "u32", "u64", "usize", "i8", "i16", "i32", "i64", "isize")]
            enum_casts = [x for x in casts if (F.adt(x.get("from") or "") or {}).get("kind") == "enum" and all(not v["fields"] for v in F.adt(x["from"])["variants"])]
            if enum_casts and len(enum_casts) == len(casts):
                return "B-enum-cast", "rustc's lowering of `<fieldless enum> as %s` (discriminant arithmetic on valid variants cannot overflow)" % enum_casts[0]["ty"]
        return None, "integer addition that is not a derive-generated member counter"
    if kind in ("assert:overflow:Shr", "assert:overflow:Shl"):
        at = [x for x in node_at(fn, ev["sp"]) if x.get("k") in ("binary", "assignop") and x.get("op") in (">>", "<<", ">>=", "<<=")]
        if len(at) == 1:
            amt = H.lit(at[0]["r"])
            ty = (at[0].get("l") or {}).get("ty") or at[0].get("ty") or ""
            bits = {"u8": 8, "i8": 8, "u16": 16, "i16": 16, "u32": 32, "i32": 32, "u64": 64, "i64": 64, "u128": 128, "i128": 128, "usize": 32, "isize": 32}.get(ty)
            if isinstance(amt, int) and not isinstance(amt, bool) and bits is not None and 0 <= amt < bits:
                return "B-shift-lit", "shift by the literal %d, smaller than the %d bits of %s" % (amt, bits, ty)
        return None, "shift amount is not a literal smaller than the operand width"
    if kind in ("call:core::ops::index::Index::index", "call:core::ops::index::IndexMut::index_mut"):
        at = nodes_covering(fn, ev["sp"], ("index",))[:1]
        if len(at) == 1 and at[0].get("idx_ty") in ("core::ops::RangeFull", "core::ops::range::RangeFull"):
            return "B-full-range", "indexing with `..` (RangeFull) cannot be out of bounds"
        return None, "no discharge rule for an index that is not the full range"
    if kind == "call:core::convert::From::from" or kind.startswith("dep-api:<heapless::string::String<N> as core::convert::From<&'a str>>::from"):
        nodes = [x for x in node_at(fn, ev["sp"]) if x.get("k") in ("call", "mcall") and x.get("callee") in ("core::convert::From::from", "core::convert::Into::into")]
        if len(nodes) == 1:
            n = nodes[0]
            ta = n.get("targs") or []
            tgt = next((t for t in ta if t.startswith("heapless::string::String<")), None)
            arg = H.call_args(n)[0] if H.call_args(n) else None
            lit = H.lit(arg) if arg is not None else None
            if lit is None and arg is not None:
                a2 = H.strip(arg)
                if a2.get("k") == "path" and (a2["res"].get("rk") or "").startswith(("Const", "AssocConst")):
                    cv = F.const_value(a2["res"].get("path") or "")
                    if isinstance(cv, str):
                        lit = cv      # a named string constant, evaluated by rustc
            m = re.match(r"^heapless::string::String<(\d+)>$", tgt or "")
            if isinstance(lit, str) and m and len(lit.encode()) <= int(m.group(1)):
                return "B-cap-lit", "String::<%s>::from(%r): the literal has %d bytes" % (m.group(1), lit, len(lit.encode()))
            return None, "heapless String::from(&str) panics when the text does not fit; argument is not a literal known to fit (%s into %s)" % (lit, tgt)
        return None, "cannot locate the conversion in typed HIR"
    if kind == "dep-api:arbitrary::unstructured::Unstructured::<'a>::int_in_range":
        # contract (arbitrary 1.x, int_in_range_impl): assert!(start <= end) -- the range must be non-empty
        nodes = [x for x in node_at(fn, ev["sp"]) if x.get("k") == "mcall" and x.get("callee") == "arbitrary::unstructured::Unstructured::<'a>::int_in_range"]
        if len(nodes) == 1 and nodes[0]["args"]:
            r = H.strip_block(nodes[0]["args"][0])
            if r.get("k") == "call" and r.get("callee") == "core::ops::range::RangeInclusive::<Idx>::new" and len(r["args"]) == 2:
                lo, hi = (_const_int(F, a) for a in r["args"])
                if lo is not None and hi is not None:
                    if lo <= hi:
                        return "B-range", "int_in_range(%d..=%d): constant bounds, non-empty in this configuration" % (lo, hi)
                    return None, "int_in_range(%d..=%d): the range is empty in this configuration, arbitrary asserts start <= end" % (lo, hi)
                if lo == 0 and re.match(r"^core::ops::range::RangeInclusive<u(8|16|32|64|128|size)>$", r.get("ty") or ""):
                    return "B-range-unsigned", "int_in_range(0..=x) over an unsigned type: 0 <= x for every x, the range is never empty"
            return None, "int_in_range requires a non-empty range; the bounds are not constants of this configuration"
        return None, "cannot locate the int_in_range call in typed HIR"
    return None, "no discharge rule for " + kind


RANGES = {"u8": (0, 255), "u16": (0, 65535), "u32": (0, 2 ** 32 - 1), "u64": (0, 2 ** 64 - 1), "usize": (0, 2 ** 32 - 1),
          "i8": (-128, 127), "i16": (-32768, 32767), "i32": (-2 ** 31, 2 ** 31 - 1), "i64": (-2 ** 63, 2 ** 63 - 1), "isize": (-2 ** 31, 2 ** 31 - 1)}


def concrete_summary(F, fn):
    """path summaries of a small function whose loops all run concretely (sym.try_count: counters that are literals before the
    loop and after every iteration): (Sym, paths) or None.  Cached per function."""
    cache = F.__dict__.setdefault("_concrete_summary", {})
    if fn["id"] in cache:
        return cache[fn["id"]]
    from . import sym as S
    res = None
    try:
        sy = S.Sym(F, fn, inline=lambda path, node: False)
        paths = sy.run()
        if paths and all(p.loops == 0 for p in paths):
            res = (sy, paths)
    except S.TooManyPaths:
        res = None
    cache[fn["id"]] = res
    return res


def discharge_concrete(F, inst, ev, kind):
    """B-concrete: in every evaluation of the construct on the function's (concretely unrolled) paths the operands are literals:
    an index below the length of the constant array it indexes, an arithmetic result within the type's range"""
    fn = hir_fn_for(F, inst)
    if fn is None or (inst.get("pv") or "") != "user":
        return None, ""
    if kind not in ("assert:bounds", "assert:overflow:Add", "assert:overflow:Sub", "assert:overflow:Mul"):
        return None, ""
    cs = concrete_summary(F, fn)
    if cs is None:
        return None, "the function's loops do not run concretely"
    sy, _paths = cs
    from .oblig_mono import _sp
    want = _sp(ev.get("sp"))

    def covers(sp):
        have = _sp(sp)
        return want and have and have[0] == want[0] and have[1] <= want[1] and want[2] <= have[2] or (want and have and have[0] == want[0] and want[1] <= have[1] and have[2] <= want[2])

    if kind == "assert:bounds":
        seen = [x for sp, xs in sy.indexed.items() if covers(sp) for x in xs]
        if seen and all(n is not None and i[0] == "lit" and isinstance(i[1], int) and 0 <= i[1] < n for n, i in seen):
            return "B-concrete", "index values %s into a constant array of %d elements on all %d evaluations" % (sorted({i[1] for _, i in seen}), seen[0][0], len(seen))
        return None, "an index that is not a literal below the array length on some evaluation"
    nodes = [x for x in node_at(fn, ev["sp"]) if x.get("k") in ("binary", "assignop")]
    ty = ((nodes[0].get("ty") if nodes and nodes[0].get("k") == "binary" else ((nodes[0].get("l") or {}).get("ty") if nodes else "")) or "").strip("&")
    rng = RANGES.get(ty)
    seen = [x for sp, xs in sy.arith.items() if covers(sp) for x in xs]
    if rng and seen:
        vals = []
        for op, l, r in seen:
            if not (l[0] == "lit" and r[0] == "lit" and isinstance(l[1], int) and isinstance(r[1], int) and not isinstance(l[1], bool) and not isinstance(r[1], bool)):
                return None, "an operand that is not a literal on some evaluation"
            vals.append(l[1] + r[1] if op == "+" else l[1] - r[1] if op == "-" else l[1] * r[1])
        if all(rng[0] <= v <= rng[1] for v in vals):
            return "B-concrete", "results %s on all %d evaluations, within %s" % (sorted(set(vals))[:6], len(vals), ty)
    return None, "arithmetic whose operands are not literals on every evaluation"


def const_range(F, idx, n):
    """(lo, hi exclusive) of a range expression with literal / named-constant bounds, on an array of n elements"""
    idx = H.strip_block(idx)
    if idx.get("k") == "struct":
        name = (idx.get("res") or {}).get("path", "").split("::")[-1]
        f = {x["name"]: x["e"] for x in idx.get("fields", [])}
        lo = _const_int(F, f["start"]) if "start" in f else 0
        hi = _const_int(F, f["end"]) if "end" in f else n
        if name == "RangeFull":
            return 0, n
        if lo is None or hi is None:
            return None
        if name in ("RangeInclusive", "RangeToInclusive"):
            hi += 1
        return lo, hi
    if idx.get("k") == "call" and (idx.get("callee") or "").endswith("RangeInclusive::<Idx>::new") and len(idx.get("args", [])) == 2:
        lo, hi = _const_int(F, idx["args"][0]), _const_int(F, idx["args"][1])
        return None if lo is None or hi is None else (lo, hi + 1)
    return None


def array_len_of(ty):
    m = re.search(r"\[[^;\[\]]+; (\d+)\]$", (ty or "").strip())
    return int(m.group(1)) if m else None


def discharge_const_region(F, inst, ev, kind):
    """B-const-range: `A[a..b]` on an array `[T; N]` with constant 0 <= a <= b <= N;
    B-copy-len: `A[a..b].copy_from_slice(src)` with src: &[T; M] and M == b - a"""
    fn = hir_fn_for(F, inst)
    if fn is None:
        return None, ""
    if kind in ("call:core::ops::index::Index::index", "call:core::ops::index::IndexMut::index_mut"):
        at = nodes_covering(fn, ev["sp"], ("index",))[:1]
        if len(at) == 1:
            n = array_len_of(at[0].get("base_ty"))
            r = const_range(F, at[0]["idx"], n) if n is not None else None
            if r is not None and 0 <= r[0] <= r[1] <= n:
                return "B-const-range", "constant range %d..%d of an array of %d elements" % (r[0], r[1], n)
        return None, ""
    if kind == "call:core::slice::<impl [T]>::copy_from_slice":
        nodes = [x for x in node_at(fn, ev["sp"]) if x.get("k") == "mcall" and (x.get("callee") or "").endswith("::copy_from_slice")]
        if len(nodes) == 1:
            dst = H.strip(nodes[0]["recv"])
            src = nodes[0]["args"][0] if nodes[0].get("args") else {}
            if dst.get("k") == "index":
                n = array_len_of(dst.get("base_ty"))
                r = const_range(F, dst["idx"], n) if n is not None else None
                m = array_len_of(src.get("ty")) or array_len_of((H.strip(src) or {}).get("ty"))
                if r is not None and m is not None and 0 <= r[0] <= r[1] <= n:
                    if r[1] - r[0] == m:
                        return "B-copy-len", "destination %d..%d and source [_; %d] have the same length" % (r[0], r[1], m)
                    return None, "copy_from_slice of %d elements into a region of %d: the lengths differ (panics)" % (m, r[1] - r[0])
        return None, ""
    return None, ""


def interval(t, ptypes):
    """(lo, hi) of an integer term from the ranges of the parameter types it is built from, or None: literals, parameters,
    lossless From conversions, casts, + - * / % >> & min max.  (+ - * are exact because each of them is an overflow obligation of its
    own that must be discharged too; `<<` silently drops bits and is not interpreted.)"""
    k = t[0]
    if k == "lit" and isinstance(t[1], int) and not isinstance(t[1], bool):
        return (t[1], t[1])
    if k == "param":
        return RANGES.get(ptypes.get(t[1], ""))
    if k == "copy":
        return interval(t[1], ptypes)
    if k == "cast":
        inner = interval(t[1], ptypes)
        rng = RANGES.get((t[2] or "").strip("&"))
        if rng is None:
            return None
        if inner is not None and rng[0] <= inner[0] and inner[1] <= rng[1]:
            return inner
        return rng
    if k == "call" and len(t[2]) == 1 and "convert::num::" in t[1] and t[1].endswith("::from"):
        return interval(t[2][0], ptypes)
    if k == "proj" and t[2].endswith("::Ok") and t[1][0] == "call" and t[1][1] == "arbitrary::unstructured::Unstructured::<'a>::choose_index" and len(t[1][2]) == 2:
        # contract (arbitrary 1.x): choose_index(len) is Err for len == 0 and otherwise Ok(i) with i < len
        n = interval(t[1][2][1], ptypes)
        return None if n is None or n[1] < 1 else (0, n[1] - 1)
    if k == "call" and len(t[2]) == 2 and t[1].split("::")[-1] in ("min", "max") and ("cmp::Ord" in t[1] or "core::cmp::" in t[1]):
        a, b = interval(t[2][0], ptypes), interval(t[2][1], ptypes)
        if t[1].split("::")[-1] == "min":
            his = [x[1] for x in (a, b) if x is not None]
            los = [x[0] for x in (a, b) if x is not None]
            if a is not None and b is not None:
                return (min(los), min(his))
            return None
        if a is not None and b is not None:
            return (max(a[0], b[0]), max(a[1], b[1]))
        return None
    if k == "bin":
        op = t[1]
        a, b = interval(t[2], ptypes), interval(t[3], ptypes)
        if a is None or b is None:
            return None
        if op == "+":
            return (a[0] + b[0], a[1] + b[1])
        if op == "-":
            return (a[0] - b[1], a[1] - b[0])
        if op == "*":
            c = [a[0] * b[0], a[0] * b[1], a[1] * b[0], a[1] * b[1]]
            return (min(c), max(c))
        nonneg = a[0] >= 0 and b[0] >= 0
        if op == ">>" and nonneg and b[0] == b[1] and b[0] < 128:
            return (a[0] >> b[0], a[1] >> b[0])
        if op == "&" and nonneg:
            return (0, min(a[1], b[1]))
        if op == "%" and nonneg and b[0] > 0:
            return (0, min(a[1], b[1] - 1))
        if op == "/" and nonneg and b[0] > 0:
            return (a[0] // b[1], a[1] // b[0])
    return None


def discharge_interval(F, inst, ev, kind):
    """B-interval: the operands' value ranges, derived from the parameter types through the arithmetic written in the function,
    keep every evaluation of the construct within the type's range / the constant array's length"""
    fn = hir_fn_for(F, inst)
    if fn is None or (inst.get("pv") or "") != "user":
        return None, ""
    if kind not in ("assert:bounds", "assert:overflow:Add", "assert:overflow:Sub", "assert:overflow:Mul"):
        return None, ""
    cache = F.__dict__.setdefault("_interval_summary", {})
    if fn["id"] not in cache:
        from . import sym as S
        try:
            sy = S.Sym(F, fn, inline=lambda path, node: False)
            sy.run()
            cache[fn["id"]] = sy
        except S.TooManyPaths:
            cache[fn["id"]] = None
    sy = cache[fn["id"]]
    if sy is None:
        return None, ""
    ptypes = {}
    for p, ty in zip(fn.get("params") or [], fn.get("inputs") or []):
        b = H.pat_bindings(p)
        if len(b) == 1 and p.get("k") == "bind":
            ptypes[b[0][0]] = ty
    from .oblig_mono import _sp
    want = _sp(ev.get("sp"))

    def covers(sp):
        have = _sp(sp)
        return bool(want and have and have[0] == want[0] and (have[1] <= want[1] and want[2] <= have[2] or want[1] <= have[1] and have[2] <= want[2]))

    if kind == "assert:bounds":
        seen = [x for sp, xs in sy.indexed.items() if covers(sp) for x in xs]
        ivs = [(n, interval(i, ptypes)) for n, i in seen]
        if seen and all(n is not None and iv is not None and 0 <= iv[0] and iv[1] < n for n, iv in ivs):
            return "B-interval", "index within %s for a constant array of %d elements" % (sorted({iv for _, iv in ivs}), ivs[0][0])
        return None, "the index's value range %s is not within the array" % ([iv for _, iv in ivs][:2],)
    nodes = [x for x in node_at(fn, ev["sp"]) if x.get("k") in ("binary", "assignop")]
    ty = ((nodes[0].get("ty") if nodes and nodes[0].get("k") == "binary" else ((nodes[0].get("l") or {}).get("ty") if nodes else "")) or "").strip("&")
    rng = RANGES.get(ty)
    if ty == "usize" or ty == "isize":
        rng = RANGES["u32"] if ty == "usize" else RANGES["i32"]      # the narrowest usize of a supported target
    seen = [x for sp, xs in sy.arith.items() if covers(sp) for x in xs]
    if rng and seen:
        ivs = [interval(("bin", op, l, r), ptypes) for op, l, r in seen]
        if all(iv is not None and rng[0] <= iv[0] and iv[1] <= rng[1] for iv in ivs):
            return "B-interval", "result within %s, inside %s" % (sorted(set(ivs))[:3], ty)
        return None, "the result's value range %s is not within %s" % (ivs[:2], ty)
    return None, ""


def _const_int(F, n):
    n = H.strip_block(n)
    v = H.lit(n)
    if isinstance(v, int) and not isinstance(v, bool):
        return v
    if n.get("k") == "path" and (n.get("res") or {}).get("rk", "").startswith(("Const", "AssocConst")) and n["res"].get("krate") == "ctap_types":
        v = F.const_value(n["res"]["path"])
        return v if isinstance(v, int) and not isinstance(v, bool) else None
    return None


def check_root(ctx, F, cfg, P, root_spec, local_rules=None, what=""):
    """every panic-capable / unsafe construct in the /repo instances reachable from a root is
    discharged by a generic rule (B-count, B-enum-cast, B-cap-lit) or by a caller-supplied one"""
    from .oblig_mono import Reach
    r = F.mono_root(root_spec)
    if not ctx.oblige("%s|panic-free|root|%s" % (P, root_spec), r is not None and "inst" in r, "anchor missing: mono root " + root_spec, cfg=cfg, nontrivial=False):
        return 0
    R = Reach(F, r["inst"])
    n = 0
    ordinal = {}
    for inst, ev, kind in R.obligations():
        n += 1
        rule, detail = discharge(F, inst, ev, kind)
        if rule is None and local_rules is not None:
            rule2, detail2 = local_rules(inst, ev, kind)
            if rule2:
                rule, detail = rule2, detail2
        short = re.sub(r"<'_, ", "<", inst["def"])[:100]
        ordinal[(short, kind)] = ordinal.get((short, kind), 0) + 1
        ctx.oblige("%s|panic-free|%s|%s|#%d" % (P, short, kind[:80], ordinal[(short, kind)]), rule is not None,
                   "undischarged panic-capable construct %s: %s in %s (%s): %s; call path %s" % (what, kind, inst["name"][:90], ev.get("sp"), detail, " -> ".join(R.path_to(inst["i"])[-3:])),
                   cfg=cfg, where=ev.get("sp"))
        if rule:
            ctx.sample({"cfg": cfg, "root": root_spec, "obligation": kind, "in": short, "rule": rule, "detail": detail}, limit=60)
    cyc = R.cycles_through_local()
    ctx.oblige("%s|panic-free|no-recursion|%s" % (P, root_spec), not cyc, "recursion through /repo code reachable from %s" % root_spec, cfg=cfg, nontrivial=False)
    return len(R.local)
