"""Generic discharge rules for obligations found in the monomorphic call graph (kind B):
B-count (derive-generated member counters), B-enum-cast (compiler lowering of `Enum as int`),
B-cap-lit (heapless String::from("literal") with a literal that fits)."""
import re

from . import hirq as H
from .oblig_mono import hir_fn_for, node_at, nodes_covering

DERIVE_SER = ("derive:Serialize", "derive:SerializeIndexed", "derive:Serialize_repr")


def _counter_term(n):
    """operand of a member counter: 0/1 literal, `false as usize`, `if P {0} else {1}`, or a sum of those"""
    n = H.strip_block(n)
    k = n.get("k")
    if k == "binary" and n["op"] == "+":
        return _counter_term(n["l"]) and _counter_term(n["r"])
    if k == "cast":
        return _counter_term(n["e"])
    v = H.lit(n)
    if isinstance(v, bool) or (isinstance(v, int) and 0 <= v <= 255):
        return True
    if k == "if" and "else" in n:
        a, b = H.lit(n["then"]), H.lit(n["else"])
        return a in (0, 1) and b in (0, 1)
    return False


def discharge(F, inst, ev, kind):
    """(rule, detail) or (None, reason)"""
    fn = hir_fn_for(F, inst)
    if fn is None:
        return None, "function body not found"
    pv = inst.get("pv") or ""
    if kind in ("assert:overflow:Add", "assert:overflow:Sub", "assert:overflow:Mul"):
        # arithmetic on literals / named constants: the operands are known, the result is checked against the type's range
        for x in node_at(fn, ev["sp"]):
            if x.get("k") == "binary" and x.get("op") in ("+", "-", "*"):
                a, b = _const_int(F, x["l"]), _const_int(F, x["r"])
                ty = (x.get("ty") or "").strip("&")
                rng = {"u8": (0, 255), "u16": (0, 65535), "u32": (0, 2 ** 32 - 1), "u64": (0, 2 ** 64 - 1), "usize": (0, 2 ** 32 - 1),
                       "i8": (-128, 127), "i16": (-32768, 32767), "i32": (-2 ** 31, 2 ** 31 - 1), "i64": (-2 ** 63, 2 ** 63 - 1), "isize": (-2 ** 31, 2 ** 31 - 1)}.get(ty)
                if a is not None and b is not None and rng is not None:
                    v = a + b if x["op"] == "+" else a - b if x["op"] == "-" else a * b
                    if rng[0] <= v <= rng[1]:
                        return "B-const-arith", "%d %s %d = %d: constant operands, within %s" % (a, x["op"], b, v, ty)
    if kind == "assert:overflow:Add":
        at = node_at(fn, ev["sp"]) if inst.get("pv") == "user" else []
        if at and not any(x.get("k") == "binary" for x in at):
            ec = [x for x in at if x.get("k") == "cast" and (F.adt(x.get("from") or "") or {}).get("kind") == "enum" and all(not v["fields"] for v in F.adt(x["from"])["variants"])]
            if ec:
                return "B-enum-cast", "rustc's lowering of `<fieldless enum> as %s` (discriminant arithmetic on valid variants cannot overflow)" % ec[0]["ty"]
        adds = [x for x in H.walk(fn["body"]) if x.get("k") == "binary" and x["op"] == "+" and "callee" not in x]
        if pv in DERIVE_SER and adds and all(_counter_term(x) for x in adds):
            tops = len(adds)
            return "B-count", "member counter: a sum of %d terms each 0 or 1 (< 256) cannot overflow usize" % (tops + 1)
        if not adds:
            casts = [x for x in H.walk(fn["body"]) if x.get("k") == "cast" and x.get("ty") in ("u8", "u16", "u32", "u64", "usize", "i8", "i16", "i32", "i64", "isize")]
            enum_casts = [x for x in casts if (F.adt(x.get("from") or "") or {}).get("kind") == "enum" and all(not v["fields"] for v in F.adt(x["from"])["variants"])]
            if enum_casts and len(enum_casts) == len(casts):
                return "B-enum-cast", "rustc's lowering of `<fieldless enum> as %s` (discriminant arithmetic on valid variants cannot overflow)" % enum_casts[0]["ty"]
        return None, "integer addition that is not a derive-generated member counter"
    if kind in ("assert:overflow:Shr", "assert:overflow:Shl"):
        at = [x for x in node_at(fn, ev["sp"]) if x.get("k") in ("binary", "assignop") and x.get("op") in (">>", "<<", ">>=", "<<=")]
        if len(at) == 1:
            amt = H.lit(at[0]["r"])
            ty = (at[0].get("l") or {}).get("ty") or at[0].get("ty") or ""
            bits = {"u8": 8, "i8": 8, "u16": 16, "i16": 16, "u32": 32, "i32": 32, "u64": 64, "i64": 64, "u128": 128, "i128": 128, "usize": 32, "isize": 32}.get(ty)
            if isinstance(amt, int) and not isinstance(amt, bool) and bits is not None and 0 <= amt < bits:
                return "B-shift-lit", "shift by the literal %d, smaller than the %d bits of %s" % (amt, bits, ty)
        return None, "shift amount is not a literal smaller than the operand width"
    if kind in ("call:core::ops::index::Index::index", "call:core::ops::index::IndexMut::index_mut"):
        at = nodes_covering(fn, ev["sp"], ("index",))[:1]
        if len(at) == 1 and at[0].get("idx_ty") in ("core::ops::RangeFull", "core::ops::range::RangeFull"):
            return "B-full-range", "indexing with `..` (RangeFull) cannot be out of bounds"
        return None, "no discharge rule for an index that is not the full range"
    if kind == "call:core::convert::From::from" or kind.startswith("dep-api:<heapless::string::String<N> as core::convert::From<&'a str>>::from"):
        nodes = [x for x in node_at(fn, ev["sp"]) if x.get("k") in ("call", "mcall") and x.get("callee") in ("core::convert::From::from", "core::convert::Into::into")]
        if len(nodes) == 1:
            n = nodes[0]
            ta = n.get("targs") or []
            tgt = next((t for t in ta if t.startswith("heapless::string::String<")), None)
            arg = H.call_args(n)[0] if H.call_args(n) else None
            lit = H.lit(arg) if arg is not None else None
            if lit is None and arg is not None:
                a2 = H.strip(arg)
                if a2.get("k") == "path" and (a2["res"].get("rk") or "").startswith(("Const", "AssocConst")):
                    cv = F.const_value(a2["res"].get("path") or "")
                    if isinstance(cv, str):
                        lit = cv      # a named string constant, evaluated by rustc
            m = re.match(r"^heapless::string::String<(\d+)>$", tgt or "")
            if isinstance(lit, str) and m and len(lit.encode()) <= int(m.group(1)):
                return "B-cap-lit", "String::<%s>::from(%r): the literal has %d bytes" % (m.group(1), lit, len(lit.encode()))
            return None, "heapless String::from(&str) panics when the text does not fit; argument is not a literal known to fit (%s into %s)" % (lit, tgt)
        return None, "cannot locate the conversion in typed HIR"
    if kind == "dep-api:arbitrary::unstructured::Unstructured::<'a>::int_in_range":
        # contract (arbitrary 1.x, int_in_range_impl): assert!(start <= end) -- the range must be non-empty
        nodes = [x for x in node_at(fn, ev["sp"]) if x.get("k") == "mcall" and x.get("callee") == "arbitrary::unstructured::Unstructured::<'a>::int_in_range"]
        if len(nodes) == 1 and nodes[0]["args"]:
            r = H.strip_block(nodes[0]["args"][0])
            if r.get("k") == "call" and r.get("callee") == "core::ops::range::RangeInclusive::<Idx>::new" and len(r["args"]) == 2:
                lo, hi = (_const_int(F, a) for a in r["args"])
                if lo is not None and hi is not None:
                    if lo <= hi:
                        return "B-range", "int_in_range(%d..=%d): constant bounds, non-empty in this configuration" % (lo, hi)
                    return None, "int_in_range(%d..=%d): the range is empty in this configuration, arbitrary asserts start <= end" % (lo, hi)
            return None, "int_in_range requires a non-empty range; the bounds are not constants of this configuration"
        return None, "cannot locate the int_in_range call in typed HIR"
    return None, "no discharge rule for " + kind


def _const_int(F, n):
    n = H.strip_block(n)
    v = H.lit(n)
    if isinstance(v, int) and not isinstance(v, bool):
        return v
    if n.get("k") == "path" and (n.get("res") or {}).get("rk", "").startswith(("Const", "AssocConst")) and n["res"].get("krate") == "ctap_types":
        v = F.const_value(n["res"]["path"])
        return v if isinstance(v, int) and not isinstance(v, bool) else None
    return None


def check_root(ctx, F, cfg, P, root_spec, local_rules=None, what=""):
    """every panic-capable / unsafe construct in the /repo instances reachable from a root is
    discharged by a generic rule (B-count, B-enum-cast, B-cap-lit) or by a caller-supplied one"""
    from .oblig_mono import Reach
    r = F.mono_root(root_spec)
    if not ctx.oblige("%s|panic-free|root|%s" % (P, root_spec), r is not None and "inst" in r, "anchor missing: mono root " + root_spec, cfg=cfg, nontrivial=False):
        return 0
    R = Reach(F, r["inst"])
    n = 0
    ordinal = {}
    for inst, ev, kind in R.obligations():
        n += 1
        rule, detail = discharge(F, inst, ev, kind)
        if rule is None and local_rules is not None:
            rule2, detail2 = local_rules(inst, ev, kind)
            if rule2:
                rule, detail = rule2, detail2
        short = re.sub(r"<'_, ", "<", inst["def"])[:100]
        ordinal[(short, kind)] = ordinal.get((short, kind), 0) + 1
        ctx.oblige("%s|panic-free|%s|%s|#%d" % (P, short, kind[:80], ordinal[(short, kind)]), rule is not None,
                   "undischarged panic-capable construct %s: %s in %s (%s): %s; call path %s" % (what, kind, inst["name"][:90], ev.get("sp"), detail, " -> ".join(R.path_to(inst["i"])[-3:])),
                   cfg=cfg, where=ev.get("sp"))
        if rule:
            ctx.sample({"cfg": cfg, "root": root_spec, "obligation": kind, "in": short, "rule": rule, "detail": detail}, limit=60)
    cyc = R.cycles_through_local()
    ctx.oblige("%s|panic-free|no-recursion|%s" % (P, root_spec), not cyc, "recursion through /repo code reachable from %s" % root_spec, cfg=cfg, nontrivial=False)
    return len(R.local)
