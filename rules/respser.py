"""Shared analysis of ctap2::Response::serialize (framing of a CTAP2 response): used by
C02 (status byte + body wiring, empty-map collapse) and C17 (fits completely or one-byte error).

The function is summarised by sym.Sym (helpers such as an extracted `encode_body(&self, data)`
are expanded at the call site): per path the response variant, the encoder call and its known
outcome, every write to the status byte, and the ordered operations on the buffer."""
from . import hirq as H
from . import sym as S

FN = "ctap2::Response::serialize"
RESIZE = "heapless::vec::Vec::<T, N>::resize_default"
RESIZE_ANY = ("heapless::vec::Vec::<T, N>::resize_default", "heapless::vec::Vec::<T, N>::resize")
TRUNCATE = "heapless::vec::Vec::<T, N>::truncate"
CAPACITY = "heapless::vec::Vec::<T, N>::capacity"
SPLIT = "core::slice::<impl [T]>::split_first_mut"
SPLIT_AT = "core::slice::<impl [T]>::split_at_mut"
CBOR_SER_SLICE = ("cbor_smol::cbor_serialize", "cbor_smol::ser::cbor_serialize")
# the writer form: cbor_serialize_to(value, &mut <&mut [u8]>) writes at the front of the slice and returns the number of bytes
# written (trusted contract of cbor-smol's Writer impl for &mut [u8]: the count is at most the slice's length)
CBOR_SER_COUNT = ("cbor_smol::cbor_serialize_to", "cbor_smol::ser::cbor_serialize_to")
CBOR_SER = CBOR_SER_SLICE + CBOR_SER_COUNT
OK = "core::result::Result::Ok"
LEN = "core::slice::<impl [T]>::len"
READ_ONLY = ("len", "capacity", "is_empty", "is_full", "as_slice", "as_ref", "iter", "first", "last", "get")
BUF = ("param", "buffer")
ME = ("param", "self")


def parent_map(root):
    pm = {}
    for n in H.walk(root):
        for c in H.children(n):
            pm[id(c)] = n
    return pm


def rooted_in_buffer(t):
    """t is the buffer or a place obtained from it (split_first_mut / unwrap / tuple projections)"""
    for _ in range(12):
        if t == BUF:
            return True
        if t[0] in ("tproj", "proj", "field", "index", "sproj", "smid"):
            t = t[1]
        elif t[0] == "call" and t[2] and t[1].split("::")[-1] in ("split_first_mut", "split_at_mut", "as_mut_slice", "deref_mut", "as_mut", "split_first", "unwrap"):
            t = t[2][0]
        else:
            return False
    return False


def is_grow(m, e):
    """the buffer is resized to its full capacity: resize_default(capacity()) / resize(capacity(), 0) / the same with the
    Vec's const capacity parameter N"""
    if e.callee not in RESIZE_ANY or len(e.args) < 2 or e.args[0] != BUF:
        return False
    n = e.args[1]
    if n[0] == "call" and n[1] == CAPACITY and n[2] == (BUF,):
        ok = True
    else:
        cap = None
        for p in m.fn.get("params", []):
            if p.get("k") == "bind" and p.get("name") == "buffer":
                mm = __import__("re").search(r"Vec<u8, (\w+)>", p.get("ty") or "")
                cap = mm.group(1) if mm else None
        ok = cap is not None and n[0] in ("path", "const") and n[1] == m.fn["path"] + "::" + cap
    if ok and e.callee.endswith("::resize"):
        ok = len(e.args) == 3 and e.args[2] == ("lit", 0)
    return ok


class PathView:
    """one path of Response::serialize, decoded"""
    pass


class Model:
    pass


def build(F):
    """returns (model, problems) — problems is a list of (key suffix, message) for shapes not understood"""
    fn = F.fn(FN)
    if fn is None:
        return None, [("anchor", "anchor missing: ctap2::Response::serialize")]
    names = [n for p in fn["params"] for n, _ in H.pat_bindings(p)]
    if "buffer" not in names or "self" not in names:
        return None, [("anchor", "Response::serialize no longer takes (&self, buffer)")]
    m = Model()
    m.fn = fn

    def is_effect(callee, args, node, st):
        if callee in CBOR_SER:
            return True
        if not any(rooted_in_buffer(a) for a in args if isinstance(a, tuple)):
            return False
        if callee not in ("<assign>", "<closure>", "<indirect>") and (callee or "").split("::")[-1] in READ_ONLY and args and args[0] == BUF:
            return False
        return True

    m.sym = S.Sym(F, fn, is_effect=is_effect)
    try:
        paths = m.sym.run()
    except S.TooManyPaths:
        return None, [("paths", "Response::serialize has too many control-flow paths to enumerate")]
    m.views = []
    problems = []
    split_terms = set()
    for p in paths:
        v = PathView()
        v.p = p
        v.effects = list(p.effects)
        v.variant = (m.sym.lookup(p, ME) or "?").split("::")[-1]
        # the status byte and the room behind it: `buffer.split_first_mut().unwrap()` or `buffer.split_at_mut(1)`
        v.split = [e for e in p.effects if (e.callee == SPLIT and e.args and e.args[0] == BUF) or (e.callee == SPLIT_AT and tuple(e.args) == (BUF, ("lit", 1)))]
        for e in v.split:
            split_terms.add(e.term)
        v.status_place = v.data_place = None
        if len(v.split) == 1 and v.split[0].callee == SPLIT:
            some = m.sym.proj(v.split[0].term, S.SOME, 0)
            v.status_place, v.data_place = m.sym.tproj(some, 0), m.sym.tproj(some, 1)
        elif len(v.split) == 1:
            v.status_place, v.data_place = ("index", m.sym.tproj(v.split[0].term, 0), ("lit", 0)), m.sym.tproj(v.split[0].term, 1)
        v.encoders = [e for e in p.effects if e.callee in CBOR_SER]
        v.enc = v.encoders[0] if len(v.encoders) == 1 else None
        v.enc_known = m.sym.lookup(p, v.enc.term) if v.enc is not None else None
        # the encoded body as a term, and its length
        v.body = v.body_len = None
        if v.enc is not None:
            okv = m.sym.proj(v.enc.term, S.OK, 0)
            if v.enc.callee in CBOR_SER_COUNT:
                v.body_len = okv
                v.body = ("index", v.data_place, ("struct", "core::ops::range::RangeTo", (("end", okv),))) if v.data_place is not None else None
            else:
                v.body = okv
                v.body_len = ("call", LEN, (okv,))
        # reads of the encoded prefix of the tail (`data[..written]`) are part of the writer form
        v.body_reads = [e for e in p.effects if e.kind == "index" and len(e.args) == 2 and v.data_place is not None and e.args[0] == v.data_place
                        and e.args[1][0] == "struct" and e.args[1][1].endswith("::RangeTo") and dict(e.args[1][2]).get("end") in (v.body_len, ("lit", 0))]
        v.assigns = [e for e in p.effects if e.kind == "assign"]
        v.status_writes = [e for e in v.assigns if e.args[0] == v.status_place]
        v.buf_ops = [e for e in p.effects if e.kind == "call" and e.args and e.args[0] == BUF]
        v.panics = bool(p.done and p.done[0] == "panic")
        v.kind = classify(m, v)
        m.views.append(v)
    if len(split_terms) != 1:
        return None, [("split", "the status byte and the body are no longer obtained from one `buffer.split_first_mut()` / `buffer.split_at_mut(1)`")]
    m.paths = [v for v in m.views if not v.panics]
    m.panic_paths = [v for v in m.views if v.panics]
    return m, problems


def classify(m, v):
    """'ok-a0' | 'ok' | 'ok-empty' | 'err' | None : what the encoder produced on this path"""
    p = v.p
    if v.enc is None:
        return "ok-empty" if not v.encoders else None
    k = v.enc_known
    if k == S.ERR:
        return "err"
    if k != S.OK:
        return None
    body = v.body
    a0 = ("array", (("lit", 0xA0),))
    for a in p.atoms:
        if a[0] == "eq" and {a[1], a[2]} == {body, a0}:
            return "ok-a0" if a[3] else "ok"
    return "ok?"


def discarded(m, node):
    """the Result of `node` is explicitly thrown away: `.ok();` as a statement or `let _ = ..;`"""
    pm = getattr(m, "_pm", None)
    if pm is None:
        pm = {}
        for g in [m.fn] + [m.sym.F.fn(q) for q in m.sym.inlined if m.sym.F.fn(q) is not None]:
            pm.update(parent_map(g["body"]))
        m._pm = pm
    par = pm.get(id(node))
    if par is None:
        return False
    if par.get("k") == "mcall" and par.get("callee") == "core::result::Result::<T, E>::ok" and par["recv"] is node:
        gp = pm.get(id(par))
        return gp is not None and gp.get("k") == "semi"
    if par.get("k") == "let" and par["pat"].get("k") == "wild":
        return True
    if par.get("k") == "semi":
        return True
    return False
