"""Shared analysis of ctap2::Response::serialize (framing of a CTAP2 response): used by
C02 (status byte + body wiring, empty-map collapse) and C17 (fits completely or one-byte error)."""
from . import hirq as H
from . import tables as T
from .pathcond import Analysis, effect_paths, TooManyPaths

FN = "ctap2::Response::serialize"
RESIZE = "heapless::vec::Vec::<T, N>::resize_default"
CAPACITY = "heapless::vec::Vec::<T, N>::capacity"
SPLIT = "core::slice::<impl [T]>::split_first_mut"
CBOR_SER = ("cbor_smol::cbor_serialize", "cbor_smol::ser::cbor_serialize")
OK = "core::result::Result::Ok"
RES_OK = "core::result::Result::<T, E>::ok"
UNWRAPS = ("core::option::Option::<T>::unwrap", "core::option::Option::<T>::expect", "core::result::Result::<T, E>::unwrap", "core::result::Result::<T, E>::expect")


def parent_map(root):
    pm = {}
    for n in H.walk(root):
        for c in H.children(n):
            pm[id(c)] = n
    return pm


class Model:
    pass


def build(F):
    """returns (model, problems) — problems is a list of (key suffix, message) for shapes not understood"""
    fn = F.fn(FN)
    if fn is None:
        return None, [("anchor", "anchor missing: ctap2::Response::serialize")]
    m = Model()
    m.fn = fn
    m.A = Analysis(fn)
    pm = parent_map(fn["body"])
    m.pm = pm
    params = {n: i for p in fn["params"] for n, i in H.pat_bindings(p)}
    buf_id = params.get("buffer")
    problems = []
    if buf_id is None or "self" not in params:
        return None, [("anchor", "Response::serialize no longer takes (&self, buffer)")]

    def on_buffer(n):
        return n.get("k") == "mcall" and H.local_id(n["recv"]) == buf_id

    status_ids = set()
    data_ids = set()
    # (status, data) = buffer.split_first_mut().unwrap()
    for pid, (pat, init) in m.A.pat_of.items():
        i = H.strip_block(init)
        inner = i
        if i.get("k") == "mcall" and i.get("callee") in UNWRAPS:
            inner = H.strip_block(i["recv"])
        if inner.get("k") == "mcall" and inner.get("callee") == SPLIT and H.local_id(inner["recv"]) == buf_id:
            if pat.get("k") == "tuple" and len(pat["pats"]) == 2:
                b0, b1 = H.pat_bindings(pat["pats"][0]), H.pat_bindings(pat["pats"][1])
                if len(b0) == 1 and len(b1) == 1:
                    status_ids.add(b0[0][1])
                    data_ids.add(b1[0][1])
                    m.split_unwrap = i if i is not inner else None
                    m.split_node = inner
    if len(status_ids) != 1:
        return None, [("split", "the status byte and the body are no longer obtained from `buffer.split_first_mut()`")]
    m.status_id = next(iter(status_ids))
    m.data_id = next(iter(data_ids))

    def is_effect(n):
        k = n.get("k")
        if on_buffer(n):
            return True
        if k in ("call", "mcall") and n.get("callee") in CBOR_SER:
            return True
        if k in ("assign", "assignop"):
            tgt = H.strip(n["l"])
            return H.local_id(tgt) in (m.status_id, m.data_id, buf_id)
        if k in ("call", "mcall"):
            # anything else that receives the buffer, the status byte or the body
            for a in H.call_args(n):
                if H.local_id(a) in (buf_id, m.status_id, m.data_id) and n.get("callee") not in (CAPACITY,):
                    return True
        return False

    try:
        m.paths = effect_paths(fn["body"], is_effect)
    except TooManyPaths:
        return None, [("paths", "Response::serialize has too many control-flow paths to enumerate")]
    m.buf_id = buf_id
    m.self_id = params["self"]
    # the dispatch match over self
    m.self_match = None
    for n in H.walk(fn["body"]):
        if n.get("k") == "match" and n.get("src") == "normal" and H.local_id(n["scrut"]) == m.self_id:
            m.self_match = n
    if m.self_match is None:
        problems.append(("self-match", "no `match self` over the response variants"))
    return m, problems


def classify(m, p):
    """('ok-a0' | 'ok' | 'err' | None, slice binding id)"""
    A = m.A
    ok_pol = None
    slice_id = None
    a0 = None
    for c in p.conds:
        if c.kind == "let" and H.pat_ctor(c.pat) == OK:
            init = A.subst(c.init) if c.init is not None else {}
            if init is m.self_match or (init.get("k") == "match" and H.local_id(init["scrut"]) == m.self_id):
                ok_pol = c.pol
                b = H.pat_bindings(c.pat)
                slice_id = b[0][1] if b else None
        elif c.kind == "match" and H.pat_ctor(c.pat) in (OK, "core::result::Result::Err"):
            sc = A.subst(c.scrut)
            if sc is m.self_match or (sc.get("k") == "match" and H.local_id(sc["scrut"]) == m.self_id):
                ok_pol = H.pat_ctor(c.pat) == OK
                b = H.pat_bindings(c.pat)
                slice_id = b[0][1] if (b and ok_pol) else slice_id
        elif c.kind == "match" and H.pat_is_catchall(c.pat) and c.prior and any(H.pat_ctor(q) == OK for q in c.prior):
            sc = A.subst(c.scrut)
            if sc is m.self_match or (sc.get("k") == "match" and H.local_id(sc["scrut"]) == m.self_id):
                ok_pol = False
        elif c.kind == "expr":
            e = H.strip_block(c.e)
            if e.get("k") == "binary" and e["op"] in ("==", "!="):
                l, r = H.strip(e["l"]), H.strip(e["r"])
                for x, y in ((l, r), (r, l)):
                    if slice_id is not None and H.local_id(x) == slice_id and y.get("k") == "array" and [H.lit(z) for z in y["elems"]] == [0xA0]:
                        a0 = (c.pol == (e["op"] == "=="))
    if ok_pol is None:
        return None, None
    if ok_pol is False:
        return "err", None
    if a0 is None:
        return "ok?", slice_id
    return ("ok-a0" if a0 else "ok"), slice_id


def variant_of(m, p):
    for c in p.conds:
        if c.kind == "match" and c.scrut is m.self_match["scrut"]:
            pats = c.pat["pats"] if c.pat.get("k") == "or" else [c.pat]
            return [(H.pat_ctor(q) or "").split("::")[-1] for q in pats], c.pat
    return None, None


def discarded(m, node):
    """the Result of `node` is explicitly thrown away: `.ok();` as a statement or `let _ = ..;`"""
    par = m.pm.get(id(node))
    if par is None:
        return False
    if par.get("k") == "mcall" and par.get("callee") == RES_OK and par["recv"] is node:
        gp = m.pm.get(id(par))
        return gp is not None and gp.get("k") == "semi"
    if par.get("k") == "let" and par["pat"].get("k") == "wild":
        return True
    if par.get("k") == "semi":
        return True  # `#[must_use]` would warn, but the value is dropped
    return False
