"""C12 — size and range limits are exact; accepted values are never altered to fit.

Decides (T): the *evaluated* type (const generics, aliases and constants resolved by rustc) of
every bounded request member against spec/limits.json: container kind and capacity, integer
width and signedness — in the struct definition and, where a derive decodes it, in the decoded
type of the generated decoder (both must agree); the wrapper decoders of the lossy members are
instantiated with the member's own capacity; the set of members decoded through a custom function
and the set of hand-written Deserialize impls equal the documented lossy sets, so nothing else can
alter an accepted value.
Not decided: accept-at-capacity / reject-at-capacity+1 behaviour of heapless / heapless-bytes /
serde_bytes / cbor-smol (value-level, dependencies).
"""
import json
import os

from . import tables as T
from . import wire as W
from .facts import DE
from .engine import VERIF

LEVEL = "other"


def run(ctx):
    spec = json.load(open(os.path.join(VERIF, "spec", "limits.json")))
    ctx.explanation = ("Table agreement on evaluated field types from rustc's ADT table (local and cosey), cross-checked with the decoded types in the generated decoders, "
                       "against an independent limits table; plus who-may-alter rule: custom decoder wiring and hand-written Deserialize impls are exactly the documented sets.")
    ctx.rule = "obligation = limits row (struct type, decoded type, wrapper instantiation) per configuration"
    ctx.trusted = ["heapless 0.7.17 / heapless-bytes 0.3.0 / serde_bytes 0.11.19: over-capacity input is an error, never a truncation", "cbor-smol 0.5.1 integer range checks"]
    for cfg, F in ctx.facts.items():
        decode_cache = {}

        def dec(path):
            if path not in decode_cache:
                try:
                    decode_cache[path] = W.decode_table(F, path)
                except T.Unreadable:
                    decode_cache[path] = None
            return decode_cache[path]

        n = 0
        for row in spec["containers"]:
            n += 1
            key = "C12|cap|%s|%s" % (row["type"], row["field"])
            ft = W.field_types(F, row["type"])
            if not ctx.oblige(key + "|anchor", ft is not None and row["field"] in ft, "anchor missing: %s.%s" % (row["type"], row["field"]), cfg=cfg):
                continue
            c = W.capacity(ft[row["field"]])
            ctx.oblige(key, c.get("kind") == row["kind"] and c.get("cap") == row["cap"],
                       "%s.%s is %s, the limit is %s of capacity %d" % (row["type"], row["field"], W.erase_lt(ft[row["field"]]), row["kind"], row["cap"]), cfg=cfg)
            tab = dec(row["type"])
            if tab:
                m = next((m for m in tab["members"] if m["field"] == row["field"]), None)
                if m is not None:
                    dc = W.capacity(m["ty"])
                    ctx.oblige(key + "|decoded", dc.get("kind") == row["kind"] and dc.get("cap") == row["cap"],
                               "%s.%s is decoded as %s, the limit is %s of capacity %d" % (row["type"], row["field"], m["ty"], row["kind"], row["cap"]), cfg=cfg)
                    if m["with"]:
                        targs = m["with"].get("targs") or []
                        ctx.oblige(key + "|wrapper-cap", str(row["cap"]) in targs,
                                   "%s.%s: lossy decoder instantiated with %s, member capacity is %d" % (row["type"], row["field"], targs, row["cap"]), cfg=cfg)
            ctx.sample({"cfg": cfg, "member": row["type"] + "." + row["field"], "evaluated_type": W.erase_lt(ft[row["field"]])}, limit=32)
        for row in spec["integers"]:
            n += 1
            key = "C12|int|%s|%s" % (row["type"], row["field"])
            ft = W.field_types(F, row["type"])
            if not ctx.oblige(key + "|anchor", ft is not None and row["field"] in ft, "anchor missing: %s.%s" % (row["type"], row["field"]), cfg=cfg):
                continue
            c = W.capacity(ft[row["field"]])
            ctx.oblige(key, c.get("kind") == "int" and c.get("width") == row["width"],
                       "%s.%s is %s, specification width is %s" % (row["type"], row["field"], W.erase_lt(ft[row["field"]]), row["width"]), cfg=cfg)
            tab = dec(row["type"])
            if tab:
                m = next((m for m in tab["members"] if m["field"] == row["field"]), None)
                if m is not None:
                    dc = W.capacity(m["ty"])
                    ctx.oblige(key + "|decoded", dc.get("kind") == "int" and dc.get("width") == row["width"], "%s.%s is decoded as %s, specification width is %s" % (row["type"], row["field"], m["ty"], row["width"]), cfg=cfg)
        ctx.floor("limit rows", n, 31, cfg=cfg)
        # who may alter a value: custom decoders
        documented = {(t, f): fn for t, f, fn in spec["lossy_members"]}
        found = {}
        for a in F.adts.values():
            if not a["local"] or a["kind"] != "struct":
                continue
            tab = dec(a["path"])
            if not tab:
                continue
            for m in tab["members"]:
                if m["with"]:
                    found[(a["path"], m["field"])] = m["with"]["fn"]
        for k in sorted(set(found) | set(documented)):
            ctx.oblige("C12|lossy|%s|%s" % k, found.get(k) == documented.get(k),
                       "%s.%s: custom decoder %s, documented %s" % (k[0], k[1], found.get(k), documented.get(k)), cfg=cfg)
        hand = sorted({(f["impl"]["self_ty"].get("path") or f["impl"]["self_ty"]["s"]) for f in F.fns
                       if f["name"] == "deserialize" and (f.get("impl") or {}).get("trait") == DE and f["impl"].get("impl_pv") == "user"
                       and "__" not in f["impl"]["self_ty"]["s"] and "::deserialize::" not in f["impl"]["self_ty"]["s"]})
        ctx.oblige("C12|handwritten", hand == sorted(spec["handwritten_decoders"]),
                   "hand-written Deserialize impls are %s, documented lossy types are %s: an unaudited decoder could alter accepted values" % (hand, sorted(spec["handwritten_decoders"])), cfg=cfg)
